#!/usr/bin/env python3
"""Orchestrator: ./check.py <ID> [--tier quick|thorough]   |   ./check.py --show <report.json>

Decides the structural clauses of one property (see DESIGN.md §4) on /repo's current working
tree from facts produced by the engines (no blots code is executed), compares violations with
known_findings.json by exact construct key, prints VIOLATION / KNOWN-FINDING lines, writes
evidence/<ID>.json.  Exit 0 = all rule instances hold (or are listed findings); 1 = unlisted
violation; 2 = CHECKER-ERROR (missing anchor, count below floor, engine failure).
"""
import importlib, json, os, sys, time, traceback

VERIF = os.path.dirname(os.path.abspath(__file__))
sys.path.insert(0, VERIF)
from lib import facts as F  # noqa: E402
from lib.ctx import Ctx  # noqa: E402


def loose_key(key):
    """a construct key without the function path and without the parts that depend on how the code is laid out:
    `ast_to_source::expr_to_source[Call]#func:unguarded=A,B` -> `[Call]#func:unguarded=A,B`, `..[String]#replace0` -> `[String]#replace`"""
    import re as _re
    k = key[key.index("["):] if "[" in key else key
    # (the set of unguarded kinds stays part of the key: a site that lost a guard is a different - worse - finding, not a moved one)
    k = _re.sub(r"#(\D+)\d+$", r"#\1", k)
    k = _re.sub(r"#(closure|for)@", "#loop@", k)   # the same walk over the members, written as an iterator chain or as a loop
    k = _re.sub(r"->expr_to_source#?$", "->expr_to_source", k)
    return k


def load_known():
    p = os.path.join(VERIF, "known_findings.json")
    with open(p) as f:
        return json.load(f)


def show(path):
    with open(path) as f:
        r = json.load(f)
    print(json.dumps(r, indent=2))
    return 0


def main(argv):
    if len(argv) >= 2 and argv[0] == "--show":
        return show(argv[1])
    if not argv:
        print(__doc__)
        return 2
    pid = argv[0].upper()
    tier = os.environ.get("VERIF_TIER", "quick")
    if "--tier" in argv:
        tier = argv[argv.index("--tier") + 1]
    if tier not in ("quick", "thorough"):
        tier = "quick"
    seed = int(os.environ.get("VERIF_SEED", "0") or 0)
    t0 = time.time()
    out_root = os.environ.get("VERIF_OUT", VERIF)  # self-tests on scratch copies redirect evidence/reports
    ev_path = os.path.join(out_root, "evidence", pid + ".json")
    os.makedirs(os.path.dirname(ev_path), exist_ok=True)
    try:
        mod = importlib.import_module("rules." + pid.lower())
    except ImportError as e:
        print("CHECKER-ERROR property=%s no rule module: %s" % (pid, e))
        return 2
    try:
        need = list(getattr(mod, "NEED", ("dev",)))
        if tier == "thorough":
            need += list(getattr(mod, "NEED_THOROUGH", ()))
        fdir = F.get_facts(need=tuple(need))
        ctx = Ctx(pid, tier, fdir)
    except F.CheckerError as e:
        # the facts could not be produced (engine / toolchain / build failure): nothing was analysed
        print("CHECKER-ERROR property=%s %s" % (pid, e))
        return 2
    except Exception:
        traceback.print_exc()
        print("CHECKER-ERROR property=%s internal error while producing the facts" % pid)
        return 2
    try:
        # An anchor or a shape that a rule needs and cannot find (after the role-based look-ups of lib/) means the code was
        # restructured beyond what the rule models. That is not evidence of a violation: the rules evaluated so far stand, the rest
        # of the property is UNDECIDED on this tree, and the check says so instead of failing.
        try:
            mod.run(ctx)
            if tier == "thorough" and hasattr(mod, "run_thorough"):
                mod.run_thorough(ctx)
        except F.CheckerError as e:
            ctx.rule(pid + ".anchors", "every function, match and table the rules of this property are anchored in was located", floor=0)
            ctx.inst(pid + ".anchors", "analysis-incomplete", None, "a rule could not locate what it is anchored in: %s; the remaining rules of this property were not evaluated on this tree" % e, None)
            print("UNDECIDED property=%s %s (the code was restructured beyond what the rules model; rules evaluated before this point stand)" % (pid, e))
        try:
            ctx.check_floors()
        except F.CheckerError as e:
            ctx.rule(pid + ".anchors", "every function, match and table the rules of this property are anchored in was located", floor=0)
            ctx.inst(pid + ".anchors", "instance-floor", None, str(e), None)
            print("UNDECIDED property=%s %s" % (pid, e))
    except Exception:
        traceback.print_exc()
        print("CHECKER-ERROR property=%s internal error in rule module" % pid)
        return 2

    known = load_known()
    kset = {}
    for k in known.get("findings", []):
        if k["property"] == pid:
            kset[(k["rule"], k["key"])] = k
    viol, kf = [], []
    for inst in ctx.instances:
        if inst["ok"] is False:
            kk = (inst["rule"], inst["key"])
            if kk in kset:
                kf.append((inst, kset[kk]))
            else:
                viol.append(inst)
    seen_keys = {(i["rule"], i["key"]) for i, _ in kf}
    # A listed finding whose construct no longer exists on this tree (no instance at all carries its key) may have MOVED: the same
    # defect, for the same AST construct and the same failing input, now lives in a renamed / merged / extracted function. Such a
    # violation is matched to the vanished finding by its key without the function path (`[String]#replace`, `[Call]#func`), one for
    # one; a violation beyond the number of vanished findings of that shape is reported as new.
    all_keys = {(i["rule"], i["key"]) for i in ctx.instances}
    vanished = {}
    for kk, k in kset.items():
        if kk not in all_keys and kk[0] in ctx.rule_doc and "[" in kk[1]:
            vanished.setdefault((kk[0], loose_key(kk[1])), []).append(k)
    still = []
    for inst in viol:
        lk = (inst["rule"], loose_key(inst["key"])) if "[" in inst["key"] else None
        if lk is not None and vanished.get(lk):
            k = vanished[lk].pop(0)
            kf.append((dict(inst, key="%s (moved: listed as %s)" % (inst["key"], k["key"])), k))
            seen_keys.add((k["rule"], k["key"]))
        else:
            still.append(inst)
    viol = still
    # A finding about a catch-all (`[_=A,B,C]`: the node kinds that fall through to it) that has become *narrower* - some of the listed
    # kinds got an arm of their own - is still the listed finding; one more kind falling through is a new one.
    import re as _re2
    def _parts(key):
        m = _re2.match(r"^(.*)\[_=([^\]]*)\](.*)$", key)
        if m:
            return (m.group(1), set(m.group(2).split(",")) - {""}, m.group(3))
        # `..#child:unguarded=A,B`: the kinds printed without the parentheses they need; fewer of them is the listed finding, improved
        m = _re2.match(r"^(.*:unguarded=)([^:\]]*)$", key)
        if m and m.group(2) != "-":
            return (m.group(1), set(m.group(2).split(",")) - {""}, "")
        return None
    still = []
    for inst in viol:
        pi = _parts(inst["key"])
        hit = None
        if pi:
            for kk, k in kset.items():
                pk = _parts(kk[1])
                if kk[0] == inst["rule"] and kk not in seen_keys and pk and pk[0] == pi[0] and pk[2] == pi[2] and pi[1] <= pk[1]:
                    hit = (kk, k)
                    break
        if hit:
            kf.append((dict(inst, key="%s (narrower than listed %s)" % (inst["key"], hit[1]["key"])), hit[1]))
            seen_keys.add(hit[0])
        else:
            still.append(inst)
    viol = still
    stale = [k for kk, k in kset.items() if kk not in seen_keys and kk[0] in ctx.rule_doc]  # only rules evaluated in this tier

    rdir = os.path.join(out_root, "reports", pid)
    os.makedirs(rdir, exist_ok=True)
    for old in os.listdir(rdir):
        os.remove(os.path.join(rdir, old))
    for inst, k in kf:
        print("KNOWN-FINDING: property=%s rule=%s %s -- %s" % (pid, inst["rule"], inst["key"], k.get("what", inst["detail"])))
    for k in stale:
        print("note: listed finding no longer reproduced (fixed?): %s %s" % (k["rule"], k["key"]))
    for n, inst in enumerate(viol):
        rp = os.path.join(rdir, "%d.json" % n)
        with open(rp, "w") as f:
            json.dump({"property": pid, **inst}, f, indent=2)
        print("VIOLATION property=%s replay=%s" % (pid, rp))
        print("  rule=%s key=%s\n  at %s\n  %s" % (inst["rule"], inst["key"], inst.get("loc"), inst["detail"]))

    ev = ctx.evidence(seed=seed, wall=time.time() - t0, violations=len(viol), known=[i["key"] for i, _ in kf])
    ev["coverage"]["checker_cmd"] = "./check.py %s --tier %s" % (pid, tier)
    with open(ev_path, "w") as f:
        json.dump(ev, f, indent=1)
    summ = ctx.summary()
    print("%s: %d rule instances over %d rules, %d hold, %d known findings, %d violations, %d undecided (%.1fs)" % (
        pid, summ["instances"], summ["rules"], summ["ok"], len(kf), len(viol), summ["undecided"], time.time() - t0))
    return 1 if viol else 0


if __name__ == "__main__":
    sys.exit(main(sys.argv[1:]))
