#!/usr/bin/env python3
"""Regenerates MANIFEST.json from the table below (single source, validated against the schema)."""
import json, os, subprocess, sys

HERE = os.path.dirname(os.path.abspath(__file__))

CLAIMS = {
    # id: (technique, text, note, design_ref)
}
NOT_APPLICABLE = {}
ADDED = {}

exec(open(os.path.join(HERE, "manifest_table.py")).read())

def main():
    checks = []
    for pid in sorted(CLAIMS):
        tech, text, note, ref = CLAIMS[pid]
        if ADDED.get(pid):
            text = text.rstrip() + " " + ADDED[pid]
        checks.append({
            "property_id": pid,
            "quick_cmd": "./check.py %s --tier quick" % pid,
            "thorough_cmd": "./check.py %s --tier thorough" % pid,
            "evidence_file": "/verif/evidence/%s.json" % pid,
            "replay_cmd_template": "./check.py --show {path}",
            "engine": "blots-static",
            "level_claimed": {"category": "other", "text": text, "design_ref": ref},
            "level_note": note,
            "technique": tech,
        })
    commits = subprocess.run(["git", "-C", "/repo", "log", "--format=%H %s", "c1b571e..HEAD"], capture_output=True, text=True).stdout.strip().splitlines()
    m = {
        "version": 1,
        "setup_cmd": "cd /verif && ./setup.sh",
        "hooks": {
            "guard": "none",
            "enable": "no hooks: every check is a static analysis of /repo's working tree (rustc_private fact driver under `cargo +nightly check`, pest_meta grammar AST, cargo metadata, llvm-readobj stack sizes); the only commits to /repo are `fix:` repairs",
            "baseline_off_cmd": "cd /repo && cargo test --workspace --no-fail-fast --offline",
            "source_commits": [],
            "add_only": True,
        },
        "engines": [
            {"name": "blots-facts", "path": "engine/blots-facts", "serves_properties": sorted(CLAIMS), "kind_free_text": "rustc_private driver: dumps MIR (resolved callees, asserts), HIR (resolved paths, match tables, struct literals), format-string templates and type definitions of the three workspace crates as JSON"},
            {"name": "grammar-facts", "path": "engine/grammar-facts", "serves_properties": [p for p in sorted(CLAIMS) if p in ("C01", "C05", "C07", "C09", "C10", "C16")], "kind_free_text": "pest_meta 2.8.3 (the parser pest_derive uses) -> grammar AST as JSON; PEG analyses in lib/peg.py"},
            {"name": "rules", "path": "rules", "serves_properties": sorted(CLAIMS), "kind_free_text": "Python rule modules: dominance / must-reach / who-may-call / table agreement / sibling agreement / PEG shadowing / exact-rational unit table lints over the facts"},
        ],
        "checks": checks,
        "notes": "Static analysis only: no registered command executes blots code. Each check decides named structural clauses (necessary conditions) of its property, listed in DESIGN.md §4 and in the evidence file; fixes made to /repo: " + "; ".join(commits),
        "not_applicable": [{"property_id": k, "reason": v} for k, v in sorted(NOT_APPLICABLE.items())],
    }
    with open(os.path.join(HERE, "MANIFEST.json"), "w") as f:
        json.dump(m, f, indent=1)
    try:
        import jsonschema
        jsonschema.validate(m, json.load(open("/root/.vp/MANIFEST.schema.json")))
        print("MANIFEST.json valid: %d checks, %d not applicable" % (len(checks), len(NOT_APPLICABLE)))
    except ImportError:
        print("MANIFEST.json written (jsonschema not importable with this python)")

main()
