// grammar-facts: parse a .pest grammar with the very parser pest_derive uses (pest_meta 2.8.3)
// and print its AST as JSON. No analysis here; PEG rules live in /verif/rules (Python).
use pest_meta::ast::{Expr, RuleType};
use pest_meta::parser::{self, Rule};

fn esc(s: &str) -> String {
    let mut o = String::from("\"");
    for c in s.chars() {
        match c {
            '"' => o.push_str("\\\""),
            '\\' => o.push_str("\\\\"),
            '\n' => o.push_str("\\n"),
            '\r' => o.push_str("\\r"),
            '\t' => o.push_str("\\t"),
            c if (c as u32) < 0x20 => o.push_str(&format!("\\u{:04x}", c as u32)),
            c => o.push(c),
        }
    }
    o.push('"');
    o
}

fn ex(e: &Expr) -> String {
    match e {
        Expr::Str(s) => format!("{{\"k\":\"str\",\"v\":{}}}", esc(s)),
        Expr::Insens(s) => format!("{{\"k\":\"insens\",\"v\":{}}}", esc(s)),
        Expr::Range(a, b) => format!("{{\"k\":\"range\",\"a\":{},\"b\":{}}}", esc(a), esc(b)),
        Expr::Ident(s) => format!("{{\"k\":\"ident\",\"v\":{}}}", esc(s)),
        Expr::PeekSlice(a, b) => format!("{{\"k\":\"peekslice\",\"a\":{},\"b\":{}}}", a, b.map(|x| x.to_string()).unwrap_or("null".into())),
        Expr::PosPred(a) => format!("{{\"k\":\"pos\",\"e\":{}}}", ex(a)),
        Expr::NegPred(a) => format!("{{\"k\":\"neg\",\"e\":{}}}", ex(a)),
        Expr::Seq(a, b) => format!("{{\"k\":\"seq\",\"a\":{},\"b\":{}}}", ex(a), ex(b)),
        Expr::Choice(a, b) => format!("{{\"k\":\"choice\",\"a\":{},\"b\":{}}}", ex(a), ex(b)),
        Expr::Opt(a) => format!("{{\"k\":\"opt\",\"e\":{}}}", ex(a)),
        Expr::Rep(a) => format!("{{\"k\":\"rep\",\"e\":{}}}", ex(a)),
        Expr::RepOnce(a) => format!("{{\"k\":\"rep1\",\"e\":{}}}", ex(a)),
        Expr::RepExact(a, n) => format!("{{\"k\":\"repn\",\"e\":{},\"min\":{},\"max\":{}}}", ex(a), n, n),
        Expr::RepMin(a, n) => format!("{{\"k\":\"repn\",\"e\":{},\"min\":{},\"max\":null}}", ex(a), n),
        Expr::RepMax(a, n) => format!("{{\"k\":\"repn\",\"e\":{},\"min\":0,\"max\":{}}}", ex(a), n),
        Expr::RepMinMax(a, m, n) => format!("{{\"k\":\"repn\",\"e\":{},\"min\":{},\"max\":{}}}", ex(a), m, n),
        Expr::Skip(v) => format!("{{\"k\":\"skip\",\"v\":[{}]}}", v.iter().map(|s| esc(s)).collect::<Vec<_>>().join(",")),
        Expr::Push(a) => format!("{{\"k\":\"push\",\"e\":{}}}", ex(a)),
    }
}

fn main() {
    let path = std::env::args().nth(1).expect("usage: grammar-facts <grammar.pest>");
    let src = std::fs::read_to_string(&path).expect("read grammar");
    let pairs = match parser::parse(Rule::grammar_rules, &src) {
        Ok(p) => p,
        Err(e) => {
            eprintln!("grammar parse error: {}", e);
            std::process::exit(3);
        }
    };
    let rules = match parser::consume_rules(pairs) {
        Ok(r) => r,
        Err(es) => {
            for e in es {
                eprintln!("grammar error: {}", e);
            }
            std::process::exit(3);
        }
    };
    let mut out = Vec::new();
    for r in rules.iter() {
        let ty = match r.ty {
            RuleType::Normal => "normal",
            RuleType::Silent => "silent",
            RuleType::Atomic => "atomic",
            RuleType::CompoundAtomic => "compound",
            RuleType::NonAtomic => "nonatomic",
        };
        out.push(format!("{{\"name\":{},\"ty\":\"{}\",\"expr\":{}}}", esc(&r.name), ty, ex(&r.expr)));
    }
    println!("{{\"rules\":[{}]}}", out.join(",\n"));
}
