// Format-string templates, read from the expanded AST (HIR lowers them beyond recognition).
use crate::json::J;
use crate::mirdump::span_j;
use rustc_ast as ast;
use rustc_ast::visit::{self, Visitor};
use rustc_ast::{FormatArgsPiece, FormatCount};
use rustc_middle::ty::TyCtxt;

struct V<'tcx> {
    tcx: TyCtxt<'tcx>,
    out: Vec<J>,
    fn_stack: Vec<String>,
}

impl<'a, 'tcx> Visitor<'a> for V<'tcx> {
    fn visit_item(&mut self, i: &'a ast::Item) {
        let name = match &i.kind {
            ast::ItemKind::Fn(f) => Some(f.ident.name.to_string()),
            ast::ItemKind::Mod(_, id, _) => Some(id.name.to_string()),
            ast::ItemKind::Impl(_) => Some("impl".to_string()),
            _ => None,
        };
        if let Some(n) = &name {
            self.fn_stack.push(n.clone());
        }
        visit::walk_item(self, i);
        if name.is_some() {
            self.fn_stack.pop();
        }
    }
    fn visit_assoc_item(&mut self, i: &'a ast::AssocItem, ctxt: visit::AssocCtxt) {
        let name = match &i.kind {
            ast::AssocItemKind::Fn(f) => Some(f.ident.name.to_string()),
            _ => None,
        };
        if let Some(n) = &name {
            self.fn_stack.push(n.clone());
        }
        visit::walk_assoc_item(self, i, ctxt);
        if name.is_some() {
            self.fn_stack.pop();
        }
    }
    fn visit_expr(&mut self, e: &'a ast::Expr) {
        if let ast::ExprKind::FormatArgs(fa) = &e.kind {
            let mut pieces = Vec::new();
            for p in fa.template.iter() {
                match p {
                    FormatArgsPiece::Literal(s) => pieces.push(J::obj().set("lit", J::s(s.to_string()))),
                    FormatArgsPiece::Placeholder(ph) => {
                        let mut j = J::obj();
                        j.put("arg", ph.argument.index.map(|i| J::Int(i as i128)).unwrap_or(J::Null));
                        j.put("trait", J::s(format!("{:?}", ph.format_trait)));
                        let cnt = |c: &Option<FormatCount>| match c {
                            None => J::Null,
                            Some(FormatCount::Literal(n)) => J::Int(*n as i128),
                            Some(FormatCount::Argument(_)) => J::s("arg"),
                        };
                        j.put("precision", cnt(&ph.format_options.precision));
                        j.put("width", cnt(&ph.format_options.width));
                        pieces.push(j);
                    }
                }
            }
            let args: Vec<J> = fa.arguments.all_args().iter().map(|a| span_j(self.tcx, a.expr.span)).collect();
            self.out.push(
                J::obj()
                    .set("sp", span_j(self.tcx, e.span))
                    .set("path", J::s(self.fn_stack.join("::")))
                    .set("pieces", J::Arr(pieces))
                    .set("args", J::Arr(args)),
            );
        }
        visit::walk_expr(self, e);
    }
}

pub fn dump<'tcx>(tcx: TyCtxt<'tcx>) -> J {
    let r = tcx.resolver_for_lowering().borrow();
    let krate: &ast::Crate = &r.1;
    let mut v = V { tcx, out: Vec::new(), fn_stack: Vec::new() };
    visit::walk_crate(&mut v, krate);
    J::Arr(v.out)
}
