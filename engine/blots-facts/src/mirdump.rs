use crate::json::J;
use rustc_hir::def::DefKind;
use rustc_hir::def_id::DefId;
use rustc_middle::mir::*;
use rustc_middle::ty::{self, Instance, Ty, TyCtxt, TypingEnv};
use rustc_span::Span;

pub fn dp(tcx: TyCtxt<'_>, did: DefId) -> String {
    tcx.def_path_str(did)
}

pub fn span_j(tcx: TyCtxt<'_>, sp: Span) -> J {
    // [file, line, col, lo, hi, from_expansion, callsite_lo, callsite_hi, macro]
    let sm = tcx.sess.source_map();
    let exp = sp.from_expansion();
    let cs = if exp { sp.source_callsite() } else { sp };
    let mut mac = String::new();
    if exp {
        // outermost macro in the backtrace
        for e in sp.macro_backtrace() {
            if let rustc_span::ExpnKind::Macro(_, name) = e.kind {
                mac = name.to_string();
            }
        }
        if mac.is_empty() {
            mac = format!("{:?}", sp.ctxt().outer_expn_data().kind);
        }
    }
    if cs.is_dummy() {
        return J::Arr(vec![J::s(""), J::Int(0), J::Int(0), J::Int(0), J::Int(0), J::Bool(exp), J::s(mac)]);
    }
    let lo = sm.lookup_char_pos(cs.lo());
    let fname = format!("{}", lo.file.name.prefer_local_unconditionally());
    let start = lo.file.start_pos.0 as i128;
    J::Arr(vec![
        J::s(fname),
        J::Int(lo.line as i128),
        J::Int(lo.col.0 as i128 + 1),
        J::Int(cs.lo().0 as i128 - start),
        J::Int(cs.hi().0 as i128 - start),
        J::Bool(exp),
        J::s(mac),
    ])
}

pub fn ty_s<'tcx>(t: Ty<'tcx>) -> String {
    format!("{}", t)
}

struct Cx<'tcx> {
    tcx: TyCtxt<'tcx>,
    def: DefId,
    body: &'tcx Body<'tcx>,
}

impl<'tcx> Cx<'tcx> {
    fn place(&self, p: &Place<'tcx>) -> J {
        let mut proj = Vec::new();
        let mut cur_ty = PlaceTy::from_ty(self.body.local_decls[p.local].ty);
        for elem in p.projection.iter() {
            let j = match elem {
                ProjectionElem::Deref => J::s("*"),
                ProjectionElem::Field(f, _t) => {
                    // name the field if we can
                    let mut name = format!("{}", f.index());
                    if let ty::Adt(adt, _) = cur_ty.ty.kind() {
                        let vi = cur_ty.variant_index.unwrap_or(rustc_abi::FIRST_VARIANT);
                        if adt.is_enum() || adt.is_struct() {
                            if let Some(v) = adt.variants().get(vi) {
                                if let Some(fd) = v.fields.get(f) {
                                    name = fd.name.to_string();
                                }
                            }
                        }
                    }
                    J::obj().set("f", J::Int(f.index() as i128)).set("n", J::s(name))
                }
                ProjectionElem::Index(l) => J::obj().set("idx", J::Int(l.index() as i128)),
                ProjectionElem::ConstantIndex { offset, min_length, from_end } => J::obj()
                    .set("cidx", J::Int(offset as i128))
                    .set("min", J::Int(min_length as i128))
                    .set("end", J::Bool(from_end)),
                ProjectionElem::Subslice { from, to, from_end } => J::obj()
                    .set("sub", J::Arr(vec![J::Int(from as i128), J::Int(to as i128)]))
                    .set("end", J::Bool(from_end)),
                ProjectionElem::Downcast(name, vi) => J::obj()
                    .set("down", J::s(name.map(|s| s.to_string()).unwrap_or_default()))
                    .set("vi", J::Int(vi.index() as i128)),
                ProjectionElem::OpaqueCast(_) => J::s("opaque"),
                ProjectionElem::UnwrapUnsafeBinder(_) => J::s("unbind"),
            };
            proj.push(j);
            cur_ty = cur_ty.projection_ty(self.tcx, elem);
        }
        J::obj().set("l", J::Int(p.local.index() as i128)).set("p", J::Arr(proj))
    }

    fn fn_const(&self, t: Ty<'tcx>) -> Option<J> {
        match *t.kind() {
            ty::FnDef(did, args) => {
                let mut o = J::obj().set("def", J::s(dp(self.tcx, did)));
                let mut gs = Vec::new();
                let mut closures = Vec::new();
                for a in args.iter() {
                    gs.push(J::s(format!("{}", a)));
                    if let Some(t) = a.as_type() {
                        collect_closures(t, &mut closures, self.tcx, 0);
                    }
                }
                o.put("gen", J::Arr(gs));
                if !closures.is_empty() {
                    o.put("closures", J::Arr(closures.into_iter().map(J::s).collect()));
                }
                let env = TypingEnv::post_analysis(self.tcx, self.def);
                if let Ok(Some(inst)) = Instance::try_resolve(self.tcx, env, did, args) {
                    let rd = inst.def_id();
                    o.put("res", J::s(dp(self.tcx, rd)));
                    if let ty::InstanceKind::Item(_) = inst.def {
                    } else {
                        o.put("ikind", J::s(format!("{:?}", inst.def).split('(').next().unwrap_or("").to_string()));
                    }
                    // Self type of the impl the resolved method lives in
                    if let Some(imp) = self.tcx.impl_of_assoc(rd) {
                        let st = self.tcx.type_of(imp).instantiate_identity().skip_norm_wip();
                        o.put("impl_self", J::s(ty_s(st)));
                    }
                }
                Some(o)
            }
            ty::Closure(did, _) => Some(J::obj().set("closure", J::s(dp(self.tcx, did)))),
            _ => None,
        }
    }

    fn operand(&self, o: &Operand<'tcx>) -> J {
        match o {
            Operand::Copy(p) => J::obj().set("copy", self.place(p)),
            Operand::Move(p) => J::obj().set("move", self.place(p)),
            Operand::Constant(c) => {
                let t = c.const_.ty();
                if let Some(f) = self.fn_const(t) {
                    return J::obj().set("const", J::s("fn")).set("fn", f);
                }
                let mut j = J::obj().set("const", J::s(format!("{}", c.const_))).set("ty", J::s(ty_s(t)));
                if t.is_integral() || t.is_bool() || t.is_char() {
                    let env = TypingEnv::post_analysis(self.tcx, self.def);
                    if let Some(si) = c.const_.try_eval_scalar_int(self.tcx, env) {
                        let bits = si.to_bits(si.size());
                        j.put("int", J::s(format!("{}", bits)));
                    }
                }
                // static references
                if let Const::Val(..) = c.const_ {
                    if let Some(did) = c.check_static_ptr(self.tcx) {
                        j.put("static", J::s(dp(self.tcx, did)));
                    }
                }
                j
            }
            _ => J::obj().set("other", J::s(format!("{:?}", o))),
        }
    }

    fn rvalue(&self, rv: &Rvalue<'tcx>) -> J {
        match rv {
            Rvalue::Use(op, ..) => J::obj().set("k", J::s("use")).set("op", self.operand(op)),
            Rvalue::Ref(_, bk, p) => J::obj()
                .set("k", J::s("ref"))
                .set("mut", J::Bool(matches!(bk, BorrowKind::Mut { .. })))
                .set("place", self.place(p)),
            Rvalue::RawPtr(_, p) => J::obj().set("k", J::s("rawptr")).set("place", self.place(p)),
            Rvalue::CopyForDeref(p) => {
                J::obj().set("k", J::s("use")).set("op", J::obj().set("copy", self.place(p)))
            }
            Rvalue::Cast(kind, op, t) => J::obj()
                .set("k", J::s("cast"))
                .set("kind", J::s(format!("{:?}", kind).split('(').next().unwrap_or("").to_string()))
                .set("op", self.operand(op))
                .set("ty", J::s(ty_s(*t))),
            Rvalue::BinaryOp(op, ab) => J::obj()
                .set("k", J::s("binop"))
                .set("op", J::s(format!("{:?}", op)))
                .set("a", self.operand(&ab.0))
                .set("b", self.operand(&ab.1))
                .set("aty", J::s(ty_s(ab.0.ty(&self.body.local_decls, self.tcx)))),
            Rvalue::UnaryOp(op, a) => J::obj()
                .set("k", J::s("unop"))
                .set("op", J::s(format!("{:?}", op)))
                .set("a", self.operand(a)),
            Rvalue::Discriminant(p) => {
                let pt = p.ty(&self.body.local_decls, self.tcx).ty;
                let mut j = J::obj().set("k", J::s("discr")).set("place", self.place(p)).set("ty", J::s(ty_s(pt)));
                if let ty::Adt(adt, _) = pt.kind() {
                    if adt.is_enum() {
                        let mut vs = Vec::new();
                        for (vi, d) in adt.discriminants(self.tcx) {
                            vs.push(J::Arr(vec![
                                J::s(format!("{}", d.val)),
                                J::s(adt.variant(vi).name.to_string()),
                            ]));
                        }
                        j.put("variants", J::Arr(vs));
                        j.put("enum", J::s(dp(self.tcx, adt.did())));
                    }
                }
                j
            }
            Rvalue::Aggregate(kind, ops) => {
                let mut j = J::obj().set("k", J::s("agg"));
                match &**kind {
                    AggregateKind::Array(_) => j.put("kind", J::s("array")),
                    AggregateKind::Tuple => j.put("kind", J::s("tuple")),
                    AggregateKind::Adt(did, vi, _, _, _) => {
                        let adt = self.tcx.adt_def(*did);
                        j.put("kind", J::s("adt"));
                        j.put("adt", J::s(dp(self.tcx, *did)));
                        j.put("variant", J::s(adt.variant(*vi).name.to_string()));
                        let fns: Vec<J> =
                            adt.variant(*vi).fields.iter().map(|f| J::s(f.name.to_string())).collect();
                        j.put("fields", J::Arr(fns));
                    }
                    AggregateKind::Closure(did, _) => {
                        j.put("kind", J::s("closure"));
                        j.put("closure", J::s(dp(self.tcx, *did)));
                    }
                    _ => j.put("kind", J::s("other")),
                }
                j.put("ops", J::Arr(ops.iter().map(|o| self.operand(o)).collect()));
                j
            }
            Rvalue::Repeat(op, _) => J::obj().set("k", J::s("repeat")).set("op", self.operand(op)),
            Rvalue::ThreadLocalRef(did) => J::obj().set("k", J::s("tls")).set("static", J::s(dp(self.tcx, *did))),
            _ => J::obj().set("k", J::s("other")).set("dbg", J::s(format!("{:?}", rv))),
        }
    }

    fn stmt(&self, s: &Statement<'tcx>) -> Option<J> {
        let sp = span_j(self.tcx, s.source_info.span);
        match &s.kind {
            StatementKind::Assign(b) => Some(
                J::obj().set("k", J::s("assign")).set("lhs", self.place(&b.0)).set("rv", self.rvalue(&b.1)).set("sp", sp),
            ),
            StatementKind::SetDiscriminant { place, variant_index } => Some(
                J::obj()
                    .set("k", J::s("setdiscr"))
                    .set("lhs", self.place(place))
                    .set("vi", J::Int(variant_index.index() as i128))
                    .set("sp", sp),
            ),
            StatementKind::StorageLive(l) => Some(J::obj().set("k", J::s("live")).set("l", J::Int(l.index() as i128))),
            StatementKind::StorageDead(l) => Some(J::obj().set("k", J::s("dead")).set("l", J::Int(l.index() as i128))),
            _ => None,
        }
    }

    fn term(&self, t: &Terminator<'tcx>) -> J {
        let sp = span_j(self.tcx, t.source_info.span);
        let bb = |b: BasicBlock| J::Int(b.index() as i128);
        let unw = |u: &UnwindAction| match u {
            UnwindAction::Cleanup(b) => J::Int(b.index() as i128),
            _ => J::Null,
        };
        let j = match &t.kind {
            TerminatorKind::Goto { target } => J::obj().set("k", J::s("goto")).set("t", bb(*target)),
            TerminatorKind::SwitchInt { discr, targets } => {
                let mut ts = Vec::new();
                for (v, b) in targets.iter() {
                    ts.push(J::Arr(vec![J::s(format!("{}", v)), bb(b)]));
                }
                J::obj()
                    .set("k", J::s("switch"))
                    .set("discr", self.operand(discr))
                    .set("dty", J::s(ty_s(discr.ty(&self.body.local_decls, self.tcx))))
                    .set("targets", J::Arr(ts))
                    .set("otherwise", bb(targets.otherwise()))
            }
            TerminatorKind::UnwindResume => J::obj().set("k", J::s("resume")),
            TerminatorKind::UnwindTerminate(_) => J::obj().set("k", J::s("terminate")),
            TerminatorKind::Return => J::obj().set("k", J::s("return")),
            TerminatorKind::Unreachable => J::obj().set("k", J::s("unreachable")),
            TerminatorKind::Drop { place, target, unwind, .. } => J::obj()
                .set("k", J::s("drop"))
                .set("place", self.place(place))
                .set("pty", J::s(ty_s(place.ty(&self.body.local_decls, self.tcx).ty)))
                .set("t", bb(*target))
                .set("unwind", unw(unwind)),
            TerminatorKind::Call { func, args, destination, target, unwind, fn_span, .. } => {
                let mut j = J::obj().set("k", J::s("call")).set("func", self.operand(func));
                j.put("args", J::Arr(args.iter().map(|a| self.operand(&a.node)).collect()));
                j.put(
                    "argtys",
                    J::Arr(args.iter().map(|a| J::s(ty_s(a.node.ty(&self.body.local_decls, self.tcx)))).collect()),
                );
                j.put("dest", self.place(destination));
                j.put("t", target.map(bb).unwrap_or(J::Null));
                j.put("unwind", unw(unwind));
                j.put("fsp", span_j(self.tcx, *fn_span));
                j
            }
            TerminatorKind::Assert { cond, expected, msg, target, unwind } => {
                let mut j = J::obj()
                    .set("k", J::s("assert"))
                    .set("cond", self.operand(cond))
                    .set("expected", J::Bool(*expected))
                    .set("t", bb(*target))
                    .set("unwind", unw(unwind));
                let (kind, ops): (String, Vec<J>) = match &**msg {
                    AssertKind::BoundsCheck { len, index } => {
                        ("BoundsCheck".into(), vec![self.operand(len), self.operand(index)])
                    }
                    AssertKind::Overflow(op, a, b) => {
                        (format!("Overflow:{:?}", op), vec![self.operand(a), self.operand(b)])
                    }
                    AssertKind::OverflowNeg(a) => ("OverflowNeg".into(), vec![self.operand(a)]),
                    AssertKind::DivisionByZero(a) => ("DivisionByZero".into(), vec![self.operand(a)]),
                    AssertKind::RemainderByZero(a) => ("RemainderByZero".into(), vec![self.operand(a)]),
                    other => (format!("{:?}", other).split(|c| c == '(' || c == ' ' || c == '{').next().unwrap_or("").to_string(), vec![]),
                };
                j.put("msg", J::s(kind));
                j.put("ops", J::Arr(ops));
                j
            }
            TerminatorKind::FalseEdge { real_target, .. } => J::obj().set("k", J::s("goto")).set("t", bb(*real_target)),
            TerminatorKind::FalseUnwind { real_target, .. } => J::obj().set("k", J::s("goto")).set("t", bb(*real_target)),
            other => J::obj().set("k", J::s("other")).set("dbg", J::s(format!("{:?}", other))),
        };
        j.set("sp", sp)
    }
}

fn collect_closures<'tcx>(t: Ty<'tcx>, out: &mut Vec<String>, tcx: TyCtxt<'tcx>, depth: usize) {
    if depth > 6 {
        return;
    }
    for inner in t.walk() {
        if let Some(t) = inner.as_type() {
            match *t.kind() {
                ty::Closure(did, _) => {
                    let s = dp(tcx, did);
                    if !out.contains(&s) {
                        out.push(s);
                    }
                }
                ty::FnDef(did, _) => {
                    let s = format!("fn:{}", dp(tcx, did));
                    if !out.contains(&s) {
                        out.push(s);
                    }
                }
                _ => {}
            }
        }
    }
}

pub fn dump<'tcx>(tcx: TyCtxt<'tcx>) -> J {
    let mut fns = Vec::new();
    for &ldid in tcx.mir_keys(()).iter() {
        let did = ldid.to_def_id();
        let kind = tcx.def_kind(did);
        let is_fn = matches!(kind, DefKind::Fn | DefKind::AssocFn | DefKind::Closure);
        if !is_fn {
            continue;
        }
        if tcx.is_constructor(did) {
            continue;
        }
        let body: &Body<'tcx> = tcx.optimized_mir(did);
        let cx = Cx { tcx, def: did, body };
        let mut f = J::obj();
        f.put("kind", J::s(format!("{:?}", kind)));
        f.put("sp", span_j(tcx, tcx.def_span(did)));
        if matches!(kind, DefKind::Fn | DefKind::AssocFn) {
            f.put("vis", J::s(if tcx.visibility(did).is_public() { "pub" } else { "restricted" }));
        }
        if kind == DefKind::Closure {
            f.put("parent", J::s(dp(tcx, tcx.typeck_root_def_id(did))));
        }
        f.put("argc", J::Int(body.arg_count as i128));
        let mut locals = Vec::new();
        for (_l, d) in body.local_decls.iter_enumerated() {
            locals.push(J::obj().set("ty", J::s(ty_s(d.ty))));
        }
        f.put("locals", J::Arr(locals));
        let mut dbg = Vec::new();
        for v in body.var_debug_info.iter() {
            if let VarDebugInfoContents::Place(p) = &v.value {
                dbg.push(J::Arr(vec![J::s(v.name.to_string()), cx.place(p)]));
            }
        }
        f.put("debug", J::Arr(dbg));
        let mut blocks = Vec::new();
        for (_b, data) in body.basic_blocks.iter_enumerated() {
            let stmts: Vec<J> = data.statements.iter().filter_map(|s| cx.stmt(s)).collect();
            blocks.push(
                J::obj()
                    .set("s", J::Arr(stmts))
                    .set("t", cx.term(data.terminator()))
                    .set("cleanup", J::Bool(data.is_cleanup)),
            );
        }
        f.put("blocks", J::Arr(blocks));
        fns.push((dp(tcx, did), f));
    }
    J::Obj(fns)
}
