use crate::json::J;
use crate::mirdump::{dp, span_j, ty_s};
use rustc_ast::ast::LitKind;
use rustc_hir as hir;
use rustc_hir::def::{DefKind, Res};
use rustc_hir::def_id::LocalDefId;
use rustc_hir::intravisit::{self, Visitor};
use rustc_middle::ty::{self, TyCtxt, TypeckResults};
use rustc_span::Span;

const FMT_FAMILY: &[&str] = &[
    "format", "write", "writeln", "print", "println", "eprint", "eprintln", "panic", "unreachable", "todo",
    "unimplemented", "format_args", "anyhow", "bail", "assert", "assert_eq", "assert_ne", "debug_assert",
    "debug_assert_eq", "debug_assert_ne",
];

struct Cx<'tcx> {
    tcx: TyCtxt<'tcx>,
    tr: &'tcx TypeckResults<'tcx>,
    owner: LocalDefId,
}

fn outer_macro(sp: Span) -> (String, Span) {
    let mut mac = String::new();
    for e in sp.macro_backtrace() {
        if let rustc_span::ExpnKind::Macro(_, name) = e.kind {
            mac = name.to_string();
        }
    }
    (mac, sp.source_callsite())
}

struct ArgCollector<'a, 'tcx> {
    cx: &'a Cx<'tcx>,
    callsite: Span,
    out: Vec<J>,
}

impl<'a, 'tcx> Visitor<'tcx> for ArgCollector<'a, 'tcx> {
    fn visit_expr(&mut self, e: &'tcx hir::Expr<'tcx>) {
        if !e.span.from_expansion() || e.span.source_callsite() != self.callsite {
            // a user-written argument (or a nested, different macro call)
            if self.callsite.contains(e.span.source_callsite()) {
                self.out.push(self.cx.expr(e));
                return;
            }
        }
        intravisit::walk_expr(self, e);
    }
}

impl<'tcx> Cx<'tcx> {
    fn res(&self, r: Res) -> J {
        match r {
            Res::Def(kind, did) => {
                let d = match kind {
                    DefKind::Ctor(..) => self.tcx.parent(did),
                    _ => did,
                };
                J::obj().set("def", J::s(dp(self.tcx, d))).set("dk", J::s(format!("{:?}", kind).split(|c| c == '(' || c == ' ' || c == '{').next().unwrap_or("").to_string()))
            }
            Res::Local(id) => J::obj().set("local", J::s(self.tcx.hir_name(id).to_string())),
            Res::SelfCtor(_) | Res::SelfTyAlias { .. } | Res::SelfTyParam { .. } => J::obj().set("self", J::Bool(true)),
            other => J::obj().set("other", J::s(format!("{:?}", other))),
        }
    }

    fn lit(&self, l: &hir::Lit, negated: bool) -> J {
        let (lk, v) = match &l.node {
            LitKind::Str(s, _) => ("str", s.to_string()),
            LitKind::Int(i, _) => ("int", format!("{}", i.get())),
            LitKind::Float(s, _) => ("float", s.to_string()),
            LitKind::Bool(b) => ("bool", format!("{}", b)),
            LitKind::Char(c) => ("char", c.to_string()),
            LitKind::Byte(b) => ("byte", format!("{}", b)),
            _ => ("other", String::new()),
        };
        let mut j = J::obj().set("k", J::s("Lit")).set("lk", J::s(lk)).set("v", J::s(v));
        if negated {
            j.put("neg", J::Bool(true));
        }
        j
    }

    fn pat(&self, p: &'tcx hir::Pat<'tcx>) -> J {
        use hir::PatKind::*;
        let mut j = match &p.kind {
            Wild | Missing => J::obj().set("k", J::s("Wild")),
            Binding(mode, _id, ident, sub) => {
                let mut j = J::obj().set("k", J::s("Bind")).set("name", J::s(ident.name.to_string()));
                j.put("mode", J::s(format!("{:?}", mode)));
                if let Some(s) = sub {
                    j.put("sub", self.pat(s));
                }
                j
            }
            Struct(q, fields, rest) => {
                let r = self.tr.qpath_res(q, p.hir_id);
                let fs: Vec<J> = fields
                    .iter()
                    .map(|f| J::obj().set("name", J::s(f.ident.name.to_string())).set("pat", self.pat(f.pat)))
                    .collect();
                J::obj().set("k", J::s("Struct")).set("res", self.res(r)).set("fields", J::Arr(fs)).set("rest", J::Bool(rest.is_some()))
            }
            TupleStruct(q, pats, dd) => {
                let r = self.tr.qpath_res(q, p.hir_id);
                J::obj()
                    .set("k", J::s("TupleStruct"))
                    .set("res", self.res(r))
                    .set("pats", J::Arr(pats.iter().map(|x| self.pat(x)).collect()))
                    .set("dd", dd.as_opt_usize().map(|u| J::Int(u as i128)).unwrap_or(J::Null))
            }
            Or(pats) => J::obj().set("k", J::s("Or")).set("pats", J::Arr(pats.iter().map(|x| self.pat(x)).collect())),
            Tuple(pats, dd) => J::obj()
                .set("k", J::s("Tuple"))
                .set("pats", J::Arr(pats.iter().map(|x| self.pat(x)).collect()))
                .set("dd", dd.as_opt_usize().map(|u| J::Int(u as i128)).unwrap_or(J::Null)),
            Box(x) | Deref(x) => J::obj().set("k", J::s("Ref")).set("pat", self.pat(x)),
            Ref(x, _, _) => J::obj().set("k", J::s("Ref")).set("pat", self.pat(x)),
            Expr(pe) => self.pat_expr(pe),
            Guard(x, g) => J::obj().set("k", J::s("Guard")).set("pat", self.pat(x)).set("guard", self.expr(g)),
            Range(a, b, end) => J::obj()
                .set("k", J::s("Range"))
                .set("lo", a.map(|x| self.pat_expr(x)).unwrap_or(J::Null))
                .set("hi", b.map(|x| self.pat_expr(x)).unwrap_or(J::Null))
                .set("end", J::s(format!("{:?}", end))),
            Slice(before, mid, after) => J::obj()
                .set("k", J::s("Slice"))
                .set("before", J::Arr(before.iter().map(|x| self.pat(x)).collect()))
                .set("mid", mid.map(|x| self.pat(x)).unwrap_or(J::Null))
                .set("after", J::Arr(after.iter().map(|x| self.pat(x)).collect())),
            _ => J::obj().set("k", J::s("Other")),
        };
        if let Some(t) = self.tr.node_type_opt(p.hir_id) {
            j.put("ty", J::s(ty_s(t)));
        }
        j.put("sp", span_j(self.tcx, p.span));
        j
    }

    fn pat_expr(&self, pe: &'tcx hir::PatExpr<'tcx>) -> J {
        match &pe.kind {
            hir::PatExprKind::Lit { lit, negated } => self.lit(lit, *negated),
            hir::PatExprKind::Path(q) => {
                let r = self.tr.qpath_res(q, pe.hir_id);
                J::obj().set("k", J::s("Path")).set("res", self.res(r))
            }
        }
    }

    fn block(&self, b: &'tcx hir::Block<'tcx>) -> J {
        let mut stmts = Vec::new();
        for s in b.stmts {
            let j = match &s.kind {
                hir::StmtKind::Let(l) => {
                    let mut j = J::obj().set("k", J::s("Let")).set("pat", self.pat(l.pat));
                    if let Some(i) = l.init {
                        j.put("init", self.expr(i));
                    }
                    if let Some(e) = l.els {
                        j.put("els", self.block(e));
                    }
                    j.put("sp", span_j(self.tcx, l.span));
                    j
                }
                hir::StmtKind::Expr(e) => J::obj().set("k", J::s("Expr")).set("e", self.expr(e)),
                hir::StmtKind::Semi(e) => J::obj().set("k", J::s("Semi")).set("e", self.expr(e)),
                hir::StmtKind::Item(_) => J::obj().set("k", J::s("Item")),
            };
            stmts.push(j);
        }
        let mut j = J::obj().set("k", J::s("Block")).set("stmts", J::Arr(stmts));
        if let Some(e) = b.expr {
            j.put("expr", self.expr(e));
        }
        j
    }

    fn callee_res(&self, did: rustc_hir::def_id::DefId, hir_id: hir::HirId, j: &mut J) {
        j.put("def", J::s(dp(self.tcx, did)));
        let _ = hir_id;
        if let Some(imp) = self.tcx.impl_of_assoc(did) {
            let st = self.tcx.type_of(imp).instantiate_identity().skip_norm_wip();
            j.put("impl_self", J::s(ty_s(st)));
        }
    }

    fn for_loop(&self, e: &'tcx hir::Expr<'tcx>) -> Option<J> {
        // match IntoIterator::into_iter(head) { mut iter => loop { match next(&mut iter) { None => break, Some(pat) => body } } }
        if let hir::ExprKind::Match(scrut, arms, hir::MatchSource::ForLoopDesugar) = &e.kind {
            let head = match &scrut.kind {
                hir::ExprKind::Call(_, args) if args.len() == 1 => &args[0],
                _ => return None,
            };
            let arm = arms.get(0)?;
            if let hir::ExprKind::Loop(blk, _, _, _) = &arm.body.kind {
                let first = blk.stmts.get(0).and_then(|s| match &s.kind {
                    hir::StmtKind::Expr(x) | hir::StmtKind::Semi(x) => Some(*x),
                    _ => None,
                }).or(blk.expr)?;
                if let hir::ExprKind::Match(_, inner_arms, hir::MatchSource::ForLoopDesugar) = &first.kind {
                    for a in inner_arms.iter() {
                        let item_pat: Option<&'tcx hir::Pat<'tcx>> = match &a.pat.kind {
                            hir::PatKind::TupleStruct(_, pats, _) if pats.len() == 1 => Some(&pats[0]),
                            hir::PatKind::Struct(_, fields, _) if fields.len() == 1 => Some(fields[0].pat),
                            _ => None,
                        };
                        if let Some(ip) = item_pat {
                            return Some(
                                J::obj()
                                    .set("k", J::s("For"))
                                    .set("pat", self.pat(ip))
                                    .set("iter", self.expr(head))
                                    .set("body", self.expr(a.body)),
                            );
                        }
                    }
                }
            }
        }
        None
    }

    pub fn expr(&self, e: &'tcx hir::Expr<'tcx>) -> J {
        // Collapse the format-macro family into a Macro node with its user-written arguments.
        if e.span.from_expansion() {
            let (mac, cs) = outer_macro(e.span);
            if FMT_FAMILY.contains(&mac.as_str()) {
                let mut col = ArgCollector { cx: self, callsite: cs, out: Vec::new() };
                intravisit::walk_expr(&mut col, e);
                let mut j = J::obj().set("k", J::s("Macro")).set("name", J::s(mac)).set("args", J::Arr(col.out));
                if let Some(t) = self.tr.expr_ty_opt(e) {
                    j.put("ty", J::s(ty_s(t)));
                }
                j.put("sp", span_j(self.tcx, e.span));
                return j;
            }
        }
        use hir::ExprKind::*;
        let mut j = match &e.kind {
            Lit(l) => self.lit(l, false),
            Path(q) => {
                let r = self.tr.qpath_res(q, e.hir_id);
                J::obj().set("k", J::s("Path")).set("res", self.res(r))
            }
            Call(f, args) => {
                let mut j = J::obj().set("k", J::s("Call")).set("f", self.expr(f));
                if let Path(q) = &f.kind {
                    if let Res::Def(DefKind::Fn | DefKind::AssocFn, did) = self.tr.qpath_res(q, f.hir_id) {
                        self.callee_res(did, f.hir_id, &mut j);
                    }
                }
                j.put("args", J::Arr(args.iter().map(|a| self.expr(a)).collect()));
                j
            }
            MethodCall(seg, recv, args, _) => {
                let mut j = J::obj().set("k", J::s("MethodCall")).set("name", J::s(seg.ident.name.to_string()));
                if let Some(did) = self.tr.type_dependent_def_id(e.hir_id) {
                    self.callee_res(did, e.hir_id, &mut j);
                }
                j.put("recv", self.expr(recv));
                j.put("recv_ty", J::s(ty_s(self.tr.expr_ty_adjusted(recv))));
                j.put("args", J::Arr(args.iter().map(|a| self.expr(a)).collect()));
                j
            }
            Tup(es) => J::obj().set("k", J::s("Tup")).set("es", J::Arr(es.iter().map(|a| self.expr(a)).collect())),
            Array(es) => J::obj().set("k", J::s("Array")).set("es", J::Arr(es.iter().map(|a| self.expr(a)).collect())),
            Binary(op, a, b) => J::obj()
                .set("k", J::s("Binary"))
                .set("op", J::s(format!("{:?}", op.node)))
                .set("l", self.expr(a))
                .set("r", self.expr(b)),
            Unary(op, a) => J::obj().set("k", J::s("Unary")).set("op", J::s(format!("{:?}", op))).set("e", self.expr(a)),
            Cast(a, _) => J::obj().set("k", J::s("Cast")).set("e", self.expr(a)),
            Type(a, _) => self.expr(a),
            DropTemps(a) => self.expr(a),
            Use(a, _) => self.expr(a),
            Let(l) => J::obj().set("k", J::s("LetExpr")).set("pat", self.pat(l.pat)).set("init", self.expr(l.init)),
            If(c, t, el) => {
                let mut j = J::obj().set("k", J::s("If")).set("cond", self.expr(c)).set("then", self.expr(t));
                if let Some(x) = el {
                    j.put("else", self.expr(x));
                }
                j
            }
            Loop(b, _, src, _) => J::obj().set("k", J::s("Loop")).set("src", J::s(format!("{:?}", src))).set("body", self.block(b)),
            Match(scrut, arms, src) => {
                if let hir::MatchSource::TryDesugar(_) = src {
                    if let Call(_, args) = &scrut.kind {
                        if args.len() == 1 {
                            let mut j = J::obj().set("k", J::s("Try")).set("e", self.expr(&args[0]));
                            if let Some(t) = self.tr.expr_ty_opt(e) {
                                j.put("ty", J::s(ty_s(t)));
                            }
                            j.put("sp", span_j(self.tcx, e.span));
                            return j;
                        }
                    }
                }
                if let hir::MatchSource::ForLoopDesugar = src {
                    if let Some(mut j) = self.for_loop(e) {
                        j.put("sp", span_j(self.tcx, e.span));
                        return j;
                    }
                }
                let mut as_ = Vec::new();
                for a in arms.iter() {
                    let mut aj = J::obj().set("pat", self.pat(a.pat));
                    if let Some(g) = a.guard {
                        aj.put("guard", self.expr(g));
                    }
                    aj.put("body", self.expr(a.body));
                    aj.put("sp", span_j(self.tcx, a.span));
                    as_.push(aj);
                }
                J::obj()
                    .set("k", J::s("Match"))
                    .set("src", J::s(src.name()))
                    .set("scrut", self.expr(scrut))
                    .set("arms", J::Arr(as_))
            }
            Closure(c) => {
                let body = self.tcx.hir_body(c.body);
                J::obj()
                    .set("k", J::s("Closure"))
                    .set("def", J::s(dp(self.tcx, c.def_id.to_def_id())))
                    .set("params", J::Arr(body.params.iter().map(|p| self.pat(p.pat)).collect()))
                    .set("body", self.expr(body.value))
            }
            Block(b, _) => self.block(b),
            Assign(l, r, _) => J::obj().set("k", J::s("Assign")).set("l", self.expr(l)).set("r", self.expr(r)),
            AssignOp(op, l, r) => J::obj()
                .set("k", J::s("AssignOp"))
                .set("op", J::s(format!("{:?}", op.node)))
                .set("l", self.expr(l))
                .set("r", self.expr(r)),
            Field(a, id) => J::obj().set("k", J::s("Field")).set("e", self.expr(a)).set("name", J::s(id.name.to_string())),
            Index(a, i, _) => J::obj().set("k", J::s("Index")).set("e", self.expr(a)).set("i", self.expr(i)),
            AddrOf(_, m, a) => J::obj()
                .set("k", J::s("AddrOf"))
                .set("mut", J::Bool(matches!(m, hir::Mutability::Mut)))
                .set("e", self.expr(a)),
            Break(_, v) => {
                let mut j = J::obj().set("k", J::s("Break"));
                if let Some(v) = v {
                    j.put("e", self.expr(v));
                }
                j
            }
            Continue(_) => J::obj().set("k", J::s("Continue")),
            Ret(v) => {
                let mut j = J::obj().set("k", J::s("Ret"));
                if let Some(v) = v {
                    j.put("e", self.expr(v));
                }
                j
            }
            Struct(q, fields, tail) => {
                let r = self.tr.qpath_res(q, e.hir_id);
                let fs: Vec<J> = fields
                    .iter()
                    .map(|f| J::obj().set("name", J::s(f.ident.name.to_string())).set("e", self.expr(f.expr)))
                    .collect();
                let mut j = J::obj().set("k", J::s("Struct")).set("res", self.res(r)).set("fields", J::Arr(fs));
                if let hir::StructTailExpr::Base(b) = tail {
                    j.put("base", self.expr(b));
                }
                j
            }
            Repeat(a, _) => J::obj().set("k", J::s("Repeat")).set("e", self.expr(a)),
            ConstBlock(_) => J::obj().set("k", J::s("ConstBlock")),
            _ => J::obj().set("k", J::s("Other")),
        };
        if let Some(t) = self.tr.expr_ty_opt(e) {
            j.put("ty", J::s(ty_s(t)));
        }
        j.put("sp", span_j(self.tcx, e.span));
        j
    }
}

pub fn dump<'tcx>(tcx: TyCtxt<'tcx>) -> (J, J, J) {
    let mut fns = Vec::new();
    let mut statics = Vec::new();
    for ldid in tcx.hir_body_owners() {
        let did = ldid.to_def_id();
        let kind = tcx.def_kind(did);
        match kind {
            DefKind::Fn | DefKind::AssocFn | DefKind::Static { .. } | DefKind::Const { .. } | DefKind::AssocConst { .. } => {}
            _ => continue,
        }
        let body = tcx.hir_body_owned_by(ldid);
        let tr = tcx.typeck(ldid);
        let cx = Cx { tcx, tr, owner: ldid };
        let mut f = J::obj();
        f.put("kind", J::s(format!("{:?}", kind).split(|c| c == ' ' || c == '{').next().unwrap_or("").to_string()));
        f.put("sp", span_j(tcx, tcx.def_span(did)));
        f.put("params", J::Arr(body.params.iter().map(|p| cx.pat(p.pat)).collect()));
        f.put("body", cx.expr(body.value));
        if matches!(kind, DefKind::Fn | DefKind::AssocFn) {
            let sig = tcx.fn_sig(did).instantiate_identity().skip_norm_wip().skip_binder();
            f.put("inputs", J::Arr(sig.inputs().iter().map(|t| J::s(ty_s(*t))).collect()));
            f.put("output", J::s(ty_s(sig.output())));
            f.put("vis", J::s(if tcx.visibility(did).is_public() { "pub" } else { "restricted" }));
            f.put("inline", J::s(format!("{:?}", tcx.codegen_fn_attrs(did).inline)));
            fns.push((dp(tcx, did), f));
        } else {
            f.put("ty", J::s(ty_s(tcx.type_of(did).instantiate_identity().skip_norm_wip())));
            if let DefKind::Static { mutability, .. } = kind {
                f.put("mut", J::Bool(mutability.is_mut()));
            }
            statics.push((dp(tcx, did), f));
        }
    }
    // type definitions
    let mut types = Vec::new();
    for id in tcx.hir_free_items() {
        let did = id.owner_id.to_def_id();
        let kind = tcx.def_kind(did);
        if !matches!(kind, DefKind::Struct | DefKind::Enum) {
            continue;
        }
        let adt = tcx.adt_def(did);
        let mut vs = Vec::new();
        for v in adt.variants().iter() {
            let fields: Vec<J> = v
                .fields
                .iter()
                .map(|f| {
                    J::obj()
                        .set("name", J::s(f.name.to_string()))
                        .set("ty", J::s(ty_s(tcx.type_of(f.did).instantiate_identity().skip_norm_wip())))
                        .set("pub", J::Bool(f.vis.is_public()))
                })
                .collect();
            vs.push(J::obj().set("name", J::s(v.name.to_string())).set("fields", J::Arr(fields)));
        }
        types.push((
            dp(tcx, did),
            J::obj().set("kind", J::s(format!("{:?}", kind))).set("variants", J::Arr(vs)).set("sp", span_j(tcx, tcx.def_span(did))),
        ));
    }
    let _ = ty::List::<()>::empty;
    (J::Obj(fns), J::Obj(types), J::Obj(statics))
}
