// blots-facts: a rustc_private driver that dumps resolved-program facts (MIR, HIR,
// format-string templates, const tables, type definitions) of every workspace crate as JSON.
// It knows nothing about properties; all rules live in /verif/rules (Python).
#![feature(rustc_private)]
#![allow(clippy::all)]

extern crate rustc_abi;
extern crate rustc_ast;
extern crate rustc_driver;
extern crate rustc_hir;
extern crate rustc_interface;
extern crate rustc_middle;
extern crate rustc_session;
extern crate rustc_span;

mod astfmt;
mod hirdump;
mod json;
mod mirdump;

use json::J;
use rustc_driver::{Callbacks, Compilation};
use rustc_interface::interface::Compiler;
use rustc_middle::ty::TyCtxt;

pub struct Cb {
    fmt: Option<J>,
}

impl Callbacks for Cb {
    fn after_expansion<'tcx>(&mut self, _c: &Compiler, tcx: TyCtxt<'tcx>) -> Compilation {
        if std::env::var("BLOTS_FACTS_DIR").is_ok() {
            let _g1 = rustc_middle::ty::print::NoTrimmedGuard::new();
            self.fmt = Some(astfmt::dump(tcx));
        }
        Compilation::Continue
    }

    fn after_analysis<'tcx>(&mut self, _c: &Compiler, tcx: TyCtxt<'tcx>) -> Compilation {
        let dir = match std::env::var("BLOTS_FACTS_DIR") {
            Ok(d) => d,
            Err(_) => return Compilation::Continue,
        };
        let _g1 = rustc_middle::ty::print::NoTrimmedGuard::new();
        let _g2 = rustc_middle::ty::print::CrateNamePrefixGuard::new();
        let _g3 = rustc_middle::ty::print::NoVisibleGuard::new();
        let krate = tcx.crate_name(rustc_hir::def_id::LOCAL_CRATE).to_string();
        let mut root = J::obj();
        root.put("crate", J::s(krate.clone()));
        root.put("mir", mirdump::dump(tcx));
        let (hir, types, statics) = hirdump::dump(tcx);
        root.put("hir", hir);
        root.put("types", types);
        root.put("statics", statics);
        root.put("fmt", self.fmt.take().unwrap_or(J::Arr(vec![])));
        let mut out = String::new();
        root.write(&mut out);
        let kinds: Vec<String> =
            tcx.crate_types().iter().map(|c| format!("{:?}", c).to_lowercase()).collect();
        let path = format!("{}/{}-{}.json", dir, krate, kinds.join("_"));
        let tmp = format!("{}.tmp{}", path, std::process::id());
        std::fs::write(&tmp, out).expect("write facts");
        std::fs::rename(&tmp, &path).expect("rename facts");
        Compilation::Continue
    }
}

fn main() {
    let mut args: Vec<String> = std::env::args().collect();
    // Invoked as RUSTC_WORKSPACE_WRAPPER: argv[1] is the real rustc path.
    if args.len() > 1 && (args[1].ends_with("rustc") || args[1].contains("/rustc")) {
        args.remove(1);
    }
    let mut cb = Cb { fmt: None };
    rustc_driver::run_compiler(&args, &mut cb);
}
