#!/bin/sh
set -e
cd /verif
