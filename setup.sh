#!/bin/sh
# Builds the engines offline from files on disk. Idempotent.
set -e
cd /verif
export CARGO_NET_OFFLINE=true
(cd engine/blots-facts && cargo +nightly build --release --offline)
(cd engine/grammar-facts && cargo build --release --offline)
# warm the fact cache for the current tree (dependencies are type-checked once into .cache/target-dev)
python3 -c "
import sys; sys.path.insert(0, '/verif')
from lib import facts
print(facts.get_facts(need=('dev',)))
"
