#!/bin/sh
# usage: tools/selfcheck.sh [tier]  -- every check on /repo must exit 0 and print no VIOLATION / UNDECIDED / CHECKER-ERROR line
bad=0
for id in C01 C02 C03 C04 C05 C06 C07 C09 C10 C11 C12 C13 C14 C15 C16 C17 C18 C19; do
  out=$(cd /verif && ./check.py $id --tier "${1:-quick}" 2>&1); rc=$?
  if [ $rc -ne 0 ] || echo "$out" | grep -q "^VIOLATION\|^UNDECIDED\|CHECKER-ERROR"; then bad=1; echo "== $id rc=$rc"; echo "$out" | grep "^VIOLATION\|^UNDECIDED\|CHECKER-ERROR\|rule=" | head -5; fi
  echo "$out" | tail -1
done
[ $bad -eq 0 ] && echo "SELFCHECK OK"
exit $bad
