#!/bin/sh
# usage: tools/benign_batch.sh <dir-with-k/patch.diff> <log>   -- runs benign_run.sh on every patch of the directory, serialised by a lock
exec 9>${WTB:-/tmp/wt-benign}.lock
flock 9
for d in $(ls -d "$1"/*/ | sort -V); do
  [ -f "$d/patch.diff" ] || continue
  echo "### $d"; /verif/tools/benign_run.sh "$d/patch.diff"
done > "$2" 2>&1
