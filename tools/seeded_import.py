#!/usr/bin/env python3
"""Copies confirmed seeded changes from /tmp/seeded-out/<ID>/<k>/ into /verif/seeded/<ID>-<k>/ (patch.diff rebased on
/repo HEAD at confirmation time, demo.sh, meta.md, meta.json)."""
import json, os, shutil, subprocess, sys, re
SRC = sys.argv[1] if len(sys.argv) > 1 else "/tmp/seeded-out"
OFFSET = int(sys.argv[2]) if len(sys.argv) > 2 else 0
ROUND = sys.argv[3] if len(sys.argv) > 3 else "1"
DST = "/verif/seeded"
head = subprocess.run(["git", "-C", "/repo", "rev-parse", "--short", "HEAD"], capture_output=True, text=True).stdout.strip()
n = 0
for pid in sorted(os.listdir(SRC)):
    d = os.path.join(SRC, pid)
    if not (os.path.isdir(d) and re.match(r"^C\d\d$", pid)):
        continue
    for k in sorted(os.listdir(d)):
        s = os.path.join(d, k)
        c = os.path.join(s, "confirm.txt")
        if not os.path.exists(c):
            continue
        conf = dict(l.strip().split("=", 1) for l in " ".join(open(c).read().split()).split(" ") if "=" in l)
        ok = conf.get("applies") == "yes" and conf.get("tests_rc") == "0" and conf.get("fail_lines") == "0" and conf.get("demo_patched_rc") not in (None, "0") and conf.get("demo_clean_rc") == "0"
        if not ok:
            print("NOT CONFIRMED", s, conf)
            continue
        if not k.isdigit():
            continue
        out = os.path.join(DST, "%s-%d" % (pid, int(k) + OFFSET))
        os.makedirs(out, exist_ok=True)
        shutil.copy(os.path.join(s, "patch.rebased.diff") if os.path.exists(os.path.join(s, "patch.rebased.diff")) else os.path.join(s, "patch.diff"), os.path.join(out, "patch.diff"))
        shutil.copy(os.path.join(s, "demo.sh"), os.path.join(out, "demo.sh"))
        if os.path.exists(os.path.join(s, "meta.md")):
            shutil.copy(os.path.join(s, "meta.md"), os.path.join(out, "meta.md"))
        md = open(os.path.join(s, "meta.md")).read() if os.path.exists(os.path.join(s, "meta.md")) else ""
        meta_p = os.path.join(out, "meta.json")
        meta = json.load(open(meta_p)) if os.path.exists(meta_p) else {}
        meta.update({
            "property": pid,
            "origin": "written by a fresh sub-agent given only the property text and a scratch worktree (round %s)" % ROUND,
            "needs_to_manifest": (re.search(r"(?is)(needs?|circumstances|manifest)[^\n]*\n(.{0,600})", md) or [None, None, md[:400]])[2].strip()[:600],
            "confirmed_by": "tools/confirm_seeded.sh in a scratch worktree of /repo: patch applies; `cargo test --workspace --offline </dev/null` rc=%s with 0 failure lines; demo.sh rc=%s with the patch, rc=%s without" % (conf["tests_rc"], conf["demo_patched_rc"], conf["demo_clean_rc"]),
            "confirmed_at_repo_head": meta.get("confirmed_at_repo_head", head),
        })
        json.dump(meta, open(meta_p, "w"), indent=1)
        n += 1
print("imported", n)
