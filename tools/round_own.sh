#!/bin/sh
# usage: tools/round_own.sh <outdir> <ID>...   -- run each property's own quick check on its seeded patches in <outdir>/<ID>/<k>/patch.diff
O="$1"; shift
for id in "$@"; do for k in 1 2 3 4 5; do
  P="$O/$id/$k/patch.diff"; [ -f "$P" ] || continue
  out=$(/verif/tools/try_patch.sh "$P" "$id" 2>&1)
  if echo "$out" | grep -q "^VIOLATION"; then echo "$id/$k DETECTED $(echo "$out" | grep -o 'rule=[A-Za-z0-9.]*' | sort -u | tr '\n' ' ')";
  elif echo "$out" | grep -q "CHECKER-ERROR\|DOES-NOT-APPLY"; then echo "$id/$k ERROR $(echo "$out" | grep -E 'CHECKER-ERROR|DOES-NOT' | head -2)";
  else echo "$id/$k MISSED"; fi
done; done
