#!/bin/sh
# usage: tools/confirm_seeded.sh <seed-dir> ...   (each has patch.diff, demo.sh)
# Confirms in a scratch worktree of /repo HEAD: patch applies, test suite passes with it, demo fails with it, demo passes without it.
W=${W:-/tmp/wt-confirm}
[ -d "$W" ] || git -C /repo worktree add -q "$W" HEAD
git -C "$W" checkout -q --detach "$(git -C /repo rev-parse HEAD)"
for D in "$@"; do
  git -C "$W" reset -q --hard HEAD ; git -C "$W" clean -fdq -e target
  R="$D/confirm.txt"; : > "$R"
  if git -C "$W" apply --3way "$D/patch.diff" >/dev/null 2>&1 || git -C "$W" apply "$D/patch.diff" >/dev/null 2>&1; then echo "applies=yes" >> "$R"; else echo "applies=no" >> "$R"; echo "$D applies=no"; continue; fi
  git -C "$W" diff HEAD > "$D/patch.rebased.diff"
  (cd "$W" && timeout 1500 cargo test --workspace --offline </dev/null > "$D/test.log" 2>&1); trc=$?
  fails=$(grep -cE "^test .* FAILED|panicked at|^error(\[|:)" "$D/test.log")
  echo "tests_rc=$trc fail_lines=$fails" >> "$R"
  (timeout 900 sh "$D/demo.sh" "$W" </dev/null > "$D/demo.patched.log" 2>&1); drc=$?
  echo "demo_patched_rc=$drc" >> "$R"
  git -C "$W" reset -q --hard HEAD ; git -C "$W" clean -fdq -e target
  (timeout 900 sh "$D/demo.sh" "$W" </dev/null > "$D/demo.clean.log" 2>&1); crc=$?
  echo "demo_clean_rc=$crc" >> "$R"
  echo "$D applies=yes tests_rc=$trc fail_lines=$fails demo_patched_rc=$drc demo_clean_rc=$crc"
done
git -C "$W" reset -q --hard HEAD
