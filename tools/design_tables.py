#!/usr/bin/env python3
"""Generates the 'rules as built' and 'seeded changes' tables for DESIGN.md from evidence/, known_findings.json and seeded/MATRIX.json."""
import json, os, re, sys
V = "/verif"
out = []
kf = json.load(open(os.path.join(V, "known_findings.json")))
out.append("### B.1 Rules as built (from the evidence of the last quick/thorough runs)\n")
out.append("| property | rule | decides | instances | hold | known findings | undecided |")
out.append("|---|---|---|---|---|---|---|")
for f in sorted(os.listdir(os.path.join(V, "evidence"))):
    e = json.load(open(os.path.join(V, "evidence", f)))
    pid = e["property_id"]
    for r, v in e["coverage"]["rules"].items():
        nk = sum(1 for x in kf["findings"] if x["property"] == pid and x["rule"] == r)
        out.append("| %s | %s | %s | %d | %d | %d | %d |" % (pid, r, v["doc"].replace("|", "/")[:260], v["instances"], v["hold"], nk, v["undecided"]))
out.append("")
mp = os.path.join(V, "seeded", "MATRIX.json")
if os.path.exists(mp):
    m = json.load(open(mp))
    out.append("### B.2 Seeded changes and which checks report them\n")
    out.append("| change | breaks | mechanism (from its meta.md) | own check | rules that fire (own check) | other checks that also fire |")
    out.append("|---|---|---|---|---|---|")
    for name in sorted(m):
        row = m[name]
        pid = name.split("-")[0]
        md = os.path.join(V, "seeded", name, "meta.md")
        mech = ""
        if os.path.exists(md):
            txt = open(md).read()
            lines = [l.strip("# ").strip() for l in txt.splitlines() if l.strip()]
            mech = (lines[0] if lines else "")[:140].replace("|", "/")
        if "error" in row:
            out.append("| %s | %s | %s | n/a | %s | |" % (name, pid, mech, row["error"][:60]))
            continue
        own = row["detected_by"].get(pid)
        others = sorted(k for k in row["detected_by"] if k != pid)
        out.append("| %s | %s | %s | %s | %s | %s |" % (name, pid, mech, "**detected**" if own else ("checker-error" if pid in row.get("checker_errors", []) else "missed"), ", ".join(own or []), ", ".join(others)))
    n = len(m)
    det = sum(1 for k, r in m.items() if "detected_by" in r and k.split("-")[0] in r["detected_by"])
    anyd = sum(1 for k, r in m.items() if r.get("detected_by"))
    out.append("\n%d seeded changes; %d reported by the check of the property they were written against; %d reported by at least one check.\n" % (n, det, anyd))
txt = "\n".join(out)
if "--write" in sys.argv:
    p = os.path.join(V, "DESIGN.md")
    s = open(p).read()
    a = s.index("<!-- BEGIN GENERATED TABLES -->") + len("<!-- BEGIN GENERATED TABLES -->")
    b = s.index("<!-- END GENERATED TABLES -->")
    open(p, "w").write(s[:a] + "\n\n" + txt + "\n\n" + s[b:])
else:
    print(txt)
