#!/usr/bin/env python3
"""Runs every registered check against every seeded change (applied to a scratch worktree of /repo HEAD) and writes
/verif/seeded/MATRIX.json: which checks report a VIOLATION for which change. Usage: seeded_matrix.py [ID-k ...] [--own-only]"""
import json, os, re, subprocess, sys, time
V = "/verif"
W = "/tmp/wt-matrix"
sys.path.insert(0, V)
args = [a for a in sys.argv[1:] if not a.startswith("--")]
own_only = "--own-only" in sys.argv
exec(open(os.path.join(V, "manifest_table.py")).read())
checks = sorted(CLAIMS)
if not os.path.isdir(W):
    subprocess.run(["git", "-C", "/repo", "worktree", "add", "-q", W, "HEAD"], check=True)
head = subprocess.run(["git", "-C", "/repo", "rev-parse", "HEAD"], capture_output=True, text=True).stdout.strip()
subprocess.run(["git", "-C", W, "checkout", "-q", "--detach", head])
mp = os.path.join(V, "seeded", "MATRIX.json")
matrix = json.load(open(mp)) if os.path.exists(mp) else {}
names = args or sorted(d for d in os.listdir(os.path.join(V, "seeded")) if re.match(r"^C\d\d-\d+$", d))
for name in names:
    d = os.path.join(V, "seeded", name)
    subprocess.run(["git", "-C", W, "reset", "-q", "--hard", "HEAD"])
    subprocess.run(["git", "-C", W, "clean", "-fdq", "-e", "target"])
    r = subprocess.run(["git", "-C", W, "apply", "--3way", os.path.join(d, "patch.diff")], capture_output=True, text=True)
    if r.returncode != 0:
        r = subprocess.run(["git", "-C", W, "apply", os.path.join(d, "patch.diff")], capture_output=True, text=True)
    if r.returncode != 0:
        matrix[name] = {"error": "patch does not apply to HEAD %s: %s" % (head[:7], r.stderr[:200])}
        continue
    own = name.split("-")[0]
    row = {"head": head[:7], "detected_by": {}, "checker_errors": [], "silent": []}
    for c in ([own] if own_only else checks):
        out = subprocess.run([os.path.join(V, "tools/run_on.sh"), W, c], capture_output=True, text=True).stdout
        rules = sorted(set(re.findall(r"rule=(\S+) key=", out)))
        if "CHECKER-ERROR" in out:
            row["checker_errors"].append(c)
        elif rules:
            row["detected_by"][c] = rules
        else:
            row["silent"].append(c)
    matrix[name] = row
    json.dump(matrix, open(mp, "w"), indent=1, sort_keys=True)
    print(name, "own:", "DETECTED" if own in row["detected_by"] else "missed", "| by:", sorted(row["detected_by"]), "| errors:", row["checker_errors"], flush=True)
subprocess.run(["git", "-C", W, "reset", "-q", "--hard", "HEAD"])
