#!/bin/sh
# usage: tools/try_patch.sh <patch.diff> <ID> [<ID>...]  -- apply a seeded change to a scratch worktree of /repo HEAD and run checks on it
P="$1"; shift
W=${WT:-/tmp/wt-verify}
if [ ! -d "$W" ]; then git -C /repo worktree add -q "$W" HEAD || exit 3; fi
git -C "$W" checkout -q --detach "$(git -C /repo rev-parse HEAD)" 2>/dev/null
git -C "$W" reset -q --hard HEAD && git -C "$W" clean -fdq -e target
if ! git -C "$W" apply --3way "$P" 2>/tmp/try_patch.err && ! git -C "$W" apply "$P" 2>>/tmp/try_patch.err; then echo "PATCH-DOES-NOT-APPLY $P"; cat /tmp/try_patch.err | head -5; exit 4; fi
rc=0
for id in "$@"; do
  /verif/tools/run_on.sh "$W" "$id" | grep -E "^VIOLATION|rule=|^C[0-9]+:|CHECKER-ERROR|KNOWN" | cut -c1-260
done
git -C "$W" checkout -q -- . ; git -C "$W" reset -q --hard HEAD
