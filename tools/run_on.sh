#!/bin/sh
# usage: tools/run_on.sh <checkout-dir> <ID> [tier]   -- run a check against another checkout; evidence/reports go to a scratch dir
D=$(mktemp -d /tmp/verif-out.XXXXXX)
BLOTS_REPO="$1" VERIF_OUT="$D" /verif/check.py "$2" --tier "${3:-quick}"
rc=$?
rm -rf "$D"
exit $rc
