#!/bin/sh
# usage: tools/benign_run.sh <patch.diff|-> [IDs...]  -- apply a behaviour-preserving change to a scratch worktree and require every check to stay silent
# ("-" = the worktree /tmp/wt-benign was already edited by hand). Prints VIOLATION / CHECKER-ERROR lines only; exit 0 when silent.
P="$1"; shift
W=${WTB:-/tmp/wt-benign}
if [ ! -d "$W" ]; then git -C /repo worktree add -q --detach "$W" HEAD || exit 3; fi
if [ "$P" != "-" ]; then
  git -C "$W" checkout -q --detach "$(git -C /repo rev-parse HEAD)" 2>/dev/null
  git -C "$W" reset -q --hard HEAD && git -C "$W" clean -fdq -e target
  if ! git -C "$W" apply "$P" 2>/tmp/benign.err && ! git -C "$W" apply --3way "$P" 2>>/tmp/benign.err; then echo "PATCH-DOES-NOT-APPLY $P"; head -5 /tmp/benign.err; exit 4; fi
fi
IDS="$*"; [ -z "$IDS" ] && IDS="C01 C02 C03 C04 C05 C06 C07 C09 C10 C11 C12 C13 C14 C15 C16 C17 C18 C19"
bad=0
for id in $IDS; do
  out=$(/verif/tools/run_on.sh "$W" "$id" 2>&1); rc=$?
  if [ $rc -ne 0 ]; then bad=1; echo "== $id rc=$rc"; echo "$out" | grep -E "^VIOLATION|CHECKER-ERROR|rule=|error" | cut -c1-400 | head -12; fi
done
[ $bad -eq 0 ] && echo "SILENT: $P"
exit $bad
