"""Extraction of the per-operator element operation from the three hand-written copies in
`evaluate_binary_op_ast` (list-list arm, list-scalar arm in both orientations, scalar arm) as normalised signatures."""
from lib import hir as H
from lib import sig as S
from lib.facts import CheckerError

FN = "blots_core::expressions::evaluate_binary_op_ast"
L, R = ("role", "L"), ("role", "R")


class Copies:
    def __init__(self, core):
        self.core = core
        self.f = core.hir_fn(FN)
        body = self.f["body"]
        if H.kind(body) != "Block":
            raise CheckerError("evaluate_binary_op_ast body is not a block")
        self.params = [H.pat_binds(p)[0] if H.pat_binds(p) else None for p in self.f["params"]]
        # operand locals: results of the two evaluate_ast calls, in order, by provenance
        self.operands = []
        for s in body["stmts"]:
            if s["k"] == "Let" and H.kind(s["pat"]) == "Bind" and s.get("init") is not None:
                i = H.strip(s["init"])
                if H.kind(i) == "Try":
                    i = H.strip(i["e"])
                if H.kind(i) == "Call" and (i.get("def") or "").endswith("expressions::evaluate_ast"):
                    self.operands.append((s["pat"]["name"], H.path_local(i["args"][0])))
        if len(self.operands) != 2 or [o[1] for o in self.operands] != self.params[1:3]:
            raise CheckerError("could not identify the two operand evaluations (left, right) in evaluate_binary_op_ast: %s" % self.operands)
        self.lhs, self.rhs = self.operands[0][0], self.operands[1][0]
        self.opname = self.params[0]
        # the dot pre-match (a statement) and the main match on (lhs, rhs) (the tail)
        self.dot_match = None
        for s in body["stmts"]:
            if s["k"] in ("Expr", "Semi"):
                e = H.strip(s["e"])
                if H.kind(e) == "Match" and H.path_local(e["scrut"]) == self.opname:
                    self.dot_match = e
        tail = H.final_expr(body)
        if H.kind(tail) != "Match" or H.kind(H.strip(tail["scrut"])) != "Tup":
            raise CheckerError("evaluate_binary_op_ast does not end in a match on (lhs, rhs)")
        self.main = tail
        self.variants = [v["name"] for v in core.types["blots_core::ast::BinaryOp"]["variants"]]
        self._classify_arms()

    def _classify_arms(self):
        self.arm_ll = self.arm_ls = self.arm_ss = None
        self.guard_arms = []
        for a in self.main["arms"]:
            p = a["pat"]
            if a.get("guard") is not None:
                self.guard_arms.append(a)
                continue
            alts = p["pats"] if H.kind(p) == "Or" else [p]
            shapes = []
            for alt in alts:
                if H.kind(alt) != "Tuple" or len(alt["pats"]) != 2:
                    shapes.append("?")
                    continue
                sh = tuple("list" if any(H.last(v) == "List" for v in H.pat_variants(x)) else "any" for x in alt["pats"])
                shapes.append(sh)
            if shapes == [("list", "list")]:
                self.arm_ll = a
            elif sorted(shapes) == [("any", "list"), ("list", "any")]:
                self.arm_ls = a
            elif shapes == [("any", "any")]:
                self.arm_ss = a
        if not (self.arm_ll and self.arm_ls and self.arm_ss):
            raise CheckerError("could not identify the list-list / list-scalar / scalar arms of the (lhs, rhs) match")

    # ---- helpers
    def op_arm(self, match, op):
        for a in match["arms"]:
            vs = [H.last(v) for v in H.pat_variants(a["pat"])]
            if op in vs:
                return a
        for a in match["arms"]:
            if H.kind(a["pat"]) == "Wild":
                return a
        return None

    def inner_op_match(self, arm_body):
        """the `match op {..}` inside a copy's arm (its tail expression)"""
        t = H.final_expr(arm_body)
        if H.kind(t) == "Match" and H.path_local(t["scrut"]) == self.opname:
            return t
        for n in H.walk(arm_body):
            if H.kind(n) == "Match" and H.path_local(n["scrut"]) == self.opname and n.get("src") == "match":
                return n
        raise CheckerError("no `match op` inside an operand-shape arm")

    def base_env(self, copy, list_first=None, op=None):
        env = S.Env()
        if copy == "ss":
            b = H.pat_binds(self.arm_ss["pat"])
            env.roles[b[0]] = L
            env.roles[b[1]] = R
        elif copy == "ll":
            b = H.pat_binds(self.arm_ll["pat"])
            env.roles[b[0]] = ("listptr", "L")
            env.roles[b[1]] = ("listptr", "R")
            env.roles[self.lhs] = ("wholelist", "L")
            env.roles[self.rhs] = ("wholelist", "R")
        elif copy == "ls":
            alts = self.arm_ls["pat"]["pats"]
            # both alternatives bind the same two names; which is the list is by pattern shape
            names = {}
            for alt in alts:
                for x in alt["pats"]:
                    is_list = any(H.last(v) == "List" for v in H.pat_variants(x))
                    for bn in H.pat_binds(x):
                        names[bn] = "list" if is_list else "other"
            for bn, kind in names.items():
                if kind == "list":
                    env.roles[bn] = ("listptr", "E")
                else:
                    env.roles[bn] = ("role", "O")
            env.roles[self.lhs] = ("wholelist", "E") if list_first else ("role", "O")
            env.roles[self.rhs] = ("role", "O") if list_first else ("wholelist", "E")
        return env

    def prelude(self, arm, env):
        """process the let statements in front of the inner `match op`; returns the flag name for is_list_first, if any"""
        blk = H.strip(arm["body"])
        flag = None
        if H.kind(blk) == "Block":
            for s in blk["stmts"]:
                if s["k"] == "Let" and H.kind(s["pat"]) == "Bind" and s.get("init") is not None:
                    i = H.strip(s["init"])
                    # is_list_first = matches!(lhs, Value::List(_))
                    if H.kind(i) == "Match" and H.path_local(i["scrut"]) in (self.lhs, self.rhs) and s["pat"].get("ty") == "bool":
                        pats = [v for a in i["arms"] for v in H.pat_variants(a["pat"])]
                        if any(H.last(v) == "List" for v in pats):
                            flag = (s["pat"]["name"], H.path_local(i["scrut"]))
                            continue
                    env.inline[s["pat"]["name"]] = (s["init"], env.child())
        return flag


def leaves(node, env, out, op=None, opname=None):
    """collect the values a copy produces: arguments of `<list>.push(..)`, returned Ok values, and the tail value"""
    k = H.kind(node)
    if node is None or not isinstance(node, dict):
        return
    if k == "Block":
        e2 = env.child()
        for s in node["stmts"]:
            if s["k"] == "Let":
                if H.kind(s["pat"]) == "Bind" and s.get("init") is not None:
                    # statements inside the initializer may push / return as well
                    leaves_in_expr(s["init"], e2, out, op, opname)
                    if "Mut" in (s["pat"].get("mode") or "") and s["pat"]["name"] in S.reassigned_in(node):
                        e2.roles.pop(s["pat"]["name"], None)
                        e2.inline.pop(s["pat"]["name"], None)
                        continue
                    ce = e2.child()
                    e2.roles.pop(s["pat"]["name"], None)
                    e2.inline[s["pat"]["name"]] = (s["init"], ce)
                elif H.kind(s["pat"]) == "Slice" and s.get("init") is not None:
                    S.bind_slice(s["pat"], s["init"], e2)
                elif H.kind(s["pat"]) == "Tuple" and s.get("init") is not None:
                    t = S.norm(s["init"], e2)
                    if t and t[0] == "tup" and len(t) - 1 == len(s["pat"]["pats"]):
                        for p, v in zip(s["pat"]["pats"], t[1:]):
                            if H.kind(p) == "Bind":
                                e2.roles[p["name"]] = v
                    else:
                        S.bind_tuple(s["pat"], s["init"], e2)
            elif s["k"] in ("Expr", "Semi"):
                leaves(H.strip(s["e"]) if H.kind(s["e"]) != "Block" else s["e"], e2, out, op, opname)
        if node.get("expr") is not None:
            leaves(node["expr"], e2, out, op, opname)
        return
    if k == "For":
        e2 = env.child()
        e2.frozen = set(e2.inline.keys())
        it = S.norm(node["iter"], env)
        pat = node["pat"]
        if it[0] == "zip" and H.kind(pat) == "Tuple":
            bs = [H.pat_binds(x)[0] for x in pat["pats"]]
            e2.roles[bs[0]] = ("elem", it[1])
            e2.roles[bs[1]] = ("elem", it[2])
        elif it[0] == "list":
            for bn in H.pat_binds(pat):
                e2.roles[bn] = ("elem", it[1])
        else:
            for bn in H.pat_binds(pat):
                e2.roles[bn] = ("loopvar",)
        out.append(("loop-over", it))
        leaves(node["body"], e2, out, op, opname)
        return
    if k == "If":
        c = S.norm(node["cond"], env)
        if c == ("lit", "true"):
            leaves(node["then"], env, out, op, opname)
            return
        if c == ("lit", "false"):
            if node.get("else") is not None:
                leaves(node["else"], env, out, op, opname)
            return
        sub_t, sub_e = [], []
        leaves(node["then"], env, sub_t, op, opname)
        if node.get("else") is not None:
            leaves(node["else"], env, sub_e, op, opname)
        if len(sub_t) == 1 and len(sub_e) == 1 and sub_t[0][0] == "value" and sub_e[0][0] == "value":
            out.append(("value", ("if", c, sub_t[0][1], sub_e[0][1])))
            return
        for x in sub_t:
            out.append(("when", c, x))
        for x in sub_e:
            out.append(("unless", c, x))
        return
    if k == "Match" and opname is not None and H.path_local(node["scrut"]) == opname:
        # nested `match op` (e.g. the expected-ordering table): resolved by the caller through env; treat as value
        out.append(("value", S.norm(node, env)))
        return
    if k == "MethodCall" and node["name"] == "push":
        out.append(("push", S.norm(node["args"][0], env)))
        return
    if k == "Ret":
        v = S.norm(node["e"], env) if node.get("e") is not None else ("unit",)
        out.append(("return", v))
        return
    if k in ("Try",):
        leaves(node["e"], env, out, op, opname)
        return
    if k == "Call" and H.kind(H.strip(node["f"])) == "Path" and (H.strip(node["f"])["res"].get("def") or "").endswith("mem::drop"):
        return
    # a value in tail position
    out.append(("value", S.norm(node, env)))


def inline_helper(e, env):
    """(helper hir fn, env with the parameters bound to the normalised arguments) when e is a call of an inlinable helper"""
    e0 = H.strip(e)
    if H.kind(e0) == "Try":
        e0 = H.strip(e0["e"])
    if H.kind(e0) != "Call" or S.INLINE is None:
        return None
    hf = S.INLINE(e0.get("def") or "")
    if hf is None or len(hf.get("params", [])) != len(e0["args"]):
        return None
    e2 = S.Env()
    for p_, a_ in zip(hf["params"], e0["args"]):
        bn = H.pat_binds(p_)
        if len(bn) == 1:
            e2.roles[bn[0]] = S.norm(a_, env)
    return hf, e2


def leaves_in_expr(e, env, out, op, opname):
    """pushes / returns nested inside an initializer block (`let mapped_list = { ...; for .. { push } ; mapped_list }`)"""
    ih = inline_helper(e, env)
    if ih is not None:
        # the loop lives in an extracted helper: its pushes are this copy's element values
        sub = []
        leaves(ih[0]["body"], ih[1], sub, None, None)
        for x in sub:
            if x[0] in ("push", "loop-over") or (x[0] in ("when", "unless") and x[2][0] == "push"):
                out.append(x)
        return
    e = H.strip(e) if H.kind(e) != "Block" else e
    if H.kind(e) == "Block":
        sub = []
        leaves(e, env, sub, op, opname)
        for x in sub:
            if x[0] in ("push", "return", "loop-over", "when", "unless"):
                out.append(x)
    elif H.kind(e) in ("If", "Match"):
        for n in H.walk(e):
            if H.kind(n) == "Ret":
                out.append(("return", S.norm(n["e"], env) if n.get("e") is not None else ("unit",)))
    elif H.kind(e) == "Try":
        leaves_in_expr(e["e"], env, out, op, opname)
