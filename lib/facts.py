"""Build (or fetch from a content-addressed cache) the fact files for /repo's current working tree.

Engines:
  A  blots-facts   rustc_private driver under `cargo +nightly check` (MIR/HIR/fmt/types per crate)
  B  grammar-facts pest_meta AST of grammar.pest
  C  cargo metadata (resolved features, profiles)
  D  stack sizes + machine call graph of a release build (only when asked for; C18)
Nothing here executes blots code.
"""
import fcntl, hashlib, json, os, shutil, subprocess, sys, time, glob

VERIF = os.path.dirname(os.path.dirname(os.path.abspath(__file__)))
REPO = os.environ.get("BLOTS_REPO", "/repo")
CACHE = os.path.join(VERIF, ".cache")
DRIVER = os.path.join(VERIF, "engine/blots-facts/target/release/blots-facts")
GRAMMAR_BIN = os.path.join(VERIF, "engine/grammar-facts/target/release/grammar-facts")

SKIP_DIRS = {"target", ".git", "node_modules", "website", "dist", "pkg"}
EXTS = (".rs", ".pest", ".toml", ".lock")


class CheckerError(Exception):
    pass


def repo_files(repo=None):
    repo = repo or REPO
    out = []
    for root, dirs, files in os.walk(repo):
        dirs[:] = sorted(d for d in dirs if d not in SKIP_DIRS)
        for f in sorted(files):
            if f.endswith(EXTS):
                out.append(os.path.join(root, f))
    return out


def repo_hash(repo=None):
    repo = repo or REPO
    h = hashlib.sha256()
    for p in repo_files(repo):
        h.update(os.path.relpath(p, repo).encode())
        h.update(b"\0")
        with open(p, "rb") as f:
            h.update(hashlib.sha256(f.read()).digest())
    # the engines are part of the key: a rebuilt driver invalidates old facts
    for p in (DRIVER, GRAMMAR_BIN):
        if os.path.exists(p):
            st = os.stat(p)
            h.update(("%s:%d:%d" % (p, st.st_size, int(st.st_mtime))).encode())
    return h.hexdigest()[:24]


def sysroot():
    return subprocess.check_output(["rustc", "+nightly", "--print", "sysroot"], text=True).strip()


def _env(extra=None):
    env = dict(os.environ)
    env["CARGO_NET_OFFLINE"] = "true"
    env.pop("RUSTC_WRAPPER", None)
    if extra:
        env.update(extra)
    return env


def _run(cmd, cwd, env, log):
    with open(log, "a") as lf:
        lf.write("\n$ " + " ".join(cmd) + "\n")
        lf.flush()
        p = subprocess.run(cmd, cwd=cwd, env=env, stdout=lf, stderr=subprocess.STDOUT)
    return p.returncode


def build_driver_facts(repo, outdir, profile, log):
    """cargo +nightly check with the driver as RUSTC_WORKSPACE_WRAPPER; persistent target dir for
    dependencies, members' fingerprints deleted so that the wrapper is re-run on every build."""
    if not os.path.exists(DRIVER):
        raise CheckerError("driver not built: run ./setup.sh (%s missing)" % DRIVER)
    tdir = os.path.join(CACHE, "target-" + profile)
    os.makedirs(tdir, exist_ok=True)
    prof_dir = "release" if profile == "release" else "debug"
    for fp in glob.glob(os.path.join(tdir, prof_dir, ".fingerprint", "blots*")):
        shutil.rmtree(fp, ignore_errors=True)
    facts = os.path.join(outdir, "facts-" + profile)
    os.makedirs(facts, exist_ok=True)
    env = _env({
        "LD_LIBRARY_PATH": os.path.join(sysroot(), "lib"),
        "RUSTFLAGS": "-Zmir-opt-level=0 -Awarnings",
        "RUSTC_WORKSPACE_WRAPPER": DRIVER,
        "BLOTS_FACTS_DIR": facts,
        "CARGO_TARGET_DIR": tdir,
    })
    cmd = ["cargo", "+nightly", "check", "--offline", "--workspace"]
    if profile == "release":
        cmd.append("--release")
    rc = _run(cmd, repo, env, log)
    if rc != 0:
        raise CheckerError("cargo check with driver failed (rc=%d), see %s" % (rc, log))
    want = ["blots_core-rlib.json", "blots-executable.json", "blots_wasm-cdylib.json"]
    for w in want:
        if not os.path.exists(os.path.join(facts, w)):
            raise CheckerError("driver produced no %s (stale cargo cache?)" % w)
    return facts


def build_grammar_facts(repo, outdir, log):
    if not os.path.exists(GRAMMAR_BIN):
        raise CheckerError("grammar-facts not built: run ./setup.sh")
    g = os.path.join(repo, "blots-core/src/grammar.pest")
    if not os.path.exists(g):
        raise CheckerError("anchor missing: %s" % g)
    p = subprocess.run([GRAMMAR_BIN, g], capture_output=True, text=True)
    if p.returncode != 0:
        raise CheckerError("grammar-facts failed: " + p.stderr[:500])
    with open(os.path.join(outdir, "grammar.json"), "w") as f:
        f.write(p.stdout)


def build_metadata(repo, outdir, log):
    p = subprocess.run(["cargo", "+nightly", "metadata", "--offline", "--format-version", "1"],
                       cwd=repo, env=_env(), capture_output=True, text=True)
    if p.returncode != 0:
        raise CheckerError("cargo metadata failed: " + p.stderr[:500])
    with open(os.path.join(outdir, "metadata.json"), "w") as f:
        f.write(p.stdout)


class Lock:
    def __init__(self, path):
        self.path = path

    def __enter__(self):
        os.makedirs(os.path.dirname(self.path), exist_ok=True)
        self.f = open(self.path, "w")
        fcntl.flock(self.f, fcntl.LOCK_EX)
        return self

    def __exit__(self, *a):
        fcntl.flock(self.f, fcntl.LOCK_UN)
        self.f.close()


def get_facts(repo=None, need=("dev",), quiet=False):
    """Returns the directory holding facts for the current tree; builds what is missing.
    need: subset of {"dev", "release", "stack"}."""
    repo = repo or REPO
    os.makedirs(CACHE, exist_ok=True)
    with Lock(os.path.join(CACHE, "lock")):
        h = repo_hash(repo)
        d = os.path.join(CACHE, "facts", h)
        os.makedirs(d, exist_ok=True)
        log = os.path.join(d, "build.log")
        t0 = time.time()
        built = []
        if not os.path.exists(os.path.join(d, "base.ok")):
            build_grammar_facts(repo, d, log)
            build_metadata(repo, d, log)
            open(os.path.join(d, "base.ok"), "w").write("ok")
            built.append("grammar+metadata")
        for prof in ("dev", "release"):
            if prof in need and not os.path.exists(os.path.join(d, prof + ".ok")):
                build_driver_facts(repo, d, prof, log)
                open(os.path.join(d, prof + ".ok"), "w").write("ok")
                built.append("driver-" + prof)
        if "stack" in need and not os.path.exists(os.path.join(d, "stack.ok")):
            from lib import stack
            stack.build(repo, d, log)
            open(os.path.join(d, "stack.ok"), "w").write("ok")
            built.append("stack")
        if built and not quiet:
            print("[facts] built %s for tree %s in %.1fs" % (", ".join(built), h, time.time() - t0), file=sys.stderr)
        _gc(keep=d)
        return d


def _gc(keep, max_keep=6):
    base = os.path.join(CACHE, "facts")
    ds = [os.path.join(base, x) for x in os.listdir(base)]
    ds = [x for x in ds if os.path.isdir(x) and x != keep]
    ds.sort(key=lambda x: os.stat(x).st_mtime, reverse=True)
    for x in ds[max_keep:]:
        shutil.rmtree(x, ignore_errors=True)


_loaded = {}


def load(d, name):
    p = os.path.join(d, name)
    if p not in _loaded:
        if not os.path.exists(p):
            raise CheckerError("fact file missing: " + p)
        with open(p) as f:
            _loaded[p] = json.load(f)
    return _loaded[p]
