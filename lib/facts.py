"""Build (or fetch from a content-addressed cache) the fact files for /repo's current working tree.

Engines:
  A  blots-facts   rustc_private driver under `cargo +nightly check` (MIR/HIR/fmt/types per crate)
  B  grammar-facts pest_meta AST of grammar.pest
  C  cargo metadata (resolved features, profiles)
  D  stack sizes + machine call graph of a release build (only when asked for; C18)
Nothing here executes blots code.
"""
import fcntl, hashlib, json, os, shutil, subprocess, sys, time, glob

VERIF = os.path.dirname(os.path.dirname(os.path.abspath(__file__)))
REPO = os.environ.get("BLOTS_REPO", "/repo")
CACHE = os.path.join(VERIF, ".cache")
DRIVER = os.path.join(VERIF, "engine/blots-facts/target/release/blots-facts")
GRAMMAR_BIN = os.path.join(VERIF, "engine/grammar-facts/target/release/grammar-facts")

SKIP_DIRS = {"target", ".git", "node_modules", "website", "dist", "pkg"}
EXTS = (".rs", ".pest", ".toml", ".lock")


class CheckerError(Exception):
    pass


def repo_files(repo=None):
    repo = repo or REPO
    out = []
    for root, dirs, files in os.walk(repo):
        dirs[:] = sorted(d for d in dirs if d not in SKIP_DIRS)
        for f in sorted(files):
            if f.endswith(EXTS):
                out.append(os.path.join(root, f))
    return out


def repo_hash(repo=None):
    repo = repo or REPO
    h = hashlib.sha256()
    for p in repo_files(repo):
        h.update(os.path.relpath(p, repo).encode())
        h.update(b"\0")
        with open(p, "rb") as f:
            h.update(hashlib.sha256(f.read()).digest())
    # the engines are part of the key: a rebuilt driver invalidates old facts
    for p in (DRIVER, GRAMMAR_BIN):
        if os.path.exists(p):
            st = os.stat(p)
            h.update(("%s:%d:%d" % (p, st.st_size, int(st.st_mtime))).encode())
    return h.hexdigest()[:24]


def sysroot():
    return subprocess.check_output(["rustc", "+nightly", "--print", "sysroot"], text=True).strip()


def _env(extra=None):
    env = dict(os.environ)
    env["CARGO_NET_OFFLINE"] = "true"
    env.pop("RUSTC_WRAPPER", None)
    if extra:
        env.update(extra)
    return env


def _run(cmd, cwd, env, log):
    with open(log, "a") as lf:
        lf.write("\n$ " + " ".join(cmd) + "\n")
        lf.flush()
        p = subprocess.run(cmd, cwd=cwd, env=env, stdout=lf, stderr=subprocess.STDOUT)
    return p.returncode


def build_driver_facts(repo, outdir, profile, log):
    """cargo +nightly check with the driver as RUSTC_WORKSPACE_WRAPPER; persistent target dir for
    dependencies, members' fingerprints deleted so that the wrapper is re-run on every build."""
    if not os.path.exists(DRIVER):
        raise CheckerError("driver not built: run ./setup.sh (%s missing)" % DRIVER)
    tdir = os.path.join(CACHE, "target-" + profile)
    os.makedirs(tdir, exist_ok=True)
    prof_dir = "release" if profile == "release" else "debug"
    for fp in glob.glob(os.path.join(tdir, prof_dir, ".fingerprint", "blots*")):
        shutil.rmtree(fp, ignore_errors=True)
    facts = os.path.join(outdir, "facts-" + profile)
    os.makedirs(facts, exist_ok=True)
    env = _env({
        "LD_LIBRARY_PATH": os.path.join(sysroot(), "lib"),
        "RUSTFLAGS": "-Zmir-opt-level=0 -Awarnings",
        "RUSTC_WORKSPACE_WRAPPER": DRIVER,
        "BLOTS_FACTS_DIR": facts,
        "CARGO_TARGET_DIR": tdir,
    })
    cmd = ["cargo", "+nightly", "check", "--offline", "--workspace"]
    if profile == "release":
        cmd.append("--release")
    rc = _run(cmd, repo, env, log)
    if rc != 0:
        raise CheckerError("cargo check with driver failed (rc=%d), see %s" % (rc, log))
    want = ["blots_core-rlib.json", "blots-executable.json", "blots_wasm-cdylib.json"]
    for w in want:
        if not os.path.exists(os.path.join(facts, w)):
            raise CheckerError("driver produced no %s (stale cargo cache?)" % w)
    return facts


def build_grammar_facts(repo, outdir, log):
    if not os.path.exists(GRAMMAR_BIN):
        raise CheckerError("grammar-facts not built: run ./setup.sh")
    g = os.path.join(repo, "blots-core/src/grammar.pest")
    if not os.path.exists(g):
        raise CheckerError("anchor missing: %s" % g)
    p = subprocess.run([GRAMMAR_BIN, g], capture_output=True, text=True)
    if p.returncode != 0:
        raise CheckerError("grammar-facts failed: " + p.stderr[:500])
    with open(os.path.join(outdir, "grammar.json"), "w") as f:
        f.write(p.stdout)


def build_metadata(repo, outdir, log):
    p = subprocess.run(["cargo", "+nightly", "metadata", "--offline", "--format-version", "1"],
                       cwd=repo, env=_env(), capture_output=True, text=True)
    if p.returncode != 0:
        raise CheckerError("cargo metadata failed: " + p.stderr[:500])
    with open(os.path.join(outdir, "metadata.json"), "w") as f:
        f.write(p.stdout)


class Lock:
    def __init__(self, path):
        self.path = path

    def __enter__(self):
        os.makedirs(os.path.dirname(self.path), exist_ok=True)
        self.f = open(self.path, "w")
        fcntl.flock(self.f, fcntl.LOCK_EX)
        return self

    def __exit__(self, *a):
        fcntl.flock(self.f, fcntl.LOCK_UN)
        self.f.close()


def get_facts(repo=None, need=("dev",), quiet=False):
    """Returns the directory holding facts for the current tree; builds what is missing.
    need: subset of {"dev", "release", "stack"}."""
    repo = repo or REPO
    os.makedirs(CACHE, exist_ok=True)
    with Lock(os.path.join(CACHE, "lock")):
        h = repo_hash(repo)
        d = os.path.join(CACHE, "facts", h)
        os.makedirs(d, exist_ok=True)
        log = os.path.join(d, "build.log")
        t0 = time.time()
        built = []
        if not os.path.exists(os.path.join(d, "base.ok")):
            build_grammar_facts(repo, d, log)
            build_metadata(repo, d, log)
            open(os.path.join(d, "base.ok"), "w").write("ok")
            built.append("grammar+metadata")
        for prof in ("dev", "release"):
            if prof in need and not os.path.exists(os.path.join(d, prof + ".ok")):
                build_driver_facts(repo, d, prof, log)
                open(os.path.join(d, prof + ".ok"), "w").write("ok")
                built.append("driver-" + prof)
        if "stack" in need and not os.path.exists(os.path.join(d, "stack.ok")):
            from lib import stack
            stack.build(repo, d, log)
            open(os.path.join(d, "stack.ok"), "w").write("ok")
            built.append("stack")
        if built and not quiet:
            print("[facts] built %s for tree %s in %.1fs" % (", ".join(built), h, time.time() - t0), file=sys.stderr)
        try:
            os.utime(d)   # most recently used: the entry of the tree that is checked again and again is not the one to evict
        except OSError:
            pass
        _gc(keep=d)
        return d


def _gc(keep, max_keep=12):
    base = os.path.join(CACHE, "facts")
    ds = [os.path.join(base, x) for x in os.listdir(base)]
    ds = [x for x in ds if os.path.isdir(x) and x != keep]
    ds.sort(key=lambda x: os.stat(x).st_mtime, reverse=True)
    for x in ds[max_keep:]:
        shutil.rmtree(x, ignore_errors=True)


_loaded = {}


def load(d, name):
    p = os.path.join(d, name)
    if p not in _loaded:
        if not os.path.exists(p):
            raise CheckerError("fact file missing: " + p)
        with open(p) as f:
            _loaded[p] = json.load(f)
    return _loaded[p]


# ---------------------------------------------------------------- renamed private anchor functions
# The rules name a handful of PRIVATE functions. Renaming a private function is a behaviour-preserving edit, so when the
# canonical name is absent and exactly one function has the anchor's role (module + signature), every occurrence of its
# def path in the facts is rewritten to the canonical name before the rules run. Public API names are not aliased.
def _sig(f):
    return [t for t in f.get("inputs", [])], f.get("output") or ""


ANCHOR_ROLES = {
    "blots_core-rlib.json": [
        ("blots_core::expressions::evaluate_binary_op_ast", lambda n, f: n.startswith("blots_core::expressions::") and f.get("inputs") and f["inputs"][0] == "blots_core::ast::BinaryOp" and sum(1 for t in f["inputs"] if "ast::Spanned<blots_core::ast::Expr>" in t) == 2 and "values::Value" in f.get("output", "")),
        ("blots_core::expressions::collect_free_variables", lambda n, f: n.startswith("blots_core::expressions::") and len(f.get("inputs", [])) == 3 and "ast::Spanned<blots_core::ast::Expr>" in f["inputs"][0] and f["inputs"][1].startswith("&mut alloc::vec::Vec<alloc::string::String>") and "HashSet<alloc::string::String" in f["inputs"][2]),
        ("blots_core::expressions::check_ordering", lambda n, f: n.startswith("blots_core::expressions::") and f.get("inputs") and "Option<core::cmp::Ordering>" in f["inputs"][0] and f.get("output", "").startswith("core::result::Result<bool")),
        ("blots_core::expressions::pairs_to_expr_inner", lambda n, f: n.startswith("blots_core::expressions::") and len(f.get("inputs", [])) == 2 and "iterators::pairs::Pairs<" in f["inputs"][0] and f["inputs"][1] == "bool" and "ast::Spanned<blots_core::ast::Expr>" in f.get("output", "")),
        ("blots_core::expressions::parse_record_entry", lambda n, f: n.startswith("blots_core::expressions::") and "ast::RecordEntry" in f.get("output", "") and f.get("inputs") and "iterators::pair::Pair<" in f["inputs"][0]),
        ("blots_core::expressions::flatten_spread_value", lambda n, f: n.startswith("blots_core::expressions::") and f.get("inputs") and "heap::IterablePointer" in f["inputs"][0] and "Vec<blots_core::values::Value>" in f.get("output", "")),
        ("blots_core::expressions::evaluate_do_block_expr", lambda n, f: n.startswith("blots_core::expressions::") and n != "blots_core::expressions::evaluate_ast" and f.get("vis") != "pub" and
            [t.split("<")[0] for t in f.get("inputs", [])] == ["&blots_core::ast::Spanned", "alloc::rc::Rc", "alloc::rc::Rc", "usize", "alloc::rc::Rc"] and "values::Value" in f.get("output", "")),
        ("blots_core::ast_to_source::serializable_value_to_source", lambda n, f: n.startswith("blots_core::ast_to_source::") and f.get("inputs") == ["&blots_core::values::SerializableValue"] and f.get("output") == "alloc::string::String"),
    ],
    "blots-executable.json": [
        ("blots::evaluate_source", lambda n, f: n.startswith("blots::") and len(f.get("inputs", [])) == 4 and f["inputs"][0] == "&str" and "IndexMap<alloc::string::String, blots_core::values::SerializableValue" in f["inputs"][3]),
        ("blots::write_outputs", lambda n, f: n.startswith("blots::") and len(f.get("inputs", [])) == 2 and f["inputs"][0].startswith("&indexmap::map::IndexMap<alloc::string::String, blots_core::values::SerializableValue") and "Option<" in f["inputs"][1]),
        ("blots::parse_json_inputs", lambda n, f: n.startswith("blots::") and f.get("inputs") and f["inputs"][0] == "&str" and "IndexMap<alloc::string::String, blots_core::values::Value" in f.get("output", "")),
    ],
}
RENAMED = {}


def canonicalise(fdir_profile):
    """returns {file: parsed json} for the three crates with renamed private anchors rewritten to their canonical names"""
    import re as _re
    key = fdir_profile
    if key in _loaded:
        return _loaded[key]
    files = ["blots_core-rlib.json", "blots-executable.json", "blots_wasm-cdylib.json"]
    parsed = {fn: load(fdir_profile, fn) for fn in files}
    renames = {}
    for fn, roles in ANCHOR_ROLES.items():
        hir = parsed[fn]["hir"]
        for canon, pred in roles:
            if canon in hir:
                continue
            c = [n for n, f in hir.items() if f.get("kind") in ("Fn", "AssocFn") and "::{closure" not in n and pred(n, f)]
            if len(c) == 1:
                renames[c[0]] = canon
    if renames:
        for fn in files:
            with open(os.path.join(fdir_profile, fn)) as fh:
                txt = fh.read()
            for old, new in sorted(renames.items(), key=lambda kv: -len(kv[0])):
                # a def path is always followed by a quote or by `::` (closures / nested items)
                txt = _re.sub(_re.escape(old) + r'(?=["\\:])', new, txt)
            parsed[fn] = json.loads(txt)
        RENAMED.update(renames)
    _loaded[key] = parsed
    return parsed
