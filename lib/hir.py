"""Helpers over the HIR JSON dumped by blots-facts."""


def walk(n):
    """Pre-order over all dict nodes (expressions, patterns, stmts, arms)."""
    st = [n]
    while st:
        x = st.pop()
        if isinstance(x, dict):
            yield x
            for v in reversed(list(x.values())):
                if isinstance(v, (dict, list)):
                    st.append(v)
        elif isinstance(x, list):
            for v in reversed(x):
                if isinstance(v, (dict, list)):
                    st.append(v)


def kind(n):
    return n.get("k") if isinstance(n, dict) else None


def loc(n):
    sp = n.get("sp") if isinstance(n, dict) else None
    if not sp:
        return None
    return "%s:%d" % (sp[0], sp[1])


def strip(n):
    """Look through reference/deref/block wrappers that do not change the value."""
    while isinstance(n, dict):
        k = n.get("k")
        if k == "AddrOf":
            n = n["e"]
        elif k == "Unary" and n.get("op") == "Deref":
            n = n["e"]
        elif k == "Block" and not n.get("stmts") and n.get("expr"):
            n = n["expr"]
        elif k == "Cast":
            n = n["e"]
        else:
            break
    return n


def callee(n):
    """Resolved def path of a Call / MethodCall node, else None."""
    if kind(n) in ("Call", "MethodCall"):
        return n.get("def")
    return None


def path_def(n):
    n = strip(n)
    if kind(n) == "Path":
        return n["res"].get("def")
    return None


def path_local(n):
    n = strip(n)
    if kind(n) == "Path":
        return n["res"].get("local")
    return None


def lit(n):
    n = strip(n)
    if kind(n) == "Lit":
        return n
    return None


def pat_variants(p):
    """The enum variant def paths a (possibly Or / Ref / tuple-struct) pattern names at top level."""
    k = kind(p)
    if k == "Or":
        out = []
        for q in p["pats"]:
            out += pat_variants(q)
        return out
    if k == "Ref":
        return pat_variants(p["pat"])
    if k in ("TupleStruct", "Struct", "Path"):
        d = p["res"].get("def")
        return [d] if d else []
    if k == "Bind" and p.get("sub"):
        return pat_variants(p["sub"])
    return []


def pat_binds(p):
    return [x["name"] for x in walk(p) if kind(x) == "Bind"]


def matches_on(fn_body, ty_suffix):
    """All Match nodes whose scrutinee type (through refs) ends with ty_suffix."""
    out = []
    for n in walk(fn_body):
        if kind(n) == "Match" and n.get("src") == "match":
            t = n["scrut"].get("ty", "")
            t = t.lstrip("&").replace("mut ", "")
            if t.endswith(ty_suffix):
                out.append(n)
    return out


def last(path):
    return path.rsplit("::", 1)[-1] if path else path
