"""Helpers over the HIR JSON dumped by blots-facts."""


def walk(n):
    """Pre-order over all dict nodes (expressions, patterns, stmts, arms)."""
    st = [n]
    while st:
        x = st.pop()
        if isinstance(x, dict):
            yield x
            for v in reversed(list(x.values())):
                if isinstance(v, (dict, list)):
                    st.append(v)
        elif isinstance(x, list):
            for v in reversed(x):
                if isinstance(v, (dict, list)):
                    st.append(v)


def kind(n):
    return n.get("k") if isinstance(n, dict) else None


def loc(n):
    sp = n.get("sp") if isinstance(n, dict) else None
    if not sp:
        return None
    return "%s:%d" % (sp[0], sp[1])


def strip(n):
    """Look through reference/deref/block wrappers that do not change the value."""
    while isinstance(n, dict):
        k = n.get("k")
        if k == "AddrOf":
            n = n["e"]
        elif k == "Unary" and n.get("op") == "Deref":
            n = n["e"]
        elif k == "Block" and not n.get("stmts") and n.get("expr"):
            n = n["expr"]
        elif k == "Cast":
            n = n["e"]
        else:
            break
    return n


def callee(n):
    """Resolved def path of a Call / MethodCall node, else None."""
    if kind(n) in ("Call", "MethodCall"):
        return n.get("def")
    return None


def path_def(n):
    n = strip(n)
    if kind(n) == "Path":
        return n["res"].get("def")
    return None


def path_local(n):
    n = strip(n)
    if kind(n) == "Path":
        return n["res"].get("local")
    return None


def lit(n):
    n = strip(n)
    if kind(n) == "Lit":
        return n
    return None


def pat_variants(p):
    """The enum variant def paths a (possibly Or / Ref / tuple-struct) pattern names at top level."""
    k = kind(p)
    if k == "Or":
        out = []
        for q in p["pats"]:
            out += pat_variants(q)
        return out
    if k == "Ref":
        return pat_variants(p["pat"])
    if k in ("TupleStruct", "Struct", "Path"):
        d = p["res"].get("def")
        return [d] if d else []
    if k == "Bind" and p.get("sub"):
        return pat_variants(p["sub"])
    return []


def pat_binds(p):
    return [x["name"] for x in walk(p) if kind(x) == "Bind"]


def matches_on(fn_body, ty_suffix):
    """All Match nodes whose scrutinee type (through refs) ends with ty_suffix."""
    out = []
    for n in walk(fn_body):
        if kind(n) == "Match" and n.get("src") == "match":
            t = n["scrut"].get("ty", "")
            t = t.lstrip("&").replace("mut ", "")
            if t.endswith(ty_suffix):
                out.append(n)
    return out


def last(path):
    return path.rsplit("::", 1)[-1] if path else path


# ---- format-string templates (AST facts) joined to Macro nodes (HIR facts) by call-site span
_fmt_cache = {}


def fmt_index(crate):
    key = id(crate)
    if key not in _fmt_cache:
        idx = {}
        for f in crate.fmt:
            sp = f["sp"]
            idx.setdefault((sp[0], sp[3], sp[4]), []).append(f)
        _fmt_cache[key] = idx
    return _fmt_cache[key]


def macro_templates(crate, macro_node):
    """fmt entries (pieces, args) of a Macro node; [] when the macro has no format string"""
    sp = macro_node["sp"]
    return fmt_index(crate).get((sp[0], sp[3], sp[4]), [])


def template_text(t):
    """the template as text with {} for placeholders"""
    out = ""
    for p in t["pieces"]:
        out += p["lit"] if "lit" in p else "{}"
    return out


def placeholder_args(crate, macro_node):
    """[(placeholder piece, arg expr node or None)] for every placeholder of every template of the macro"""
    out = []
    args_by_span = {}
    for a in macro_node.get("args", []):
        s = a.get("sp")
        if s:
            args_by_span[(s[3], s[4])] = a
    for t in macro_templates(crate, macro_node):
        for p in t["pieces"]:
            if "lit" in p:
                continue
            node = None
            if p.get("arg") is not None and p["arg"] < len(t["args"]):
                asp = t["args"][p["arg"]]
                node = args_by_span.get((asp[3], asp[4]))
            out.append((p, node))
    return out


def contains_local(n, name):
    return any(kind(x) == "Path" and x["res"].get("local") == name for x in walk(n))


def final_expr(n):
    """the value-producing tail expression of a block-like node"""
    n = strip(n)
    while kind(n) == "Block":
        if n.get("expr") is None:
            return n
        n = strip(n["expr"])
    return n


def ctor_of(n):
    """variant / struct constructor path built by expression n (looking through Ok(..), blocks, refs); None if not a constructor"""
    n = final_expr(n)
    k = kind(n)
    if k == "Call":
        f = strip(n["f"])
        if kind(f) == "Path" and f["res"].get("dk") == "Ctor":
            d = f["res"]["def"]
            if d.endswith("result::Result::Ok") or d.endswith("option::Option::Some"):
                return ctor_of(n["args"][0]) if n["args"] else None
            return d
    if k == "Path" and n["res"].get("dk") in ("Ctor", "Variant"):
        return n["res"]["def"]
    if k == "Struct":
        return n["res"].get("def")
    return None


def str_lits(n, crate, depth=0):
    """string literals in a subtree, looking through named constants / statics of the crate (`NAMES.contains(&x)`)"""
    out = []
    for x in walk(n):
        if kind(x) == "Lit" and x.get("lk") == "str":
            out.append(x["v"])
        elif kind(x) == "Path" and x.get("res", {}).get("dk") in ("Const", "Static", "AssocConst") and depth < 3:
            st = getattr(crate, "statics", {}).get(x["res"].get("def"))
            if st is not None and st.get("body") is not None:
                out += str_lits(st["body"], crate, depth + 1)
    return out


# ---------------------------------------------------------------- looking through extracted private helpers
NO_INLINE_NAMES = {"check_ordering", "get_function_def", "get_pairs", "evaluate_ast", "evaluate_binary_op_ast", "evaluate_do_block_expr", "evaluate_pairs",
                   "pairs_to_expr", "pairs_to_expr_inner", "pairs_to_expr_with_comments", "is_built_in_function", "validate_portable_value",
                   "collect_free_variables", "flatten_spread_value", "parse_record_entry", "call", "check_arity", "main", "evaluate_source",
                   "write_outputs", "parse_json_inputs", "format_expr", "expr_to_source", "expr_to_source_with_scope", "needs_parens_in_binop",
                   "operator_info", "build_pratt_parser", "resolve_unit", "convert", "get_all_units", "from_json", "to_json", "from_value", "to_value",
                   "stringify", "equals", "compare", "can_accept", "get_arity", "arity", "name", "from_ident", "all"}


def _module_of(d, kind_=None):
    """module path of a def path: a free fn loses its own name, a method loses the type as well"""
    segs = (d or "").split("::")
    n = 2 if kind_ == "AssocFn" else 1
    return "::".join(segs[:-n]) if len(segs) > n else segs[0]


def inlined_fn(crate, path, depth=2):
    """A copy of crate.hir[path] in which calls of private helper functions of the same module are replaced by
    `{ let (params..) = (args..); <helper body> }`, so that a rule that reads an arm sees the code even when the arm was
    moved into a helper (one or two levels). Functions that the rules themselves talk about are never inlined."""
    import copy
    f = crate.hir[path]
    if f.get("body") is None:
        return f
    hits = [0]

    def eligible(d, stack):
        g = crate.hir.get(d)
        if g is None or g.get("body") is None or d in stack or d == path:
            return None
        if g.get("kind") not in ("Fn", "AssocFn") or g.get("vis") == "pub":
            return None
        if last(d) in NO_INLINE_NAMES or _module_of(d, g.get("kind")) != _module_of(path, f.get("kind")):
            return None
        if not all(kind(p_) in ("Bind",) or (kind(p_) == "Ref" and kind(p_.get("pat")) == "Bind") for p_ in g.get("params", [])):
            return None
        return g

    def rewrite(n, stack, lvl):
        if isinstance(n, list):
            return [rewrite(x, stack, lvl) for x in n]
        if not isinstance(n, dict):
            return n
        out = {k_: (rewrite(v_, stack, lvl) if isinstance(v_, (dict, list)) and k_ not in ("sp", "res") else v_) for k_, v_ in n.items()}
        k = out.get("k")
        d = out.get("def") if k in ("Call", "MethodCall") else None
        if d and lvl < depth:
            g = eligible(d, stack)
            if g is not None:
                args = ([out["recv"]] if k == "MethodCall" else []) + list(out.get("args", []))
                if len(args) == len(g["params"]):
                    hits[0] += 1
                    body = rewrite(copy.deepcopy(g["body"]), stack + [d], lvl + 1)
                    let = {"k": "Let", "pat": {"k": "Tuple", "pats": copy.deepcopy(g["params"])}, "init": {"k": "Tup", "es": args, "sp": out.get("sp")}, "sp": out.get("sp")}
                    return {"k": "Block", "stmts": [let], "expr": body, "ty": out.get("ty"), "sp": out.get("sp"), "inlined_from": d,
                            "inlined_result": "result::Result<" in (g.get("output") or "")}
        return out

    body = rewrite(copy.deepcopy(f["body"]), [path], 0)
    if not hits[0]:
        return f
    g = dict(f)
    g["body"] = body
    g["inlined_helpers"] = hits[0]
    return g


def param_by_type(f, substr, default=None):
    """name of the first parameter of a HIR fn whose type contains substr (parameters are found by what they are, not by how they are called)"""
    for p_, t in zip(f.get("params", []), f.get("inputs", [])):
        if substr in t:
            b = pat_binds(p_)
            if b:
                return b[0]
    return default


def main_match(fn_body, ty_suffix):
    """The dispatch match on ty_suffix as a (synthetic) match node whose arms are the innermost arms per variant: when an arm
    `A | B | C => self.helper(..)` delegates to a helper (shown inlined by inlined_fn) that matches on the same enum again,
    the helper's arms for A, B, C take the place of the delegating arm."""
    ms = matches_on(fn_body, ty_suffix)
    if not ms:
        return None
    ids = {id(m): m for m in ms}
    nested = set()
    for m in ms:
        for a in m["arms"]:
            for x in walk(a["body"]):
                if id(x) in ids and x is not m:
                    nested.add(id(x))
    tops = [m for m in ms if id(m) not in nested] or ms
    top = max(tops, key=lambda m: len(m["arms"]))

    def names(arm):
        return {last(v) for v in pat_variants(arm["pat"])}

    def flat(m, depth=0):
        out = []
        for a in m["arms"]:
            vs = names(a)
            inner = [x for x in walk(a["body"]) if id(x) in ids and x is not m] if depth < 3 else []
            cand = [x for x in inner if vs & {n for aa in x["arms"] for n in names(aa)}]
            def value_of(e, d=0):
                """the node that produces the arm's value, looking through blocks, `?`, Ok(..) and looked-through helper calls"""
                e = strip(e)
                if d > 8 or not isinstance(e, dict):
                    return e
                k_ = kind(e)
                if k_ == "Block":
                    if e.get("expr") is not None:
                        return value_of(e["expr"], d + 1)
                    if e["stmts"] and e["stmts"][-1]["k"] in ("Expr", "Semi"):
                        return value_of(e["stmts"][-1]["e"], d + 1)
                    return e
                if k_ == "Try":
                    return value_of(e["e"], d + 1)
                if k_ == "Ret" and e.get("e") is not None:
                    return value_of(e["e"], d + 1)
                if k_ == "Call" and e.get("args") and last(e.get("def") or (strip(e["f"]).get("res") or {}).get("def") or "") in ("Ok", "Some") and len(e["args"]) == 1:
                    return value_of(e["args"][0], d + 1)
                return e
            if cand:
                # a delegation hands the whole answer to the helper: the helper's match IS the arm's value (a predicate helper whose
                # answer is only one ingredient of the arm does not take the arm's place)
                v_ = value_of(a["body"])
                cand = [x for x in cand if x is v_]
            if cand and len(vs) > 1:
                inn = max(cand, key=lambda x: len(x["arms"]))
                got = [aa for aa in flat(inn, depth + 1) if names(aa) & vs]
                covered = set().union(*[names(aa) for aa in got]) if got else set()
                out += got
                if vs - covered:
                    out.append(a)  # variants the helper does not name explicitly stay with the delegating arm
            else:
                out.append(a)
        return out

    return dict(top, arms=flat(top))
