"""Helpers over the HIR JSON dumped by blots-facts."""


def walk(n):
    """Pre-order over all dict nodes (expressions, patterns, stmts, arms)."""
    st = [n]
    while st:
        x = st.pop()
        if isinstance(x, dict):
            yield x
            for v in reversed(list(x.values())):
                if isinstance(v, (dict, list)):
                    st.append(v)
        elif isinstance(x, list):
            for v in reversed(x):
                if isinstance(v, (dict, list)):
                    st.append(v)


def kind(n):
    return n.get("k") if isinstance(n, dict) else None


def loc(n):
    sp = n.get("sp") if isinstance(n, dict) else None
    if not sp:
        return None
    return "%s:%d" % (sp[0], sp[1])


def strip(n):
    """Look through reference/deref/block wrappers that do not change the value."""
    while isinstance(n, dict):
        k = n.get("k")
        if k == "AddrOf":
            n = n["e"]
        elif k == "Unary" and n.get("op") == "Deref":
            n = n["e"]
        elif k == "Block" and not n.get("stmts") and n.get("expr"):
            n = n["expr"]
        elif k == "Cast":
            n = n["e"]
        else:
            break
    return n


def callee(n):
    """Resolved def path of a Call / MethodCall node, else None."""
    if kind(n) in ("Call", "MethodCall"):
        return n.get("def")
    return None


def path_def(n):
    n = strip(n)
    if kind(n) == "Path":
        return n["res"].get("def")
    return None


def path_local(n):
    n = strip(n)
    if kind(n) == "Path":
        return n["res"].get("local")
    return None


def lit(n):
    n = strip(n)
    if kind(n) == "Lit":
        return n
    return None


def pat_variants(p):
    """The enum variant def paths a (possibly Or / Ref / tuple-struct) pattern names at top level."""
    k = kind(p)
    if k == "Or":
        out = []
        for q in p["pats"]:
            out += pat_variants(q)
        return out
    if k == "Ref":
        return pat_variants(p["pat"])
    if k in ("TupleStruct", "Struct", "Path"):
        d = p["res"].get("def")
        return [d] if d else []
    if k == "Bind" and p.get("sub"):
        return pat_variants(p["sub"])
    return []


def pat_binds(p):
    return [x["name"] for x in walk(p) if kind(x) == "Bind"]


def matches_on(fn_body, ty_suffix):
    """All Match nodes whose scrutinee type (through refs) ends with ty_suffix."""
    out = []
    for n in walk(fn_body):
        if kind(n) == "Match" and n.get("src") == "match":
            t = n["scrut"].get("ty", "")
            t = t.lstrip("&").replace("mut ", "")
            if t.endswith(ty_suffix):
                out.append(n)
    return out


def last(path):
    return path.rsplit("::", 1)[-1] if path else path


# ---- format-string templates (AST facts) joined to Macro nodes (HIR facts) by call-site span
_fmt_cache = {}


def fmt_index(crate):
    key = id(crate)
    if key not in _fmt_cache:
        idx = {}
        for f in crate.fmt:
            sp = f["sp"]
            idx.setdefault((sp[0], sp[3], sp[4]), []).append(f)
        _fmt_cache[key] = idx
    return _fmt_cache[key]


def macro_templates(crate, macro_node):
    """fmt entries (pieces, args) of a Macro node; [] when the macro has no format string"""
    sp = macro_node["sp"]
    return fmt_index(crate).get((sp[0], sp[3], sp[4]), [])


def template_text(t):
    """the template as text with {} for placeholders"""
    out = ""
    for p in t["pieces"]:
        out += p["lit"] if "lit" in p else "{}"
    return out


def placeholder_args(crate, macro_node):
    """[(placeholder piece, arg expr node or None)] for every placeholder of every template of the macro"""
    out = []
    args_by_span = {}
    for a in macro_node.get("args", []):
        s = a.get("sp")
        if s:
            args_by_span[(s[3], s[4])] = a
    for t in macro_templates(crate, macro_node):
        for p in t["pieces"]:
            if "lit" in p:
                continue
            node = None
            if p.get("arg") is not None and p["arg"] < len(t["args"]):
                asp = t["args"][p["arg"]]
                node = args_by_span.get((asp[3], asp[4]))
            out.append((p, node))
    return out


def contains_local(n, name):
    return any(kind(x) == "Path" and x["res"].get("local") == name for x in walk(n))


def final_expr(n):
    """the value-producing tail expression of a block-like node"""
    n = strip(n)
    while kind(n) == "Block":
        if n.get("expr") is None:
            return n
        n = strip(n["expr"])
    return n


def ctor_of(n):
    """variant / struct constructor path built by expression n (looking through Ok(..), blocks, refs); None if not a constructor"""
    n = final_expr(n)
    k = kind(n)
    if k == "Call":
        f = strip(n["f"])
        if kind(f) == "Path" and f["res"].get("dk") == "Ctor":
            d = f["res"]["def"]
            if d.endswith("result::Result::Ok") or d.endswith("option::Option::Some"):
                return ctor_of(n["args"][0]) if n["args"] else None
            return d
    if k == "Path" and n["res"].get("dk") in ("Ctor", "Variant"):
        return n["res"]["def"]
    if k == "Struct":
        return n["res"].get("def")
    return None


def str_lits(n, crate, depth=0):
    """string literals in a subtree, looking through named constants / statics of the crate (`NAMES.contains(&x)`)"""
    out = []
    for x in walk(n):
        if kind(x) == "Lit" and x.get("lk") == "str":
            out.append(x["v"])
        elif kind(x) == "Path" and x.get("res", {}).get("dk") in ("Const", "Static", "AssocConst") and depth < 3:
            st = getattr(crate, "statics", {}).get(x["res"].get("def"))
            if st is not None and st.get("body") is not None:
                out += str_lits(st["body"], crate, depth + 1)
    return out
