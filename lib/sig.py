"""Operation signatures: a small normaliser over HIR expressions that replaces operand references by roles
(provenance), strips plumbing (`?`, refs, clones, heap handles, spans) and yields a comparable tree.
Used to compare hand-written sibling copies of one operation (C11, C12, C13, C15)."""
from lib import hir as H

STRIP_METHODS = {"clone", "to_string", "to_owned", "copied", "cloned", "borrow", "borrow_mut", "as_ref", "as_str", "deref", "into", "to_vec", "iter", "into_iter", "as_slice"}
PLUMBING_TYPES = ("blots_core::heap::Heap", "core::cell::Ref<", "core::cell::RefMut<", "alloc::rc::Rc<core::cell::RefCell<blots_core::heap::Heap", "alloc::rc::Rc<str>")
PLUMBING_EXACT = ("blots_core::ast::Span",)
COMMUTATIVE_BIN = {"Mul", "BitAnd", "BitOr"}
SYMMETRIC_CALLS = {"equals"}


CLOSURE_SRC = {}  # normalised closure term -> (HIR node, environment): needed to beta-reduce closures whose tails are Ok(..)
TEMPLATES = None  # set by rule modules: Macro node -> template text
INLINE = None     # set by rule modules: def path of a called free function -> its HIR fn (to look through extracted helpers), else None


class Env:
    def __init__(self, roles=None, inline=None, flags=None, frozen=None):
        self.roles = dict(roles or {})      # local name -> role tuple
        self.inline = dict(inline or {})    # local name -> (hir expr, env-at-definition)
        self.flags = dict(flags or {})      # local bool name -> True/False (e.g. is_list_first)
        self.frozen = set(frozen or ())     # locals defined outside the current loop: not inlined ("hoisted")
        self.op = None                       # (local name of the operator parameter, variant name) when known

    def child(self):
        e = Env(self.roles, self.inline, self.flags, self.frozen)
        e.op = self.op
        return e


def reassigned_in(block):
    """names that are the target of an assignment / compound assignment somewhere inside the block: such a `let mut` is a
    running value (counter, accumulator), not a definition that may be substituted for its uses"""
    out = set()
    for x in H.walk(block):
        if H.kind(x) in ("Assign", "AssignOp"):
            l = H.path_local(x.get("l"))
            if l is not None:
                out.add(l)
    return out


def is_plumbing(n):
    t = (n.get("ty") or "").lstrip("&").replace("mut ", "")
    return t.startswith(PLUMBING_TYPES) or t in PLUMBING_EXACT


def norm(n, env, depth=0):
    if depth > 60 or not isinstance(n, dict):
        return ("?", "depth")
    k = H.kind(n)
    sp = n.get("sp")
    if sp and sp[5] and sp[6] == "vec" and k in ("Call", "MethodCall"):
        arr = None
        for x in H.walk(n):
            if H.kind(x) == "Array":
                arr = x
                break
        if arr is not None:
            return ("vec",) + tuple(norm(x, env, depth + 1) for x in arr["es"])
        return ("vec",)
    if k == "Try":
        inner = norm(n["e"], env, depth + 1)
        if inner and inner[0] in ("list", "zip"):
            return inner
        if inner and inner[0] == "resultval":
            return push_try(inner[1])  # `helper(..)?`: the `?` applies to each tail of the helper; Ok(v) tails are just v
        return ("try", inner)
    if k == "AddrOf":
        return norm(n["e"], env, depth + 1)
    if k == "Unary":
        if n["op"] == "Deref":
            return norm(n["e"], env, depth + 1)
        return ("un", n["op"], norm(n["e"], env, depth + 1))
    if k == "Cast":
        return ("cast", (n.get("ty") or ""), norm(n["e"], env, depth + 1))
    if k == "Block" and n.get("inlined_result"):
        # the body of a Result-returning helper that lib/hir.inlined_fn put in place of its call: keep its Ok(..) tails visible
        return ("resultval", result_tail(dict(n, inlined_result=False), env, depth + 1))
    if k == "Block":
        e2 = env.child()
        ra = None
        for s in n["stmts"]:
            if s["k"] == "Let" and H.kind(s["pat"]) == "Bind" and s.get("init") is not None:
                if "Mut" in (s["pat"].get("mode") or ""):
                    ra = reassigned_in(n) if ra is None else ra
                    if s["pat"]["name"] in ra:
                        e2.roles.pop(s["pat"]["name"], None)
                        e2.inline.pop(s["pat"]["name"], None)
                        continue  # stays ("var", name): a running value, not a definition
                ce = e2.child()
                e2.roles.pop(s["pat"]["name"], None)
                e2.inline[s["pat"]["name"]] = (s["init"], ce)
            elif s["k"] == "Let" and H.kind(s["pat"]) == "Tuple" and s.get("init") is not None:
                bind_tuple(s["pat"], s["init"], e2)
            elif s["k"] == "Let" and H.kind(s["pat"]) == "Slice" and s.get("init") is not None:
                bind_slice(s["pat"], s["init"], e2)
        if n.get("expr") is not None:
            return norm(n["expr"], e2, depth + 1)
        return ("unit",)
    if k == "Lit":
        return ("lit", n["v"])
    if k == "Path":
        l = n["res"].get("local")
        if l is not None:
            if l in env.roles:
                return env.roles[l]
            if l in env.flags:
                return ("lit", "true" if env.flags[l] else "false")
            if l in env.frozen and l in env.inline:
                init, ienv = env.inline[l]
                return ("hoisted", norm(init, ienv, depth + 1))
            if l in env.inline:
                init, ienv = env.inline[l]
                return norm(init, ienv, depth + 1)
            return ("var", l)
        d = n["res"].get("def")
        if CONSTS is not None and n["res"].get("dk") in ("Const", "AssocConst") and depth < 50:
            # a named constant of the crate stands for its (small, literal) value: `ACCEPT_LESS` is `&[Ordering::Less]`
            st = CONSTS(d)
            if st is not None and st.get("body") is not None:
                b = H.strip(st["body"])
                if H.kind(b) in ("Array", "Lit", "Path", "Tup") and sum(1 for _ in H.walk(b)) <= 40:
                    return norm(b, Env(), depth + 1)
        return ("path", d)
    if k == "Tup":
        return ("tup",) + tuple(norm(x, env, depth + 1) for x in n["es"])
    if k == "Array":
        return ("arr",) + tuple(norm(x, env, depth + 1) for x in n["es"])
    if k == "Index":
        base = norm(n["e"], env, depth + 1)
        idx = norm(n["i"], env, depth + 1)
        if base[0] == "list" and idx == ("loopvar",):
            return ("elem", base[1])
        if idx[0] == "range" or (H.kind(H.strip(n["i"])) == "Struct"):
            return base  # `x[..]` full-range reslice
        return ("index", base, idx)
    if k == "Field":
        return ("field", n["name"], norm(n["e"], env, depth + 1))
    if k == "Binary":
        a, b = norm(n["l"], env, depth + 1), norm(n["r"], env, depth + 1)
        if n["op"] in COMMUTATIVE_BIN:
            a, b = sorted((a, b), key=repr)
        return ("bin", n["op"], a, b)
    if k == "If":
        c = n["cond"]
        cn = norm(c, env, depth + 1)
        if cn == ("lit", "true"):
            return norm(n["then"], env, depth + 1)
        if cn == ("lit", "false") and n.get("else") is not None:
            return norm(n["else"], env, depth + 1)
        return ("if", cn, norm(n["then"], env, depth + 1), norm(n["else"], env, depth + 1) if n.get("else") is not None else ("unit",))
    if k == "Match":
        if env.op is not None and H.path_local(n["scrut"]) == env.op[0]:
            for a in n["arms"]:
                if env.op[1] in [H.last(v) for v in H.pat_variants(a["pat"])]:
                    return norm(a["body"], env, depth + 1)
        arms = []
        for a in n["arms"]:
            arms.append((pat_sig(a["pat"]), norm(a["body"], env, depth + 1)))
        return ("match", norm(n["scrut"], env, depth + 1), tuple(arms))
    if k == "Macro":
        tmpl = TEMPLATES(n) if TEMPLATES is not None else None
        return ("macro", n["name"], tmpl, tuple(norm(a, env, depth + 1) for a in n.get("args", []) if not is_plumbing(a)))
    if k == "Ret":
        return ("ret", norm(n["e"], env, depth + 1) if n.get("e") is not None else ("unit",))
    if k == "Closure":
        e2 = env.child()
        for i, p_ in enumerate(n.get("params", [])):
            for bn in H.pat_binds(p_):
                e2.roles[bn] = ("cp", i)
        t = ("closure", norm(n["body"], e2, depth + 1))
        if len(CLOSURE_SRC) < 20000:
            CLOSURE_SRC[t] = (n, env)
        return t
    if k == "Struct":
        return ("struct", n["res"].get("def"), tuple((f["name"], norm(f["e"], env, depth + 1)) for f in n["fields"]))
    if k == "Call":
        f = H.strip(n["f"])
        args = [norm(a, env, depth + 1) for a in n["args"] if not is_plumbing(a)]
        if H.kind(f) == "Path" and f["res"].get("local") is not None:
            # calling a function value: a closure parameter of an inlined helper (`op(a, b)`) is beta-reduced
            fv = norm(f, env, depth + 1)
            if fv[0] == "closure":
                src = CLOSURE_SRC.get(fv)
                if src is not None:
                    # a closure whose tails are `Ok(v)` / Result values: keep them visible so that a `?` on the call distributes
                    cnode, cenv = src
                    e3 = cenv.child()
                    for i, p_ in enumerate(cnode.get("params", [])):
                        for bn in H.pat_binds(p_):
                            if i < len(args):
                                e3.roles[bn] = args[i]
                    tail = result_tail(cnode["body"], e3, depth + 10)
                    if contains_head(tail, "ok"):
                        return ("resultval", tail)
                return subst(fv[1], {("cp", i): a for i, a in enumerate(args)})
            if fv[0] == "path" and fv[1]:
                nm_ = H.last(fv[1])
                if "<impl " in fv[1] and args:
                    return ("call", nm_) + tuple(args)  # `f64::powf` used as a function value: same as the method call
                return ("fn", nm_) + tuple(args)
        if H.kind(f) == "Path" and f["res"].get("dk") == "Ctor":
            d = f["res"]["def"]
            if d.endswith("result::Result::Ok") and len(args) == 1:
                return args[0]
            return ("ctor", H.last(d)) + tuple(args)
        d = n.get("def") or (H.path_def(f) or "?")
        nm = H.last(d)
        if nm in ("from", "into") and len(args) == 1:
            return args[0]
        hf = INLINE(d) if INLINE is not None else None
        if hf is not None and depth < 40 and len(hf.get("params", [])) == len(n["args"]):
            # an extracted helper: evaluate its body with the parameters bound to the (normalised) arguments
            e2 = Env()
            for p_, a_ in zip(hf["params"], n["args"]):
                bn = H.pat_binds(p_)
                if len(bn) == 1:
                    e2.roles[bn[0]] = norm(a_, env, depth + 1)
            if "core::result::Result<" in (hf.get("output") or ""):
                return ("resultval", result_tail(hf["body"], e2, depth + 10))
            return norm(hf["body"], e2, depth + 10)
        return ("fn", nm) + tuple(args)
    if k == "MethodCall":
        nm = n["name"]
        recv = norm(n["recv"], env, depth + 1)
        if nm in STRIP_METHODS:
            return recv
        args = [norm(a, env, depth + 1) for a in n["args"] if not is_plumbing(a)]
        if nm == "as_list" and recv[0] == "call" and recv[1] == "reify" and recv[2][0] == "listptr":
            return ("list", recv[2][1])
        if nm == "as_list" and recv[0] == "role":
            return ("list", recv[1])
        if nm == "zip" and recv[0] == "list" and args and args[0][0] == "list":
            return ("zip", recv[1], args[0][1])
        if nm in ("map_err", "ok_or_else", "ok_or", "with_call_site", "with_function_context"):
            return recv
        if nm in SYMMETRIC_CALLS and len(args) == 1:
            a, b = sorted((recv, args[0]), key=repr)
            return ("call", nm, a, b)
        return ("call", nm, recv) + tuple(args)
    if k == "LetExpr":
        return ("let", pat_sig(n["pat"]), norm(n["init"], env, depth + 1))
    return ("?", k)


def result_tail(n, env, depth=0):
    """normal form of a Result-valued body, keeping `Ok(v)` tails visible as ("ok", v) so that a `?` at the call site can be distributed"""
    if depth > 60 or not isinstance(n, dict):
        return ("?", "depth")
    k = H.kind(n)
    if k == "Block":
        e2 = env.child()
        ra = None
        for s in n["stmts"]:
            if s["k"] == "Let" and H.kind(s["pat"]) == "Bind" and s.get("init") is not None:
                if "Mut" in (s["pat"].get("mode") or ""):
                    ra = reassigned_in(n) if ra is None else ra
                    if s["pat"]["name"] in ra:
                        e2.roles.pop(s["pat"]["name"], None)
                        e2.inline.pop(s["pat"]["name"], None)
                        continue  # stays ("var", name): a running value, not a definition
                ce = e2.child()
                e2.roles.pop(s["pat"]["name"], None)
                e2.inline[s["pat"]["name"]] = (s["init"], ce)
            elif s["k"] == "Let" and H.kind(s["pat"]) == "Tuple" and s.get("init") is not None:
                bind_tuple(s["pat"], s["init"], e2)
            elif s["k"] == "Let" and H.kind(s["pat"]) == "Slice" and s.get("init") is not None:
                bind_slice(s["pat"], s["init"], e2)
        if n.get("expr") is not None:
            return result_tail(n["expr"], e2, depth + 1)
        return ("unit",)
    if k == "If" and n.get("else") is not None:
        return ("if", norm(n["cond"], env, depth + 1), result_tail(n["then"], env, depth + 1), result_tail(n["else"], env, depth + 1))
    if k == "Match":
        return ("match", norm(n["scrut"], env, depth + 1), tuple((pat_sig(a["pat"]), result_tail(a["body"], env, depth + 1)) for a in n["arms"]))
    if k == "Call":
        f = H.strip(n["f"])
        if H.kind(f) == "Path" and f["res"].get("dk") == "Ctor" and (f["res"].get("def") or "").endswith("result::Result::Ok") and len(n["args"]) == 1:
            return ("ok", norm(n["args"][0], env, depth + 1))
    return norm(n, env, depth)


def push_try(t):
    if not isinstance(t, tuple) or not t:
        return ("try", t)
    if t[0] == "ok":
        return t[1]
    if t[0] == "ctor" and len(t) > 1 and t[1] == "Err":
        return t  # `Err(e)?` is the error exit itself
    if t[0] == "if":
        return ("if", t[1], push_try(t[2]), push_try(t[3]))
    if t[0] == "match":
        return ("match", t[1], tuple((p, push_try(b)) for p, b in t[2]))
    return ("try", t)


def pat_sig(p):
    k = H.kind(p)
    if k in ("TupleStruct", "Struct", "Path"):
        subs = p.get("pats") or [f["pat"] for f in p.get("fields", [])]
        return (H.last(p["res"].get("def") or "?"),) + tuple(pat_sig(x) for x in subs if H.kind(x) not in ("Bind", "Wild"))
    if k == "Tuple":
        return ("tup",) + tuple(pat_sig(x) for x in p["pats"])
    if k == "Or":
        return ("or",) + tuple(sorted((pat_sig(x) for x in p["pats"]), key=repr))
    if k == "Ref":
        return pat_sig(p["pat"])
    if k == "Lit":
        return ("lit", p["v"])
    if k in ("Bind", "Wild"):
        return ("_",)
    return ("?", k)


def bind_slice(pat, init, env):
    """let [a, b, c] = xs.as_slice() else { .. }: a = xs[0], b = xs[1], ... (fixed-length slice patterns only)"""
    if pat.get("mid") is not None or pat.get("after"):
        return False
    base = norm(init, env)
    for i, p in enumerate(pat.get("before", [])):
        q = p
        while H.kind(q) == "Ref":
            q = q["pat"]
        if H.kind(q) == "Bind":
            env.roles[q["name"]] = ("index", base, ("lit", str(i)))
    return True


def bind_tuple(pat, init, env):
    """let (a, b) = (x, y) / { ...; (x, y) } / if <known flag> { (x, y) } else { (u, v) }"""
    fe = H.final_expr(init)
    for _ in range(4):
        if H.kind(fe) == "If" and fe.get("else") is not None:
            c = norm(fe["cond"], env)
            if c == ("lit", "true"):
                fe = H.final_expr(fe["then"])
                continue
            if c == ("lit", "false"):
                fe = H.final_expr(fe["else"])
                continue
        break
    if H.kind(fe) == "Tup" and len(fe["es"]) == len(pat["pats"]):
        # statements of the initializer block are visible to the tuple components
        ienv = env.child()
        blk = H.strip(init)
        if H.kind(blk) == "Block":
            for s in blk["stmts"]:
                if s["k"] == "Let" and H.kind(s["pat"]) == "Bind" and s.get("init") is not None:
                    ienv.inline[s["pat"]["name"]] = (s["init"], ienv.child())
        for p, e in zip(pat["pats"], fe["es"]):
            if H.kind(p) == "Bind":
                env.inline[p["name"]] = (e, ienv)


def show(t, depth=0):
    if not isinstance(t, tuple):
        return repr(t)
    if not t:
        return "()"
    h = t[0]
    if h == "role":
        return t[1]
    if h == "elem":
        return "elem(%s)" % t[1]
    if h == "lit":
        return str(t[1])
    if h == "bin":
        return "(%s %s %s)" % (show(t[2]), t[1], show(t[3]))
    if h == "call":
        return "%s.%s(%s)" % (show(t[2]), t[1], ", ".join(show(x) for x in t[3:]))
    if h in ("ctor", "fn"):
        return "%s(%s)" % (t[1], ", ".join(show(x) for x in t[2:]))
    if h == "path":
        return H.last(t[1] or "?")
    if h == "un":
        return "%s %s" % (t[1], show(t[2]))
    if h == "try":
        return show(t[1]) + "?"
    if h == "hoisted":
        return "hoisted{%s}" % show(t[1])
    return "%s[%s]" % (h, ", ".join(show(x) for x in t[1:]))


def subst(t, mapping):
    """replace role leaves"""
    if not isinstance(t, tuple):
        return t
    if t in mapping:
        return mapping[t]
    return tuple(subst(x, mapping) for x in t)


def contains(t, leaf):
    if t == leaf:
        return True
    if isinstance(t, tuple):
        return any(contains(x, leaf) for x in t)
    return False


def has_unknown(t):
    if isinstance(t, tuple):
        if t and t[0] == "?":
            return True
        return any(has_unknown(x) for x in t)
    return False


def contains_head(t, head):
    if isinstance(t, tuple):
        if t and t[0] == head:
            return True
        return any(contains_head(x, head) for x in t)
    return False


def find_head(t, head):
    if isinstance(t, tuple):
        if t and t[0] == head:
            return t
        for x in t:
            r = find_head(x, head)
            if r is not None:
                return r
    return None


def resort(t):
    """re-establish the canonical operand order of commutative / symmetric nodes after a role substitution"""
    if not isinstance(t, tuple):
        return t
    t = tuple(resort(x) for x in t)
    if len(t) == 4 and t[0] == "bin" and t[1] in COMMUTATIVE_BIN:
        a, b = sorted((t[2], t[3]), key=repr)
        return ("bin", t[1], a, b)
    if len(t) == 4 and t[0] == "call" and t[1] in SYMMETRIC_CALLS:
        a, b = sorted((t[2], t[3]), key=repr)
        return ("call", t[1], a, b)
    return t


def contains_call(t, name):
    if isinstance(t, tuple):
        if len(t) >= 2 and t[0] == "call" and t[1] == name:
            return True
        return any(contains_call(x, name) for x in t)
    return False


NO_INLINE = {"check_ordering", "get_function_def", "get_pairs", "evaluate_ast", "evaluate_binary_op_ast", "evaluate_do_block_expr", "evaluate_pairs",
             "pairs_to_expr", "pairs_to_expr_inner", "pairs_to_expr_with_comments", "is_built_in_function", "validate_portable_value",
             "collect_free_variables", "flatten_spread_value", "parse_record_entry"}


CONSTS = None  # fn(def path) -> static/const fact of the crate, set together with INLINE


def default_inline(core):
    """policy for INLINE: look through private free functions of blots-core that are not part of the rules' own vocabulary"""
    global CONSTS
    CONSTS = lambda d: getattr(core, "statics", {}).get(d)
    def pol(d):
        if not (d or "").startswith("blots_core::") or H.last(d) in NO_INLINE:
            return None
        hf = core.hir.get(d)
        if hf is None or hf.get("kind") != "Fn" or hf.get("body") is None:
            return None
        if d.startswith("blots_core::ast_to_source::") or d.startswith("blots_core::formatter::") or d.startswith("blots_core::units::"):
            return None
        return hf
    return pol


def _heads(t, acc):
    if isinstance(t, (tuple, list)):
        if t and isinstance(t[0], str) and t[0] in ("?", "var", "fn", "macro") and len(t) > 1:
            acc.add((t[0], t[1] if isinstance(t[1], str) else None))
        for x in t:
            _heads(x, acc)
    return acc


def verdict(got, want):
    """True: the normal forms agree. None: they differ, but `got` contains constructs the normaliser does not model or the oracle
    does not speak about (an unresolved local, a call of a helper it does not know, an unmodelled expression kind), so the difference may
    be a refactoring rather than a different operation. False: they differ within the modelled vocabulary (operator, operand, order,
    constant): a different operation."""
    if got == want:
        return True
    g, w = _heads(got, set()), _heads(want, set())
    extra = {h for h in g - w if h[0] in ("?", "var", "fn", "macro")}
    return None if extra else False


def both(*vs):
    """conjunction of tri-state verdicts"""
    if any(v is False for v in vs):
        return False
    if any(v is None for v in vs):
        return None
    return True


def verdict_opt(got, want):
    """verdict for a value that may be missing (arm restructured: no single value found) -> undecided"""
    return None if got is None else verdict(got, want)
