"""Lexically scoped walk over a HIR body: yields nodes of interest together with the environment (let-bindings,
pattern bindings, loop variables, guards) visible at that point, for use with lib/sig.norm."""
from lib import hir as H
from lib import sig as S


def visit(node, env, pred, out, guards=()):
    """out receives (node, env, guards) for every node with pred(node) true. guards = tuple of ('if', cond_node, polarity)."""
    if isinstance(node, list):
        for x in node:
            visit(x, env, pred, out, guards)
        return
    if not isinstance(node, dict):
        return
    k = H.kind(node)
    if pred(node):
        out.append((node, env, guards))
    if k == "Block":
        e2 = env.child()
        for s in node["stmts"]:
            if s["k"] == "Let":
                if s.get("init") is not None:
                    visit(s["init"], e2, pred, out, guards)
                    if H.kind(s["pat"]) == "Bind" and "Mut" in (s["pat"].get("mode") or "") and s["pat"]["name"] in S.reassigned_in(node):
                        e2.roles.pop(s["pat"]["name"], None)
                        e2.inline.pop(s["pat"]["name"], None)  # a running value (counter / accumulator), not a definition
                    elif H.kind(s["pat"]) == "Bind":
                        ce = e2.child()
                        e2.roles.pop(s["pat"]["name"], None)
                        e2.inline[s["pat"]["name"]] = (s["init"], ce)
                    elif H.kind(s["pat"]) == "Tuple":
                        t = S.norm(s["init"], e2)
                        if t and t[0] == "tup" and len(t) - 1 == len(s["pat"]["pats"]):
                            for p, v in zip(s["pat"]["pats"], t[1:]):
                                if H.kind(p) == "Bind":
                                    e2.roles[p["name"]] = v
                        elif H.kind(H.final_expr(s["init"])) == "Tup":
                            S.bind_tuple(s["pat"], s["init"], e2)
                        else:
                            for i_, p_ in enumerate(s["pat"]["pats"]):
                                if H.kind(p_) == "Bind":
                                    e2.roles[p_["name"]] = ("proj", i_, t)
                    elif H.kind(s["pat"]) == "Slice":
                        S.bind_slice(s["pat"], s["init"], e2)
                    elif H.kind(s["pat"]) in ("TupleStruct", "Struct", "Ref"):
                        # `let Some(x) = e else { .. }` / `let Expr::V { f: x, .. } = e else { .. }`
                        bind_pattern(s["pat"], s["init"], e2, e2)
                if s.get("els") is not None:
                    visit(s["els"], e2, pred, out, guards)
            elif s["k"] in ("Expr", "Semi"):
                visit(s["e"], e2, pred, out, guards)
        if node.get("expr") is not None:
            visit(node["expr"], e2, pred, out, guards)
        return
    if k == "For":
        visit(node["iter"], env, pred, out, guards)
        e2 = env.child()
        e2.frozen = set(e2.inline.keys())
        it = S.norm(node["iter"], env)
        binds = H.pat_binds(node["pat"])
        if it[0] == "zip" and H.kind(node["pat"]) == "Tuple" and len(binds) == 2:
            e2.roles[binds[0]] = ("elem", it[1])
            e2.roles[binds[1]] = ("elem", it[2])
        elif it[0] == "list":
            for bn in binds:
                e2.roles[bn] = ("elem", it[1])
        elif it[0] == "struct" and it[1].endswith("ops::range::Range"):
            for bn in binds:
                e2.roles[bn] = ("loopvar", dict(it[2]).get("end"))
        else:
            for bn in binds:
                e2.roles[bn] = ("loopvar", it)
        visit(node["body"], e2, pred, out, guards + (("loop", node, True),))
        return
    if k == "If":
        c = node["cond"]
        visit(c, env, pred, out, guards)
        e_then = env.child()
        cs = H.strip(c)
        if H.kind(cs) == "LetExpr":
            bind_pattern(cs["pat"], cs["init"], e_then, env)
        visit(node["then"], e_then, pred, out, guards + (("if", c, True),))
        if node.get("else") is not None:
            visit(node["else"], env, pred, out, guards + (("if", c, False),))
        return
    if k == "Match":
        visit(node["scrut"], env, pred, out, guards)
        for a in node["arms"]:
            e2 = env.child()
            bind_pattern(a["pat"], node["scrut"], e2, env)
            g2 = guards + (("arm", a, True, node["scrut"], env, node),)
            if a.get("guard") is not None:
                visit(a["guard"], e2, pred, out, g2)
            visit(a["body"], e2, pred, out, g2)
        return
    if k == "Closure":
        e2 = env.child()
        e2.frozen = set(e2.inline.keys()) | e2.frozen
        for i, p in enumerate(node.get("params", [])):
            for bn in H.pat_binds(p):
                e2.roles[bn] = ("closure-param", i)
        visit(node["body"], e2, pred, out, guards + (("closure", node, True),))
        return
    for key, v in node.items():
        if key in ("sp", "ty", "res"):
            continue
        if isinstance(v, (dict, list)):
            visit(v, env, pred, out, guards)


def bind_pattern(pat, scrut, env_new, env_scrut):
    """`Some(x)` / `Ok(x)` / `Value::List(p)` over a scrutinee: x is the scrutinee's payload"""
    k = H.kind(pat)
    while k == "Ref":
        pat = pat["pat"]
        k = H.kind(pat)
    if k in ("TupleStruct", "Struct"):
        subs = pat.get("pats") or [f["pat"] for f in pat.get("fields", [])]
        v = H.last(pat["res"].get("def") or "")
        if len(subs) == 1 and H.kind(subs[0]) == "Bind":
            t = S.norm(scrut, env_scrut)
            env_new.roles[subs[0]["name"]] = t if v in ("Some", "Ok") else ("payload", v, t)
        elif len(subs) == 1:
            bind_pattern(subs[0], scrut, env_new, env_scrut)
    elif k == "Bind":
        env_new.roles[pat["name"]] = S.norm(scrut, env_scrut)
    elif k == "Tuple":
        sc = H.strip(scrut)
        if H.kind(sc) == "Tup" and len(sc["es"]) == len(pat["pats"]):
            for p, e in zip(pat["pats"], sc["es"]):
                bind_pattern(p, e, env_new, env_scrut)
    elif k == "Or":
        for p in pat["pats"]:
            bind_pattern(p, scrut, env_new, env_scrut)


def sites(body, pred, env=None):
    out = []
    visit(body, env or S.Env(), pred, out)
    return out
