"""Structural analyses of the pest grammar AST (as dumped by grammar-facts). No string is ever parsed:
these are analyses of the grammar's shape (ordered choices, literals, look-aheads, atomicity)."""
from lib.facts import CheckerError

BUILTIN = {"ANY", "SOI", "EOI", "ASCII_DIGIT", "ASCII_ALPHA", "ASCII_ALPHANUMERIC", "PEEK", "POP", "PUSH", "DROP", "NEWLINE_", "ASCII_HEX_DIGIT"}


# the silent rules of the pinned grammar: the names the analyses refer to. Any other silent rule is a helper somebody factored out of
# these (`ws_nl = _{ WHITESPACE | NEWLINE }`): a silent rule leaves no trace in the parse tree, so a reference to it is the same grammar
# as its body written in place - which is how the analyses read it
ANCHOR_SILENT = {"NEWLINE", "WHITESPACE", "argument", "binary_digits", "binary_number", "decimal_number", "hex_digits", "hex_number", "identifier_rest", "infix_op",
                 "infix_usage", "inline_comment", "input", "integer", "lambda_infix_usage", "lambda_natural_infix_op", "lambda_term", "natural_infix_op",
                 "natural_prefix_op", "nested_expression", "plain_newline", "postfix_op", "prefix_op", "prefix_usage", "record_key", "reserved_word",
                 "spreadable_expression", "term"}


class Grammar:
    def __init__(self, g):
        import copy
        self.rules = {r["name"]: r for r in g["rules"]}
        self.order = [r["name"] for r in g["rules"]]
        helpers = {n for n, r in self.rules.items() if r["ty"] == "silent" and n not in ANCHOR_SILENT}
        if helpers:
            def inline(e, stack):
                if not isinstance(e, dict):
                    return e
                if e.get("k") == "ident" and e["v"] in helpers and e["v"] not in stack:
                    return inline(copy.deepcopy(self.rules[e["v"]]["expr"]), stack | {e["v"]})
                return {k_: (inline(v_, stack) if isinstance(v_, dict) else v_) for k_, v_ in e.items()}
            # the helpers themselves are gone afterwards: left behind, an unreferenced rule would count as an entry point of its own
            # (matched in a normal context) in the context analyses
            self.rules = {n: dict(r, expr=inline(r["expr"], frozenset())) for n, r in self.rules.items() if n not in helpers}
            self.order = [n for n in self.order if n not in helpers]
        self.inlined_helpers = sorted(helpers)

    def rule(self, name):
        if name not in self.rules:
            raise CheckerError("grammar rule missing: %s" % name)
        return self.rules[name]

    def expr(self, name):
        return self.rule(name)["expr"]

    def ty(self, name):
        return self.rule(name)["ty"]

    # ---- shape helpers
    @staticmethod
    def alts(e):
        """ordered alternatives of a (nested) choice"""
        if e["k"] == "choice":
            return Grammar.alts(e["a"]) + Grammar.alts(e["b"])
        return [e]

    @staticmethod
    def seq(e):
        if e["k"] == "seq":
            return Grammar.seq(e["a"]) + Grammar.seq(e["b"])
        return [e]

    def alt_names(self, name):
        """for a rule that is a choice of rule references: the ordered names"""
        out = []
        for a in self.alts(self.expr(name)):
            if a["k"] != "ident":
                raise CheckerError("rule %s is not a plain choice of rule references" % name)
            out.append(a["v"])
        return out

    def alt_names_flat(self, name, depth=0):
        """alt_names with references to silent pure-choice rules expanded in place (`lambda_term = _{ term }` is the same choice as term)"""
        out = []
        for n in self.alt_names(name):
            if depth < 4 and n in self.rules and self.ty(n) == "silent":
                try:
                    sub = self.alt_names_flat(n, depth + 1)
                except CheckerError:
                    sub = None
                if sub:
                    out += sub
                    continue
            out.append(n)
        return out

    def alt_names_safe(self, name):
        try:
            return self.alt_names(name)
        except CheckerError:
            return []

    def literal_of(self, name):
        """the literal string of a rule whose expression starts with one literal (rest may be look-aheads)"""
        s = self.seq(self.expr(name))
        if s[0]["k"] == "str":
            return s[0]["v"]
        return None

    def literals(self, e):
        """set of literal strings of a choice of literals / of references to literal(-headed) rules"""
        out = []
        for a in self.alts(e):
            if a["k"] == "str":
                out.append(a["v"])
            elif a["k"] == "ident" and a["v"] in self.rules:
                out += self.literals(self.expr(a["v"]))
            elif a["k"] == "seq":
                h = self.seq(a)[0]
                if h["k"] == "str":
                    out.append(h["v"])
                else:
                    out += self.literals(h)
            else:
                raise CheckerError("not a literal alternative: %s" % a["k"])
        return out

    def walk(self, e):
        yield e
        for k in ("a", "b", "e"):
            if k in e and isinstance(e[k], dict):
                yield from self.walk(e[k])

    def refs(self, e):
        return [x["v"] for x in self.walk(e) if x["k"] == "ident"]

    # ---- atomicity of call contexts
    def atomic_contexts(self):
        """name -> set of contexts ('atomic' / 'normal') in which the rule's body is matched.
        @ and $ rules: body atomic; !{} rules: body normal; normal/silent rules: inherit the caller's context.
        Roots (never referenced) start in 'normal'."""
        referenced = set()
        for n in self.order:
            referenced |= set(self.refs(self.expr(n)))
        ctx = {n: set() for n in self.order}
        work = []

        def body_ctx(n, incoming):
            t = self.ty(n)
            if t in ("atomic", "compound"):
                return "atomic"
            if t == "nonatomic":
                return "normal"
            return incoming

        for n in self.order:
            if n not in referenced:
                c = body_ctx(n, "normal")
                ctx[n].add(c)
                work.append((n, c))
        while work:
            n, c = work.pop()
            for r in self.refs(self.expr(n)):
                if r in self.rules:
                    rc = body_ctx(r, c)
                    if rc not in ctx[r]:
                        ctx[r].add(rc)
                        work.append((r, rc))
        return ctx

    # ---- may the text a rule matches contain layout?
    LAYOUT_RULES = ("WHITESPACE", "NEWLINE", "COMMENT", "plain_newline", "comment", "eol_comment")

    def layout(self, name, _seen=None):
        """'admits' when the text matched by the rule can contain optional layout (an implicit gap between the parts of a
        sequence / repetition matched in a non-atomic context, or an explicit layout rule); 'free' when it cannot; 'unknown' else"""
        _seen = _seen or set()
        if name in _seen:
            return "free"
        if name in self.LAYOUT_RULES:
            return "admits"
        if name not in self.rules:
            return "free"   # built-in character classes
        _seen = _seen | {name}
        ctxs = self.atomic_contexts().get(name, set())
        implicit = "WHITESPACE" in self.rules or "COMMENT" in self.rules
        verdict = "free"

        def composite(e):
            k = e["k"]
            if k == "seq":
                # predicates take no text: `!kw ~ ident` is one part
                parts = [x for x in self.seq(e) if x["k"] not in ("pos_pred", "neg_pred", "pos", "neg")]
                return len(parts) >= 2 or any(composite(x) for x in parts)
            if k in ("rep", "rep1", "rep_min", "rep_max", "rep_exact", "rep_min_max"):
                return True
            if k in ("choice",):
                return composite(e["a"]) or composite(e["b"])
            if k in ("opt", "push"):
                return composite(e["e"])
            return False
        body = self.expr(name)
        if implicit and "normal" in ctxs and composite(body):
            return "admits"
        if implicit and not ctxs and composite(body):
            verdict = "unknown"
        for r in self.refs_no_pred(body):
            sub = self.layout(r, _seen)
            if sub == "admits":
                return "admits"
            if sub == "unknown":
                verdict = "unknown"
        return verdict

    def refs_no_pred(self, e):
        out = []

        def go(x):
            if x["k"] in ("pos_pred", "neg_pred", "pos", "neg"):
                return
            if x["k"] == "ident":
                out.append(x["v"])
            for k in ("a", "b", "e"):
                if k in x and isinstance(x[k], dict):
                    go(x[k])
        go(e)
        return out

    def child_max(self, name):
        """upper bound on the number of child pairs a rule's pair has (None = unbounded)"""
        def cnt(e, depth=0):
            k = e["k"]
            if depth > 12:
                return None
            if k in ("pos_pred", "neg_pred", "pos", "neg"):
                return 0
            if k == "ident":
                if e["v"] not in self.rules:
                    return 0
                if self.ty(e["v"]) == "silent":
                    return cnt(self.expr(e["v"]), depth + 1)
                return 1
            if k == "seq":
                a, b = cnt(e["a"], depth + 1), cnt(e["b"], depth + 1)
                return None if a is None or b is None else a + b
            if k == "choice":
                a, b = cnt(e["a"], depth + 1), cnt(e["b"], depth + 1)
                return None if a is None or b is None else max(a, b)
            if k in ("opt", "push"):
                return cnt(e["e"], depth + 1)
            if k.startswith("rep"):
                c = cnt(e["e"], depth + 1)
                return 0 if c == 0 else None
            return 0
        return cnt(self.expr(name))

    def child_seqs(self, name, maxlen=4, cap=400):
        """possible sequences of child pair kinds of a rule's pair, each cut after maxlen members (repetitions unrolled up to
        maxlen copies); None when the enumeration is too large"""
        def go(e, depth=0):
            k = e["k"]
            if depth > 14:
                return None
            if k in ("pos_pred", "neg_pred", "pos", "neg"):
                return [()]
            if k == "ident":
                if e["v"] not in self.rules:
                    return [("EOI",)] if e["v"] == "EOI" else [()]
                if self.ty(e["v"]) == "silent":
                    return go(self.expr(e["v"]), depth + 1)
                return [(e["v"],)]
            if k == "seq":
                a = go(e["a"], depth + 1)
                if a is None:
                    return None
                out = set()
                rest = None
                for x in a:
                    if len(x) >= maxlen:
                        out.add(x[:maxlen])
                        continue
                    if rest is None:
                        rest = go(e["b"], depth + 1)
                        if rest is None:
                            return None
                    for y in rest:
                        out.add((x + y)[:maxlen])
                        if len(out) > cap:
                            return None
                return sorted(out)
            if k == "choice":
                a, b = go(e["a"], depth + 1), go(e["b"], depth + 1)
                if a is None or b is None:
                    return None
                return sorted(set(a) | set(b))
            if k in ("opt",):
                a = go(e["e"], depth + 1)
                return None if a is None else sorted(set(a) | {()})
            if k in ("rep", "rep1") or k.startswith("rep_"):
                a = go(e["e"], depth + 1)
                if a is None:
                    return None
                cur = {()} if k == "rep" or k.startswith("rep_") else set()
                acc = set(cur)
                frontier = {()}
                for _ in range(maxlen):
                    nxt = set()
                    for x in frontier:
                        for y in a:
                            if not y:
                                continue
                            nxt.add((x + y)[:maxlen])
                    acc |= nxt
                    frontier = {x for x in nxt if len(x) < maxlen}
                    if len(acc) > cap:
                        return None
                    if not frontier:
                        break
                if k == "rep1":
                    acc.discard(())
                    if any(not y for y in a):
                        acc.add(())
                return sorted(acc)
            if k == "push":
                return go(e["e"], depth + 1)
            return [()]
        return go(self.expr(name))

    def child_at(self, name, k):
        """set of pair kinds that can stand at child position k (0-based) of a rule's pair; None if not enumerable"""
        seqs = self.child_seqs(name, maxlen=k + 1)
        if seqs is None:
            return None
        return {s[k] for s in seqs if len(s) > k}

    def first_children(self, name):
        """set of rules the first child pair of a rule's pair can have (a superset when optional parts precede)"""
        def go(e, depth=0):
            """(set, always) - the rules that can come first, and whether some child is always produced"""
            k = e["k"]
            if depth > 12 or k in ("pos_pred", "neg_pred", "pos", "neg"):
                return set(), False
            if k == "ident":
                if e["v"] not in self.rules:
                    return set(), False
                if self.ty(e["v"]) == "silent":
                    return go(self.expr(e["v"]), depth + 1)
                return {e["v"]}, True
            if k == "seq":
                out = set()
                for x in self.seq(e):
                    s_, al = go(x, depth + 1)
                    out |= s_
                    if al:
                        return out, True
                return out, False
            if k == "choice":
                a, b = go(e["a"], depth + 1), go(e["b"], depth + 1)
                return a[0] | b[0], a[1] and b[1]
            if k in ("opt", "rep"):
                return go(e["e"], depth + 1)[0], False
            if k in ("rep1", "push") or k.startswith("rep_"):
                return go(e["e"], depth + 1)
            return set(), False
        return go(self.expr(name))[0]

    # ---- produced children (non-silent rule references reachable through silent rules)
    def children(self, e, depth=0):
        """set of non-silent rule names an expression can produce as direct child pairs"""
        out = set()
        if depth > 30:
            return out
        for x in self.walk_no_pred(e):
            if x["k"] == "ident" and x["v"] in self.rules:
                if self.ty(x["v"]) == "silent":
                    out |= self.children(self.expr(x["v"]), depth + 1)
                else:
                    out.add(x["v"])
        return out

    def walk_no_pred(self, e):
        yield e
        if e["k"] in ("neg", "pos"):
            return
        for k in ("a", "b", "e"):
            if k in e and isinstance(e[k], dict):
                yield from self.walk_no_pred(e[k])

    def first_chars(self, e, depth=0):
        """over-approximate set of first literal characters an expression can start with ('*' = anything)"""
        out = set()
        if depth > 25:
            return {"*"}
        k = e["k"]
        if k == "str":
            return {e["v"][0]} if e["v"] else set()
        if k == "insens":
            return {e["v"][0].lower(), e["v"][0].upper()}
        if k == "range":
            return {"range:%s-%s" % (e["a"], e["b"])}
        if k == "ident":
            if e["v"] in self.rules:
                return self.first_chars(self.expr(e["v"]), depth + 1)
            return {"builtin:" + e["v"]}
        if k == "choice":
            return self.first_chars(e["a"], depth + 1) | self.first_chars(e["b"], depth + 1)
        if k == "seq":
            a = self.first_chars(e["a"], depth + 1)
            if self.nullable(e["a"]):
                a = a | self.first_chars(e["b"], depth + 1)
            return a
        if k in ("opt", "rep", "rep1", "repn", "push"):
            return self.first_chars(e["e"], depth + 1)
        if k in ("neg", "pos"):
            return set()
        return {"*"}

    def nullable(self, e, depth=0):
        if depth > 25:
            return True
        k = e["k"]
        if k in ("str", "insens"):
            return e["v"] == ""
        if k == "range":
            return False
        if k == "ident":
            if e["v"] in self.rules:
                return self.nullable(self.expr(e["v"]), depth + 1)
            return e["v"] in ("SOI", "EOI", "PEEK", "POP")
        if k == "choice":
            return self.nullable(e["a"], depth + 1) or self.nullable(e["b"], depth + 1)
        if k == "seq":
            return self.nullable(e["a"], depth + 1) and self.nullable(e["b"], depth + 1)
        if k in ("opt", "rep", "neg", "pos"):
            return True
        if k == "rep1":
            return self.nullable(e["e"], depth + 1)
        if k == "repn":
            return e["min"] == 0 or self.nullable(e["e"], depth + 1)
        if k == "push":
            return self.nullable(e["e"], depth + 1)
        return True

    def can_start(self, e, ch, depth=0):
        """may expression e begin by consuming character ch? (over-approximation: True when unsure)"""
        if depth > 25:
            return True
        k = e["k"]
        if k == "str":
            return bool(e["v"]) and e["v"][0] == ch
        if k == "insens":
            return bool(e["v"]) and e["v"][0].lower() == ch.lower()
        if k == "range":
            return e["a"] <= ch <= e["b"]
        if k == "ident":
            if e["v"] in self.rules:
                return self.can_start(self.expr(e["v"]), ch, depth + 1)
            return {"ANY": True, "ASCII_DIGIT": ch.isdigit() and ch.isascii(), "ASCII_ALPHA": ch.isalpha() and ch.isascii(),
                    "ASCII_ALPHANUMERIC": ch.isalnum() and ch.isascii(), "SOI": False, "EOI": False}.get(e["v"], True)
        if k == "choice":
            return self.can_start(e["a"], ch, depth + 1) or self.can_start(e["b"], ch, depth + 1)
        if k == "seq":
            if self.can_start(e["a"], ch, depth + 1):
                return True
            return self.nullable(e["a"]) and self.can_start(e["b"], ch, depth + 1)
        if k in ("opt", "rep", "rep1", "repn", "push"):
            return self.can_start(e["e"], ch, depth + 1)
        if k in ("neg", "pos"):
            return False
        return True

    def is_ws_gap(self, e):
        """classify a sequence element as a layout gap: returns set of {'ws','nl'} admitted, and whether mandatory;
        None if the element is not a pure layout element."""
        k = e["k"]
        if k == "ident" and e["v"] in ("WHITESPACE",):
            return ({"ws"}, True)
        if k == "ident" and e["v"] in ("NEWLINE", "plain_newline"):
            return ({"nl"}, True)
        if k == "str" and e["v"] in (" ", "\t"):
            return ({"ws"}, True)
        if k == "choice":
            acc = set()
            for a in self.alts(e):
                g = self.is_ws_gap(a)
                if g is None:
                    # comment-bearing gaps: (comment ~ (ws|nl)+ | ws | nl)
                    if a["k"] == "seq" and self.seq(a)[0]["k"] == "ident" and self.seq(a)[0]["v"] in ("comment", "eol_comment", "inline_comment"):
                        acc.add("comment")
                        continue
                    return None
                acc |= g[0]
            return (acc, True)
        if k in ("rep", "opt"):
            g = self.is_ws_gap(e["e"])
            return None if g is None else (g[0], False)
        if k == "rep1":
            g = self.is_ws_gap(e["e"])
            return None if g is None else (g[0], True)
        return None
