"""CFG analyses over the MIR JSON dumped by blots-facts: successors, dominators, reachability,
definition sites and a bounded intra-procedural provenance walk."""
from lib.facts import CheckerError

TRANSPARENT = (
    "::Try::branch", "::Clone::clone", "::Deref::deref", "::DerefMut::deref_mut", "::Into::into", "::From::from",
    "::Borrow::borrow", "::AsRef::as_ref", "::IntoIterator::into_iter", "::Rc::<T>::new", "::Rc::<T, A>::new",
    "::Option::<&T>::copied", "::Option::<&T>::cloned", "::ToOwned::to_owned", "::Box::<T>::new", "::ToString::to_string", "::String::as_str", "::String::as_mut_str", "::Rc::<T, A>::as_ref",
)


def is_transparent(d, transparent=TRANSPARENT):
    return d is not None and any(d.endswith(x) for x in transparent)


def fn_of(t):
    """(declared def path, resolved def path) of a call terminator; (None, None) for indirect calls."""
    f = t["func"]
    if "fn" in f:
        return f["fn"]["def"], f["fn"].get("res", f["fn"]["def"])
    return None, None


class Fn:
    def __init__(self, f, name):
        self.f = f
        self.name = name
        self.blocks = f["blocks"]
        self.n = len(self.blocks)
        self._succ = [self._succs(b) for b in self.blocks]
        self._pred = [[] for _ in range(self.n)]
        for i, ss in enumerate(self._succ):
            for s in ss:
                self._pred[s].append(i)
        self._idom = None
        self._reach = {}
        self._defs = None
        self.argc = f["argc"]
        self.debug = {}
        for name_, pl in f.get("debug", []):
            if not pl["p"]:
                self.debug.setdefault(pl["l"], name_)

    # ---- CFG
    @staticmethod
    def _succs(b):
        t = b["t"]
        k = t["k"]
        if k == "goto":
            return [t["t"]]
        if k == "switch":
            out = [x[1] for x in t["targets"]] + [t["otherwise"]]
            seen, r = set(), []
            for x in out:
                if x not in seen:
                    seen.add(x)
                    r.append(x)
            return r
        if k in ("call", "drop", "assert"):
            return [t["t"]] if t.get("t") is not None else []
        return []

    def succ(self, b):
        return self._succ[b]

    def pred(self, b):
        return self._pred[b]

    def term(self, b):
        return self.blocks[b]["t"]

    def stmts(self, b):
        return self.blocks[b]["s"]

    def loc(self, b=None):
        sp = self.f["sp"] if b is None else self.term(b)["sp"]
        return "%s:%d" % (sp[0], sp[1])

    def rpo(self):
        seen, order = set(), []
        st = [(0, iter(self._succ[0]))]
        seen.add(0)
        while st:
            b, it = st[-1]
            adv = False
            for s in it:
                if s not in seen:
                    seen.add(s)
                    st.append((s, iter(self._succ[s])))
                    adv = True
                    break
            if not adv:
                order.append(b)
                st.pop()
        order.reverse()
        return order

    def idom(self):
        if self._idom is not None:
            return self._idom
        order = self.rpo()
        idx = {b: i for i, b in enumerate(order)}
        idom = {0: 0}

        def inter(a, b):
            while a != b:
                while idx[a] > idx[b]:
                    a = idom[a]
                while idx[b] > idx[a]:
                    b = idom[b]
            return a

        changed = True
        while changed:
            changed = False
            for b in order[1:]:
                ps = [p for p in self._pred[b] if p in idom]
                if not ps:
                    continue
                new = ps[0]
                for p in ps[1:]:
                    new = inter(p, new)
                if idom.get(b) != new:
                    idom[b] = new
                    changed = True
        self._idom = idom
        return idom

    def dominates(self, a, b):
        """block a dominates block b (both reachable from entry)."""
        idom = self.idom()
        if b not in idom or a not in idom:
            return False
        while True:
            if a == b:
                return True
            if b == 0:
                return False
            b = idom[b]

    def dominated_by(self, a):
        return {b for b in range(self.n) if self.dominates(a, b)}

    def reachable(self, a, avoid=()):
        """blocks reachable from a (including a) without entering `avoid`."""
        key = (a, tuple(sorted(avoid)))
        if key in self._reach:
            return self._reach[key]
        seen = set()
        if a in avoid:
            self._reach[key] = seen
            return seen
        st = [a]
        seen.add(a)
        while st:
            x = st.pop()
            for s in self._succ[x]:
                if s not in seen and s not in avoid:
                    seen.add(s)
                    st.append(s)
        self._reach[key] = seen
        return seen

    def edge_dominated(self, src, dst):
        """Blocks that can only be reached through the CFG edge src->dst: the blocks dominated by dst when dst has
        src as only predecessor; otherwise blocks reachable from dst that become unreachable from entry when the
        edge is removed."""
        # generic: remove edge, compute reachability from entry
        seen = {0}
        st = [0]
        while st:
            x = st.pop()
            for s in self._succ[x]:
                if x == src and s == dst:
                    continue
                if s not in seen:
                    seen.add(s)
                    st.append(s)
        return {b for b in self.reachable(dst) if b not in seen}

    # ---- calls
    def call_blocks(self):
        return [i for i, b in enumerate(self.blocks) if b["t"]["k"] == "call" and not b.get("cleanup")]

    def callee(self, b):
        return fn_of(self.term(b))[1]

    def callee_decl(self, b):
        return fn_of(self.term(b))[0]

    def calls_to(self, path, decl=False):
        out = []
        for b in self.call_blocks():
            d, r = fn_of(self.term(b))
            if (d if decl else r) == path or (not decl and d == path):
                out.append(b)
        return out

    def calls_matching(self, pred):
        out = []
        for b in self.call_blocks():
            d, r = fn_of(self.term(b))
            if d is not None and (pred(d) or pred(r)):
                out.append(b)
        return out

    # ---- definitions
    def defs(self):
        if self._defs is None:
            d = {}
            for bi, b in enumerate(self.blocks):
                for si, s in enumerate(b["s"]):
                    if s["k"] == "assign":
                        d.setdefault(s["lhs"]["l"], []).append(("assign", bi, si, s))
                t = b["t"]
                if t["k"] == "call":
                    d.setdefault(t["dest"]["l"], []).append(("call", bi, None, t))
            self._defs = d
        return self._defs

    def full_defs(self, l):
        return [x for x in self.defs().get(l, []) if (x[0] == "call" and not x[3]["dest"]["p"]) or (x[0] == "assign" and not x[3]["lhs"]["p"])]

    @staticmethod
    def op_place(op):
        if "copy" in op:
            return op["copy"]
        if "move" in op:
            return op["move"]
        return None

    def is_param(self, l):
        return 1 <= l <= self.argc

    def trace(self, op_or_local, depth=0, transparent=TRANSPARENT, seen=None):
        """Bounded provenance: returns a list of roots, each a tuple:
           ("param", n, proj) | ("call", resolved_callee, bb, proj) | ("const", text) | ("agg", kind, bb, proj)
           | ("local", l, proj) for user variables with several definitions | ("other", text)
        proj is the list of field names / variant downcasts applied on the way (outermost last)."""
        if seen is None:
            seen = set()
        if isinstance(op_or_local, dict):
            if "const" in op_or_local:
                if "fn" in op_or_local:
                    return [("fnconst", op_or_local["fn"].get("res", op_or_local["fn"]["def"]))]
                if "static" in op_or_local:
                    return [("static", op_or_local["static"])]
                return [("const", op_or_local["const"])]
            pl = self.op_place(op_or_local)
            if pl is None:
                if "l" in op_or_local:
                    pl = op_or_local
                else:
                    return [("other", str(op_or_local)[:80])]
        else:
            pl = {"l": op_or_local, "p": []}
        l = pl["l"]
        proj = [p for p in self._proj_names(pl["p"])]
        if depth > 40 or (l, tuple(proj)) in seen:
            return [("local", l, proj)]
        seen = seen | {(l, tuple(proj))}
        if self.is_param(l):
            return [("param", l, proj)]
        ds = self.full_defs(l)
        if not ds:
            return [("local", l, proj)]
        out = []
        for kind, bi, si, x in ds:
            if kind == "call":
                d, r = fn_of(x)
                if is_transparent(d, transparent) and x["args"]:
                    for root in self.trace(x["args"][0], depth + 1, transparent, seen):
                        out.append(self._with_proj(root, proj, via=None))
                else:
                    out.append(("call", r, bi, proj))
            else:
                rv = x["rv"]
                k = rv["k"]
                if k == "use":
                    for root in self.trace(rv["op"], depth + 1, transparent, seen):
                        out.append(self._with_proj(root, proj))
                elif k in ("ref", "rawptr"):
                    for root in self.trace(rv["place"], depth + 1, transparent, seen):
                        out.append(self._with_proj(root, proj))
                elif k == "cast":
                    for root in self.trace(rv["op"], depth + 1, transparent, seen):
                        out.append(self._with_proj(root, proj + ["as:" + rv["ty"] + ":" + rv["kind"]] if rv["kind"] not in ("PointerCoercion", "Transmute", "PtrToPtr") else proj))
                elif k == "agg":
                    # projecting a field out of an aggregate we just built: follow that operand
                    if proj and rv["kind"] in ("tuple", "adt") and proj[0].isdigit() and int(proj[0]) < len(rv["ops"]):
                        for root in self.trace(rv["ops"][int(proj[0])], depth + 1, transparent, seen):
                            out.append(self._with_proj(root, proj[1:]))
                    else:
                        out.append(("agg", rv.get("adt", rv["kind"]) + ("::" + rv["variant"] if "variant" in rv else ""), bi, proj))
                elif k == "binop":
                    out.append(("binop", rv["op"], bi, si))
                elif k == "unop":
                    out.append(("unop", rv["op"], bi, si))
                elif k == "discr":
                    out.append(("discr", bi, si))
                else:
                    out.append(("other", k))
        return out

    @staticmethod
    def _proj_names(p):
        out = []
        for e in p:
            if e == "*":
                continue
            if isinstance(e, dict):
                if "f" in e:
                    out.append(e["n"] if not e["n"].isdigit() else str(e["f"]))
                elif "down" in e:
                    out.append("@" + e["down"])
                elif "idx" in e:
                    out.append("[_%d]" % e["idx"])
                elif "cidx" in e:
                    out.append("[%s%d]" % ("-" if e.get("end") else "", e["cidx"]))
                elif "sub" in e:
                    out.append("[%d..%s%d]" % (e["sub"][0], "-" if e.get("end") else "", e["sub"][1]))
        return out

    @staticmethod
    def _with_proj(root, proj, via=None):
        if not proj:
            return root
        if root[0] in ("param",):
            return (root[0], root[1], root[2] + proj)
        if root[0] in ("call", "agg"):
            return (root[0], root[1], root[2], root[3] + proj)
        if root[0] == "local":
            return (root[0], root[1], root[2] + proj)
        return root

    # ---- convenience used by rules
    def ref_root(self, op):
        """base local (a user variable or call result) an operand refers to, through refs/copies."""
        pl = self.op_place(op) if isinstance(op, dict) and ("copy" in op or "move" in op) else op
        if pl is None or "l" not in pl:
            return None
        l = pl["l"]
        for _ in range(30):
            if self.is_param(l) or l in self.debug:
                return l
            ds = self.full_defs(l)
            if len(ds) != 1:
                return l
            kind, bi, si, x = ds[0]
            if kind == "call":
                return l
            rv = x["rv"]
            if rv["k"] in ("ref", "rawptr"):
                l = rv["place"]["l"]
            elif rv["k"] == "use" and self.op_place(rv["op"]) is not None:
                l = self.op_place(rv["op"])["l"]
            else:
                return l
        return l

    def field_root(self, op, field):
        """if operand is (a ref to) X.field, return root local of X."""
        pl = self.op_place(op)
        if pl is None:
            return None
        l = pl["l"]
        for _ in range(30):
            ds = self.full_defs(l)
            if len(ds) != 1 or ds[0][0] != "assign":
                return None
            rv = ds[0][3]["rv"]
            if rv["k"] in ("ref", "rawptr"):
                p = rv["place"]
            elif rv["k"] == "use" and self.op_place(rv["op"]) is not None:
                p = self.op_place(rv["op"])
            else:
                return None
            names = self._proj_names(p["p"])
            if names and names[-1] == field:
                return self.ref_root({"l": p["l"], "p": []})
            if names:
                return None
            l = p["l"]
        return None

    def call_result_origin(self, l):
        """for a local holding (the Ok/Some payload of) a call result: (callee, [param index of each arg root or None])."""
        roots = self.trace(l)
        for r in roots:
            if r[0] == "call":
                t = self.term(r[2])
                args = []
                for a in t["args"]:
                    rr = self.trace(a)
                    args.append(rr[0][1] if rr and rr[0][0] == "param" else None)
                return (r[1], args)
        return None

    def switch_on_local(self, l, start):
        """the first switch terminator at/after block `start` (following gotos) whose discriminant is local l (or a copy of it)."""
        b = start
        for _ in range(10):
            t = self.term(b)
            if t["k"] == "switch":
                pl = self.op_place(t["discr"])
                if pl is not None:
                    if pl["l"] == l:
                        return b, t
                    # copy of l
                    for kind, bi, si, x in self.full_defs(pl["l"]):
                        if kind == "assign" and x["rv"]["k"] == "use" and (self.op_place(x["rv"]["op"]) or {}).get("l") == l:
                            return b, t
                return None
            if t["k"] == "goto":
                b = t["t"]
                continue
            return None
        return None


def all_fns(crate):
    for name, f in crate.mir.items():
        yield name, f


def callers_of(crates, pred):
    """{caller: [bb,...]} over the given crates for calls whose declared or resolved callee satisfies pred."""
    out = {}
    for cr in crates:
        for name, f in cr.mir.items():
            for bi, b in enumerate(f["blocks"]):
                t = b["t"]
                if t["k"] == "call" and "fn" in t["func"]:
                    d = t["func"]["fn"]["def"]
                    r = t["func"]["fn"].get("res", d)
                    if pred(d) or pred(r):
                        out.setdefault(name, []).append(bi)
    return out


class CallGraph:
    """Whole-workspace call graph over resolved callees. A call whose generic arguments mention a closure (or fn item)
    gets an edge to that closure too: the callee may invoke it (this is how iterator adapters and sort_by are seen)."""

    def __init__(self, crates):
        self.fns = {}
        for cr in crates:
            for name, f in cr.mir.items():
                self.fns[name] = f
        self.out = {}
        self.sites = {}
        for name, f in self.fns.items():
            es = set()
            for bi, b in enumerate(f["blocks"]):
                t = b["t"]
                if t["k"] != "call":
                    continue
                fn = t["func"].get("fn")
                if fn is None:
                    # indirect call through a local: closure types show up in the operand type
                    continue
                d = fn["def"]
                r = fn.get("res", d)
                es.add(r)
                es.add(d)
                self.sites.setdefault((name, r), []).append(bi)
                for c in fn.get("closures", []):
                    es.add(c[3:] if c.startswith("fn:") else c)
            # closures created in this body are reachable from it
            for b in f["blocks"]:
                for s in b["s"]:
                    if s["k"] == "assign" and s["rv"]["k"] == "agg" and s["rv"].get("kind") == "closure":
                        es.add(s["rv"]["closure"])
            self.out[name] = es

    def reaching(self, pred):
        """names of functions from which a function satisfying pred is reachable (including those functions)"""
        targets = {n for n in self.fns if pred(n)}
        # also external targets (not in self.fns): callers that call them directly
        rev = {}
        for a, bs in self.out.items():
            for b in bs:
                rev.setdefault(b, set()).add(a)
        ext = {b for b in rev if b not in self.fns and pred(b)}
        seen = set(targets) | ext
        st = list(seen)
        while st:
            x = st.pop()
            for a in rev.get(x, ()):
                if a not in seen:
                    seen.add(a)
                    st.append(a)
        return seen

    def callers(self, pred):
        out = {}
        for a, bs in self.out.items():
            for b in bs:
                if pred(b):
                    out.setdefault(a, set()).add(b)
        return out

    def reachable_from(self, roots):
        seen = set(roots)
        st = list(roots)
        while st:
            x = st.pop()
            for b in self.out.get(x, ()):
                if b not in seen:
                    seen.add(b)
                    st.append(b)
        return seen


class _Regions(dict):
    """variant -> blocks; .explicit = the variants that have a switch target of their own (the others share the wildcard arm)"""
    explicit = frozenset()


def variant_regions(fn, enum_path, root_param=None):
    """For the outermost `match` on a value of enum `enum_path` in fn: {variant name: set of blocks dominated by the
    variant's switch target}. Or-patterns share a target and therefore a region. Returns (regions, switch_block)."""
    best = None
    for bi in fn.rpo():
        b = fn.blocks[bi]
        if b.get("cleanup"):
            continue
        t = b["t"]
        if t["k"] != "switch":
            continue
        pl = fn.op_place(t["discr"])
        if pl is None:
            continue
        for kind, dbi, si, x in fn.full_defs(pl["l"]):
            if kind == "assign" and x["rv"]["k"] == "discr" and x["rv"].get("enum") == enum_path:
                if root_param is not None:
                    roots = fn.trace(x["rv"]["place"])
                    if not any(r[0] == "param" and r[1] == root_param for r in roots):
                        continue
                best = (bi, t, x["rv"])
                break
        if best:
            break
    if best is None:
        raise CheckerError("no match on %s found in %s" % (enum_path, fn.name))
    bi, t, rv = best
    names = {v: n for v, n in rv["variants"]}
    regions = _Regions()
    regions.explicit = {names.get(v, v) for v, _ in t["targets"]}
    for val, tgt in t["targets"]:
        nm = names.get(val, val)
        regions[nm] = fn.edge_dominated(bi, tgt) if len(fn.pred(tgt)) > 1 else fn.dominated_by(tgt)
    covered = {v for v, _ in t["targets"]}
    rest = [n for v, n in rv["variants"] if v not in covered]
    if rest:
        reg = fn.dominated_by(t["otherwise"]) if len(fn.pred(t["otherwise"])) == 1 else fn.edge_dominated(bi, t["otherwise"])
        for n in rest:
            regions[n] = reg
    return regions, bi


def region_of(regions, block):
    """variant names whose region contains block"""
    return sorted(n for n, r in regions.items() if block in r)


def guard_liveness(fn, guard_kind):
    """Forward may-analysis of RAII guards. guard_kind(callee, argtys, dest_ty) -> 'shared' | 'mut' | None for a call that
    creates a guard in its destination local. Returns {block: set of (local, kind, def_block) live at the block's terminator}.
    A guard dies at Drop(local), StorageDead(local), or when it is moved into a call (mem::drop). References to a guard
    (`let g = &heap.borrow()`) keep the temporary alive: the temporary's own storage decides."""
    gen = {}
    for b in range(fn.n):
        t = fn.term(b)
        if t["k"] == "call" and not fn.blocks[b].get("cleanup"):
            d, r = fn_of(t)
            if d is None:
                continue
            dest = t["dest"]
            if dest["p"]:
                continue
            k = guard_kind(r, t["argtys"], fn.f["locals"][dest["l"]]["ty"])
            if k:
                gen[b] = (dest["l"], k, b)
    # live-out of a call block b (on its normal edge) includes gen[b]
    IN = {b: set() for b in range(fn.n)}
    order = fn.rpo()
    changed = True

    def transfer_stmts(b, live):
        live = set(live)
        for s in fn.stmts(b):
            if s["k"] == "dead":
                live = {g for g in live if g[0] != s["l"]}
            elif s["k"] == "assign" and s["rv"]["k"] == "use" and "move" in s["rv"]["op"]:
                # moving a guard into another local: follow it
                src = s["rv"]["op"]["move"]
                if not src["p"] and not s["lhs"]["p"]:
                    moved = {g for g in live if g[0] == src["l"]}
                    if moved:
                        live = {g for g in live if g[0] != src["l"]} | {(s["lhs"]["l"], g[1], g[2]) for g in moved}
        return live

    OUT_AT_TERM = {}
    while changed:
        changed = False
        for b in order:
            live = transfer_stmts(b, IN[b])
            OUT_AT_TERM[b] = live
            t = fn.term(b)
            out = set(live)
            if t["k"] == "drop" and not t["place"]["p"]:
                out = {g for g in out if g[0] != t["place"]["l"]}
            if t["k"] == "call":
                # guards moved into the call are consumed (drop(guard))
                for a in t["args"]:
                    if "move" in a and not a["move"]["p"]:
                        out = {g for g in out if g[0] != a["move"]["l"]}
                if b in gen:
                    out = out | {gen[b]}
            for s in fn.succ(b):
                if not out <= IN[s]:
                    IN[s] |= out
                    changed = True
    return OUT_AT_TERM, gen


class BuiltinArms:
    """BuiltInFunction::call and the private per-category helpers it may delegate to (`Self::A | Self::B => self.call_math(..)`):
    every member has its own match on self; a variant's arm is looked up in the member that handles it last (the helper), and
    results are reported under the canonical name BuiltInFunction::call so that keys do not depend on the split."""
    BCALL = "blots_core::functions::BuiltInFunction::call"
    ENUM = "blots_core::functions::BuiltInFunction"
    API = {"call", "arity", "name", "from_ident", "all", "all_names", "is_built_in_function"}

    def __init__(self, core, cg):
        self.members = {}
        names = [self.BCALL] + sorted(c for c in cg.out.get(self.BCALL, ()) if c.startswith(self.ENUM + "::") and c != self.BCALL and c.split("::")[-1] not in self.API and "{closure" not in c)
        for n in names:
            if n not in cg.fns:
                continue
            fn = Fn(cg.fns[n], n)
            try:
                regions, _ = variant_regions(fn, self.ENUM, root_param=1)
            except CheckerError:
                if n == self.BCALL:
                    raise
                continue
            self.members[n] = (fn, regions)

    def canonical(self, name):
        base = name.split("::{closure")[0]
        return self.BCALL + name[len(base):] if base in self.members else name

    def arm(self, name, block):
        m = self.members.get(name)
        if not m:
            return []
        ex = getattr(m[1], "explicit", None)
        return [v for v in region_of(m[1], block) if ex is None or v in ex or name == self.BCALL]

    def region(self, variant):
        """(Fn, blocks) of the arm that really handles the variant: a helper's arm if call() only delegates"""
        best = None
        for n, (fn, regions) in self.members.items():
            if variant in regions and (variant in getattr(regions, "explicit", ()) or n == self.BCALL):
                if best is None or n != self.BCALL:
                    best = (fn, regions[variant])
        return best


def follow_returns(cg, roots, keep=lambda callee: False, depth=2):
    """replace each ('call', f, ..) root whose callee is a function of the analysed crates (and not one of the `keep` primitives) by
    the roots of what f returns: a value built by a private helper is judged by what the helper builds"""
    out = []
    for r in roots:
        if r[0] == "call" and depth > 0 and r[1] in cg.fns and not keep(r[1]):
            f2 = Fn(cg.fns[r[1]], r[1])
            sub = f2.trace(0)
            # parameters of the helper are not resolved back to the caller's arguments: they stay ('param', ..) of the helper
            out += [("helper-param", r[1]) + tuple(x[1:]) if x[0] == "param" else x for x in follow_returns(cg, sub, keep, depth - 1)]
        else:
            out.append(r)
    return out
