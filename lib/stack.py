"""Engine D: machine-level stack budget facts. Builds blots-core's release object with -Z emit-stack-sizes (nightly),
reads per-function frame sizes (llvm-readobj --stack-sizes) and direct call edges (llvm-objdump -d -r) and stores them
as stack.json in the facts directory. Nothing is executed."""
import glob, json, os, re, subprocess
from lib import facts as F


def tool(name):
    return os.path.join(F.sysroot(), "lib/rustlib/x86_64-unknown-linux-gnu/bin", name)


def build(repo, outdir, log):
    tdir = os.path.join(F.CACHE, "target-stack")
    os.makedirs(tdir, exist_ok=True)
    for fp in glob.glob(os.path.join(tdir, "release", ".fingerprint", "blots*")):
        import shutil
        shutil.rmtree(fp, ignore_errors=True)
    for o in glob.glob(os.path.join(tdir, "release", "deps", "blots_core-*.o")):
        os.remove(o)
    env = F._env({"RUSTFLAGS": "-Z emit-stack-sizes", "CARGO_TARGET_DIR": tdir})
    rc = F._run(["cargo", "+nightly", "rustc", "--release", "--offline", "-p", "blots-core", "--lib", "--", "--emit=obj"], repo, env, log)
    if rc != 0:
        raise F.CheckerError("release build with -Z emit-stack-sizes failed, see %s" % log)
    objs = glob.glob(os.path.join(tdir, "release", "deps", "blots_core-*.o"))
    if len(objs) != 1:
        raise F.CheckerError("expected one blots_core object, found %d" % len(objs))
    obj = objs[0]
    def stack_sizes(demangle):
        cmd = [tool("llvm-readobj"), "--stack-sizes"] + (["--demangle"] if demangle else []) + [obj]
        ss = subprocess.run(cmd, capture_output=True, text=True)
        if ss.returncode != 0:
            raise F.CheckerError("llvm-readobj failed: " + ss.stderr[:300])
        out = []
        cur = None
        for line in ss.stdout.splitlines():
            m = re.match(r"\s*Functions: \[(.*)\]", line)
            if m:
                cur = m.group(1)
            m = re.match(r"\s*Size: (0x[0-9A-Fa-f]+|\d+)", line)
            if m and cur is not None:
                out.append((cur, int(m.group(1), 0)))
                cur = None
        return out

    raw = stack_sizes(False)
    dem = stack_sizes(True)
    if len(raw) != len(dem):
        raise F.CheckerError("stack-size listings differ in length (%d vs %d)" % (len(raw), len(dem)))
    name_of = {r[0]: d[0] for r, d in zip(raw, dem)}
    sizes = {name_of[r[0]]: r[1] for r in raw}
    dis = subprocess.run([tool("llvm-objdump"), "-d", "-r", "--no-show-raw-insn", obj], capture_output=True, text=True)
    if dis.returncode != 0:
        raise F.CheckerError("llvm-objdump failed: " + dis.stderr[:300])

    def canon(sym):
        sym = sym.strip()
        for pre in (".text.unlikely.", ".text.hot.", ".text."):
            if sym.startswith(pre):
                sym = sym[len(pre):]
        return name_of.get(sym, sym)

    edges = {}
    tails = {}
    indirect = {}
    cur = None
    pending_call = False
    for line in dis.stdout.splitlines():
        m = re.match(r"^[0-9a-f]+ <(.+)>:$", line)
        if m:
            cur = canon(m.group(1))
            edges.setdefault(cur, set())
            pending_call = False
            continue
        if cur is None:
            continue
        if re.search(r"\b(callq?|jmpq?)\b", line):
            is_jmp = bool(re.search(r"\bjmpq?\b", line))
            if re.search(r"\b(callq?|jmpq?)\s+\*", line):
                pending_call = "ind-jmp" if is_jmp else "ind"
            elif re.search(r"\bjmpq?\s+0x[0-9a-f]+ <[^>]*\+0x[0-9a-f]+>", line):
                pending_call = False  # intra-function jump
            else:
                pending_call = "jmp" if is_jmp else "dir"
            continue
        m = re.search(r"R_X86_64_(PLT32|PC32|GOTPCREL|GOTPCRELX|REX_GOTPCRELX)\s+(\S+?)([-+]0x[0-9a-f]+)?$", line)
        if m and pending_call:
            tgt = canon(m.group(2))
            if pending_call in ("jmp", "ind-jmp"):
                tails.setdefault(cur, set()).add(tgt)  # tail call: the caller's frame is released first
            else:
                edges[cur].add(tgt)
            pending_call = False
            continue
        if pending_call in ("ind", "ind-jmp") and "R_X86_64" not in line:
            indirect[cur] = indirect.get(cur, 0) + 1
            pending_call = False
        elif pending_call and "R_X86_64" not in line:
            pending_call = False
    out = {"sizes": sizes, "edges": {k: sorted(v) for k, v in edges.items()}, "tail_edges": {k: sorted(v) for k, v in tails.items()}, "indirect_calls": indirect, "object": os.path.basename(obj)}
    with open(os.path.join(outdir, "stack.json"), "w") as f:
        json.dump(out, f)
