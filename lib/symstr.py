"""Abstract interpretation of string-building code (HIR): computes, for a printer function or match arm, the set of
symbolic output sequences it can return. Items: ('lit', text) | ('child', path, printer) | ('ident', path, tag) |
('ws',) | ('loop', path, items, sep) | ('opt', path, items) | ('unk', why).  Paths are tuples of field names rooted at a
pattern-bound variable or parameter."""
from lib import hir as H
kind_ = H.kind
import re as _re0
AST_ARG = _re0.compile(r"blots_core::(ast::|values::SerializableValue|values::LambdaArg|values::SerializableLambdaDef|heap::)")

MAX_PATHS = 64
PASS_THROUGH = {"to_string", "clone", "as_str", "to_owned", "into", "as_ref", "borrow", "deref", "to_lowercase_not"}


class Val:
    """symbolic value of a local"""

    def __init__(self, kind, data):
        self.kind = kind  # 'str' (list of alternative sequences) | 'list' (path, elem alternatives) | 'expr' (hir node, env) | 'path' (tuple)
        self.data = data


class Interp:
    def __init__(self, crate, printers, templates):
        self.crate = crate
        self.printers = printers  # set of def paths that print an AST node / value to text
        self.templates = templates  # fn(macro node) -> [template dicts]
        # helpers recognised by what they are, not by their names:
        #  - indentation: a function from integers to a String (make_indent)
        #  - record-key quoting: a printer from a &str to a String (format_record_key)
        self.ws_fns, self.key_fns = set(), set()
        for d, f in getattr(crate, "hir", {}).items():
            if not (d.startswith("blots_core::formatter::") or d.startswith("blots_core::ast_to_source::")) or f.get("output") != "alloc::string::String":
                continue
            inp = f.get("inputs", [])
            if inp and all(t in ("usize", "u32", "u8", "i32", "u16") for t in inp):
                self.ws_fns.add(d)
            if inp == ["&str"] and d in printers and any(kind_(x) == "Call" and H.last(x.get("def") or "").startswith("is_valid") for x in H.walk(f.get("body") or {})):
                self.key_fns.add(d)
        if not self.key_fns:
            self.key_fns = {d for d in printers if H.last(d) == "format_record_key"}

    def is_fragment(self, d, hf):
        """a helper that prints part of a construct (several children of one node, or a keyword and a child) rather than dispatching
        on the node kind: its body is interpreted in place of the call"""
        c = self.__dict__.setdefault("_frag", {})
        if d in getattr(self, "variant_helpers", ()):
            return False   # prints one whole node handed over field by field (format_conditional_multiline): a child printer
        if d not in c:
            big = any(len(m["arms"]) >= 5 for m in H.matches_on(hf.get("body") or {}, "ast::Expr")) or any(len(m["arms"]) >= 5 for m in H.matches_on(hf.get("body") or {}, "values::SerializableValue"))
            nodes = sum(1 for t in hf.get("inputs", []) if "ast::Spanned<blots_core::ast::Expr>" in t or t.lstrip("&").startswith("blots_core::ast::Expr"))
            body_ = hf.get("body") or {}
            hirs = getattr(self.crate, "hir", {})
            wraps_general = sum(1 for x in H.walk(body_) if H.kind(x) in ("Call", "MethodCall")) <= 12 and any(
                H.kind(x) == "Call" and (x.get("def") or "") in self.printers and (x.get("def") or "") in hirs and
                any(len(m["arms"]) >= 5 for m in H.matches_on(hirs[x["def"]].get("body") or {}, "ast::Expr")) for x in H.walk(body_))
            big = big or wraps_general
            # a `matches!(node, Kind)` test (two arms, boolean literals) is a condition, not a dispatch on the node kind
            def is_test(m_):
                return len(m_["arms"]) == 2 and all(H.kind(H.strip(a_["body"])) == "Lit" and H.strip(a_["body"]).get("lk") == "bool" for a_ in m_["arms"])
            dispatches = any(not is_test(m_) for m_ in H.matches_on(body_, "ast::Expr"))
            c[d] = (not big) and (nodes >= 2 or (nodes == 1 and not dispatches)) and hf.get("output") == "alloc::string::String" and "&mut alloc::string::String" not in " ".join(hf.get("inputs", []))
        return c[d]

    # ---- paths
    def path_of(self, n, env):
        """access path of an expression that denotes (part of) the node being printed, else None"""
        n = H.strip(n)
        k = H.kind(n)
        if k == "Path":
            l = n["res"].get("local")
            if l is None:
                return None
            v = env.get(l)
            if isinstance(v, Val) and v.kind == "path":
                return v.data
            return None
        if k == "Field":
            p = self.path_of(n["e"], env)
            return None if p is None else p + (n["name"],)
        if k == "Index":
            p = self.path_of(n["e"], env)
            i = H.lit(n["i"])
            return None if p is None else p + ("[%s]" % (i["v"] if i else "?"),)
        if k == "MethodCall" and n["name"] in ("as_ref", "deref", "as_deref", "clone", "borrow", "iter", "get_name", "name"):
            p = self.path_of(n["recv"], env)
            if p is None:
                return None
            return p + ("%s()" % n["name"],) if n["name"] in ("get_name", "name") else p
        return None

    # ---- strings
    def seqs(self, n, env):
        """list of alternative sequences (each a tuple of items) for a string-valued expression"""
        n0 = n
        n = H.strip(n)
        k = H.kind(n)
        if k == "Lit" and n["lk"] in ("str", "char"):
            return [(("lit", n["v"]),)]
        if k == "Path":
            l = n["res"].get("local")
            if l is not None:
                v = env.get(l)
                if isinstance(v, Val):
                    if v.kind == "str":
                        return v.data
                    if v.kind == "path":
                        return [(("ident", v.data, ""),)]
                    if v.kind == "expr":
                        return self.seqs(v.data[0], v.data[1])
                return [(("unk", "local %s" % l),)]
            return [(("unk", "path"),)]
        if k == "Field":
            p = self.path_of(n, env)
            return [(("ident", p, ""),)] if p is not None else [(("unk", "field"),)]
        if k == "Index":
            lv = self.listval(n["e"], env)
            if lv is not None:
                return list(lv[1])
            p = self.path_of(n, env)
            return [(("ident", p, ""),)] if p is not None else [(("unk", "index"),)]
        if k == "Macro" and n["name"] in ("format", "format_args", "write", "writeln"):
            ts = self.templates(n)
            if not ts:
                return [(("unk", "macro without template"),)]
            t = ts[0]
            byspan = {}
            for a in n.get("args", []):
                s = a.get("sp")
                if s:
                    byspan[(s[3], s[4])] = a
            alts = [()]
            for p in t["pieces"]:
                if "lit" in p:
                    alts = [x + (("lit", p["lit"]),) for x in alts]
                else:
                    node = None
                    if p.get("arg") is not None and p["arg"] < len(t["args"]):
                        asp = t["args"][p["arg"]]
                        node = byspan.get((asp[3], asp[4]))
                    sub = self.seqs(node, env) if node is not None else [(("unk", "placeholder"),)]
                    alts = self.cross(alts, sub)
            return alts
        if k == "Call":
            d = n.get("def") or ""
            if H.last(d) in ("make_indent",) or d in self.ws_fns:
                return [(("ws",),)]
            hf_ = getattr(self.crate, "hir", {}).get(d)
            if d in self.printers and hf_ is not None and hf_.get("inputs") and (not AST_ARG.search(hf_["inputs"][0]) or self.is_fragment(d, hf_)) and d not in self.key_fns:
                # a text helper of the printer modules (takes strings / flags, not an AST node): interpret its body with the
                # parameters bound to the arguments; anything it does that is not modelled shows up as `unk`
                depth_ = getattr(self, "_depth", 0)
                if depth_ < 3 and hf_.get("output") == "alloc::string::String" and hf_.get("body") is not None and len(hf_.get("params", [])) == len(n["args"]):
                    env2 = {}
                    for p_, a_, t_ in zip(hf_["params"], n["args"], hf_["inputs"]):
                        bn = H.pat_binds(p_)
                        if len(bn) != 1:
                            continue
                        if t_.lstrip("&").startswith(("alloc::string::String", "str")):
                            env2[bn[0]] = Val("str", self.seqs(a_, env))
                        else:
                            pp = self.path_of(a_, env)
                            env2[bn[0]] = Val("path", pp) if pp is not None else Val("expr", (a_, dict(env)))
                    self._depth = depth_ + 1
                    saved = getattr(self, "returns", [])
                    self.returns = []
                    try:
                        out_ = self.returns + self.block_value(hf_["body"], env2)
                        out_ = (self.returns + out_)[:MAX_PATHS] if False else out_
                    finally:
                        self._depth = depth_
                        self.returns = saved
                    return out_[:MAX_PATHS] or [(("unk", "helper %s" % H.last(d)),)]
                return [(("unk", "text helper %s" % H.last(d)),)]
            if d in self.printers:
                p = self.path_of(n["args"][0], env) if n["args"] else None
                tag = H.last(d)
                if p is not None:
                    if tag in ("format_record_key",) or d in self.key_fns:
                        return [(("ident", p, "record-key"),)]
                    return [(("child", p, tag),)]
                if d in self.key_fns:
                    return [(("unk", "record key from an expression that is not a field of the node"),)]
                # printing a value that is not part of the node (e.g. a captured value)
                return [(("child", ("<value>",), tag),)]
            if H.last(d) in ("make_indent",):
                return [(("ws",),)]
            if H.last(d) in ("from", "to_string", "new") and n["args"]:
                return self.seqs(n["args"][0], env)
            if H.last(d) == "new" and not n["args"]:
                return [()]
            return [(("unk", "call %s" % H.last(d)),)]
        if k == "MethodCall":
            nm = n["name"]
            d_ = n.get("def") or ""
            hm_ = getattr(self.crate, "hir", {}).get(d_)
            if d_ in self.printers and hm_ is not None and n.get("args") and len(hm_.get("inputs", [])) >= 2 and AST_ARG.search(hm_["inputs"][1]) and "String" not in (hm_["inputs"][1]):
                # a printer written as a method (`self.expr(child)`): the receiver carries state, the first argument is the node
                p = self.path_of(n["args"][0], env)
                if p is not None:
                    if d_ in self.key_fns:
                        return [(("ident", p, "record-key"),)]
                    return [(("child", p, d_),)]
            if nm in PASS_THROUGH:
                return self.seqs(n["recv"], env)
            if nm == "join":
                rv = self.listval(n["recv"], env)
                sep = self.seqs(n["args"][0], env) if n["args"] else [()]
                septxt = "".join(i[1] for i in sep[0] if i[0] == "lit") if sep else ""
                if rv is not None:
                    return [(("loop", rv[0], tuple(rv[1]), septxt),)]
                return [(("unk", "join of unknown list"),)]
            if nm == "repeat":
                return [(("ws",),)]
            if nm in ("replace", "replacen"):
                return [tuple(("rewritten",) + it[1:] if it[0] == "ident" else it for it in s) for s in self.seqs(n["recv"], env)]
            if nm in ("name", "get_name"):
                p = self.path_of(n, env)
                return [(("ident", p, ""),)] if p is not None else [(("unk", nm),)]
            if nm in ("unwrap_or", "unwrap_or_default", "unwrap"):
                return self.seqs(n["recv"], env)
            if nm in ("next", "lines", "skip", "collect"):
                return self.seqs(n["recv"], env)
            return [(("unk", "method %s" % nm),)]
        if k == "If":
            out = []
            c = n["cond"]
            e_then = dict(env)
            cs = H.strip(c)
            if H.kind(cs) == "LetExpr":
                self.bind_pat(cs["pat"], cs["init"], e_then, env)
            for s in self.block_value(n["then"], e_then):
                out.append((("when", self.desc(c, env), True, self.cond_facts(c, env, True)),) + s)
            if n.get("else") is not None:
                for s in self.block_value(n["else"], env):
                    out.append((("when", self.desc(c, env), False, self.cond_facts(c, env, False)),) + s)
            return out[:MAX_PATHS]
        if k == "Match":
            out = []
            for a in n["arms"]:
                e2 = dict(env)
                self.bind_pat(a["pat"], n["scrut"], e2, env)
                pd = "|".join(H.last(v) for v in H.pat_variants(a["pat"])) or H.kind(a["pat"])
                for s in self.block_value(a["body"], e2):
                    out.append((("case", self.desc(n["scrut"], env), pd),) + s)
            return out[:MAX_PATHS]
        if k == "Block":
            return self.block_value(n, env)
        if k == "Ret":
            return [(("unk", "return"),)]
        return [(("unk", k),)]

    def cond_facts(self, c, env, pol):
        """what is certain about the kinds of AST parts once condition c evaluated to pol: (('kind', path, 'A|B', is), ...)
        (conjuncts of a true `&&`, disjuncts of a false `||`, through `!`)"""
        c = H.strip(c)
        k = H.kind(c)
        if k == "Unary" and c.get("op") == "Not":
            return self.cond_facts(c["e"], env, not pol)
        if k == "Binary" and c.get("op") in ("And", "Or"):
            if (c["op"] == "And") == pol:
                return self.cond_facts(c["l"], env, pol) + self.cond_facts(c["r"], env, pol)
            return ()
        if k == "Match" and len(c["arms"]) == 2 and all(H.kind(H.strip(a_["body"])) == "Lit" and H.strip(a_["body"]).get("lk") == "bool" for a_ in c["arms"]):
            yes_ = [a_ for a_ in c["arms"] if H.strip(a_["body"]).get("v") in (True, "true")]
            if len(yes_) == 1 and yes_[0].get("guard") is None and H.kind(c["arms"][-1]["pat"]) == "Wild":
                vs_ = sorted(H.last(v) for v in H.pat_variants(yes_[0]["pat"]))
                p = self.path_of(c["scrut"], env)
                if vs_ and p is not None:
                    return (("kind", p, "|".join(vs_), pol),)
            return ()
        if k == "LetExpr":
            vs_ = sorted(H.last(v) for v in H.pat_variants(c["pat"]))
            p = self.path_of(c["init"], env)
            if vs_ and p is not None:
                return (("kind", p, "|".join(vs_), pol),)
            return ()
        if k == "Path" and c["res"].get("local") is not None:
            v = env.get(c["res"]["local"])
            if isinstance(v, Val) and v.kind == "expr":
                return self.cond_facts(v.data[0], v.data[1], pol)
        return ()

    def desc(self, n, env):
        """short description of a condition: which paths' kinds / helper calls it inspects"""
        parts = []
        for x in H.walk(n):
            if H.kind(x) == "Call" and (x.get("def") or "").endswith("needs_parens_in_binop"):
                p = self.path_of(x["args"][1], env)
                parts.append(("needs_parens_in_binop", p))
            if H.kind(x) == "MethodCall" and x["name"] in ("has_comments", "is_empty", "contains", "is_some", "is_none", "len"):
                parts.append((x["name"], self.path_of(x["recv"], env)))
            if H.kind(x) == "Field":
                p = self.path_of(x, env)
                if p is not None:
                    parts.append(("path", p))
            if H.kind(x) == "Match" and len(x["arms"]) == 2 and all(H.kind(H.strip(a_["body"])) == "Lit" and H.strip(a_["body"]).get("lk") == "bool" for a_ in x["arms"]):
                # `matches!(e, V(..) | W(..))`: a test on the kind of e
                yes_ = [a_ for a_ in x["arms"] if H.strip(a_["body"]).get("v") in (True, "true")]
                if len(yes_) == 1 and yes_[0].get("guard") is None:
                    vs_ = sorted(H.last(v) for v in H.pat_variants(yes_[0]["pat"]))
                    p = self.path_of(x["scrut"], env)
                    if vs_ and p is not None:
                        parts.append(("kind", p, "|".join(vs_)))
            if H.kind(x) == "LetExpr":
                vs_ = sorted(H.last(v) for v in H.pat_variants(x["pat"]))
                p = self.path_of(x["init"], env)
                if vs_ and p is not None:
                    parts.append(("kind", p, "|".join(vs_)))
            if H.kind(x) == "Path" and x["res"].get("local") is not None:
                v = env.get(x["res"]["local"])
                if isinstance(v, Val) and v.kind == "expr":
                    parts += list(self.desc(v.data[0], v.data[1]))
                elif isinstance(v, Val) and v.kind == "path":
                    parts.append(("path", v.data))
                elif v is None:
                    parts.append(("local", x["res"]["local"]))
        seen, out = set(), []
        for p in parts:
            if p not in seen:
                seen.add(p)
                out.append(p)
        return tuple(out)

    @staticmethod
    def cross(alts, sub):
        out = []
        for a in alts:
            for s in sub:
                out.append(a + tuple(s))
                if len(out) >= MAX_PATHS:
                    return out
        return out

    def listval(self, n, env):
        """(path of the collection, element alternatives) for a Vec<String> valued expression"""
        n = H.strip(n)
        if H.kind(n) == "Path":
            v = env.get(n["res"].get("local"))
            if isinstance(v, Val) and v.kind == "list":
                return v.data
            return None
        if H.kind(n) == "MethodCall" and n["name"] == "collect":
            return self.listval(n["recv"], env)
        if H.kind(n) == "MethodCall" and n["name"] == "map":
            src = self.path_of(n["recv"], env)
            f = H.strip(n["args"][0])
            if src is None:
                return None
            if H.kind(f) == "Closure":
                e2 = dict(env)
                for p in f["params"]:
                    for bn in H.pat_binds(p):
                        e2[bn] = Val("path", src + ("[]",))
                return (src, self.block_value(f["body"], e2))
            if H.kind(f) == "Path":
                d = f["res"].get("def")
                if d in self.printers:
                    return (src, [(("child", src + ("[]",), H.last(d)),)])
            return None
        return None

    def bind_pat(self, pat, scrut, env_new, env_scrut):
        base = self.path_of(scrut, env_scrut)
        k = H.kind(pat)
        while k == "Ref":
            pat = pat["pat"]
            k = H.kind(pat)
        if base is None and H.kind(H.strip(scrut)) == "Tup" and k == "Tuple":
            for p, e in zip(pat["pats"], H.strip(scrut)["es"]):
                self.bind_pat(p, e, env_new, env_scrut)
            return
        if k == "Bind":
            if base is not None:
                env_new[pat["name"]] = Val("path", base)
            return
        if k in ("TupleStruct", "Struct"):
            subs = [(str(i), p) for i, p in enumerate(pat.get("pats", []))] or [(f["name"], f["pat"]) for f in pat.get("fields", [])]
            for fname, p in subs:
                pk = H.kind(p)
                while pk == "Ref":
                    p = p["pat"]
                    pk = H.kind(p)
                if pk == "Bind":
                    env_new[p["name"]] = Val("path", (base or ()) + ((fname,) if not fname.isdigit() or len(subs) > 1 else ((fname,) if False else ())) if base is not None else (p["name"],))
                elif pk in ("TupleStruct", "Struct"):
                    # nested: keep names rooted at themselves
                    for bn in H.pat_binds(p):
                        env_new[bn] = Val("path", (bn,))
        elif k == "Or":
            for p in pat["pats"]:
                self.bind_pat(p, scrut, env_new, env_scrut)
        elif k == "Slice" and base is not None:
            # `[single]` / `[first, rest @ ..]` over a list of the node: positional members
            for i_, p in enumerate(pat.get("before") or pat.get("pats") or []):
                while H.kind(p) == "Ref":
                    p = p["pat"]
                if H.kind(p) == "Bind" and p.get("sub") is None:
                    env_new[p["name"]] = Val("path", base + ("[%d]" % i_,))

    # ---- blocks with accumulators
    def block_value(self, n, env):
        """alternative sequences produced as the value of a block-like expression (handles accumulators and early returns);
        early returns are collected in self.returns"""
        n = H.strip(n) if H.kind(n) != "Block" else n
        if H.kind(n) != "Block":
            return self.seqs(n, env)
        env = dict(env)
        acc = {}  # accumulator local -> list of alternative sequences
        for s in n["stmts"]:
            if s["k"] == "Let" and s.get("init") is not None:
                self.let(s, env, acc)
            elif s["k"] in ("Expr", "Semi"):
                self.effect(s["e"], env, acc)
        if n.get("expr") is None:
            return [()]
        e = H.strip(n["expr"])
        l = e["res"].get("local") if H.kind(e) == "Path" else None
        if l is not None and l in acc:
            return acc[l]
        # tail may itself contain effects on accumulators (if ... { push })
        return self.seqs_with_acc(n["expr"], env, acc)

    def seqs_with_acc(self, e, env, acc):
        es = H.strip(e)
        if H.kind(es) == "Path" and es["res"].get("local") in acc:
            return acc[es["res"]["local"]]
        # substitute accumulators as str vals
        env2 = dict(env)
        for k_, v in acc.items():
            env2[k_] = Val("str", v)
        return self.seqs(e, env2)

    def let(self, s, env, acc):
        pat = s["pat"]
        init = s["init"]
        ty = pat.get("ty", "") if H.kind(pat) == "Bind" else ""
        if H.kind(pat) == "Bind":
            name = pat["name"]
            if ty.replace("&", "").startswith(("alloc::string::String", "str")):
                env2 = dict(env)
                for k_, v in acc.items():
                    env2[k_] = Val("str", v)
                val = self.seqs(init, env2)
                if "Mut" in pat.get("mode", "") and "No, Mut" in pat.get("mode", ""):
                    acc[name] = val
                    env.pop(name, None)
                else:
                    env[name] = Val("str", val)
                    acc.pop(name, None)
                return
            if ty.startswith("alloc::vec::Vec<alloc::string::String"):
                lv = self.listval(init, env)
                env[name] = Val("list", lv) if lv is not None else Val("expr", (init, dict(env)))
                return
            p = self.path_of(init, env)
            if p is not None:
                env[name] = Val("path", p)
                return
            env[name] = Val("expr", (init, dict(env)))
            return
        if H.kind(pat) == "Tuple":
            i = H.final_expr(init)
            if H.kind(i) == "Tup":
                for p, e in zip(pat["pats"], i["es"]):
                    if H.kind(p) == "Bind":
                        self.let({"pat": p, "init": e}, env, acc)

    def effect(self, e, env, acc):
        e0 = e
        e = H.strip(e) if H.kind(e) != "Block" else e
        k = H.kind(e)
        if k == "MethodCall" and e["name"] in ("push_str", "push") and H.path_local(e["recv"]) in acc:
            name = H.path_local(e["recv"])
            env2 = dict(env)
            sub = self.seqs(e["args"][0], env2)
            acc[name] = self.cross(acc[name], sub)
            return
        if k in ("Call", "MethodCall"):
            touched = [H.path_local(a_) for a_ in ([e.get("recv")] if k == "MethodCall" else []) + list(e.get("args", [])) if a_ is not None and H.path_local(a_) in acc]
            if touched and not (k == "MethodCall" and e["name"] in ("push_str", "push")):
                for name in touched:
                    acc[name] = self.cross(acc[name], [(("unk", "buffer handed to %s" % (e.get("name") or H.last(e.get("def") or "?"))),)])
                return
        if k == "Macro" and e.get("name") in ("write", "writeln") and e.get("args") and H.path_local(e["args"][0]) in acc:
            name = H.path_local(e["args"][0])
            acc[name] = self.cross(acc[name], [(("unk", "write! into the buffer"),)])
            return
        if k == "For":
            src = self.path_of(e["iter"], env)
            it = H.strip(e["iter"])
            while src is None and H.kind(it) == "MethodCall" and it["name"] in ("iter", "enumerate", "into_iter"):
                it = H.strip(it["recv"])
                src = self.path_of(it, env)
            e2 = dict(env)
            binds = H.pat_binds(e["pat"])
            if src is not None and binds:
                e2[binds[-1]] = Val("path", src + ("[]",))
            sub_acc = {k_: [()] for k_ in acc}
            body = e["body"]
            for s in (body["stmts"] if H.kind(body) == "Block" else []):
                if s["k"] == "Let" and s.get("init") is not None:
                    self.let(s, e2, sub_acc)
                elif s["k"] in ("Expr", "Semi"):
                    self.effect(s["e"], e2, sub_acc)
            if H.kind(body) == "Block" and body.get("expr") is not None:
                self.effect(body["expr"], e2, sub_acc)
            for k_ in acc:
                if sub_acc[k_] != [()]:
                    # one loop item whose body alternatives are kept together
                    acc[k_] = [x + (("loop", src, tuple(sub_acc[k_]), None),) for x in acc[k_]]
            return
        if k == "If":
            c = e["cond"]
            cs = H.strip(c)
            e_then = dict(env)
            opt_path = None
            if H.kind(cs) == "LetExpr":
                self.bind_pat(cs["pat"], cs["init"], e_then, env)
                opt_path = self.path_of(cs["init"], env)
            t_acc = {k_: [()] for k_ in acc}
            self.effects_of(e["then"], e_then, t_acc)
            f_acc = {k_: [()] for k_ in acc}
            if e.get("else") is not None:
                self.effects_of(e["else"], env, f_acc)
            for k_ in acc:
                if t_acc[k_] == [()] and f_acc[k_] == [()]:
                    continue
                if opt_path is not None and f_acc[k_] == [()]:
                    acc[k_] = [x + (("opt", opt_path, tuple(t_acc[k_])),) for x in acc[k_]]
                else:
                    d = self.desc(c, env)
                    new = []
                    for x in acc[k_]:
                        for s in t_acc[k_]:
                            new.append(x + (("when", d, True, self.cond_facts(c, env, True)),) + s)
                        for s in f_acc[k_]:
                            new.append(x + (("when", d, False, self.cond_facts(c, env, False)),) + s)
                    acc[k_] = new[:MAX_PATHS]
            return
        if k == "Block":
            self.effects_of(e, env, acc)
            return
        if k == "Ret":
            v = self.seqs_with_acc(e["e"], env, acc) if e.get("e") is not None else [()]
            self.returns = getattr(self, "returns", []) + v
            return

    def effects_of(self, body, env, acc):
        body = H.strip(body) if H.kind(body) != "Block" else body
        if H.kind(body) == "Block":
            env = dict(env)
            for s in body["stmts"]:
                if s["k"] == "Let" and s.get("init") is not None:
                    self.let(s, env, acc)
                elif s["k"] in ("Expr", "Semi"):
                    self.effect(s["e"], env, acc)
            if body.get("expr") is not None:
                self.effect(body["expr"], env, acc)
        else:
            self.effect(body, env, acc)

    # ---- entry points
    def function(self, f):
        """alternatives returned by a whole function: params are roots"""
        env = {}
        for p, t in zip(f["params"], f.get("inputs", [None] * len(f["params"]))):
            for bn in H.pat_binds(p):
                if t == "alloc::string::String":
                    # an owned String parameter of a printer helper: a child that the caller has already rendered
                    env[bn] = Val("str", [(("child", (bn,), "prerendered"),)])
                else:
                    env[bn] = Val("path", (bn,))
        self.returns = []
        tail = self.block_value(f["body"], env)
        return (self.returns + tail)[:MAX_PATHS]

    def arm(self, arm, scrut, fn_env):
        env = dict(fn_env)
        k = H.kind(arm["pat"])
        # bind fields of the variant by their own names
        for x in H.walk(arm["pat"]):
            if H.kind(x) == "Bind":
                env[x["name"]] = Val("path", (x["name"],))
        # struct-variant patterns: root the path at the field name, not at the binder (`Output { expr: inner_expr }`)
        for x in H.walk(arm["pat"]):
            if H.kind(x) == "Struct":
                for fld in x.get("fields", []):
                    q = fld["pat"]
                    while H.kind(q) == "Ref":
                        q = q["pat"]
                    if H.kind(q) == "Bind":
                        env[q["name"]] = Val("path", (fld["name"],))
        self.returns = []
        tail = self.block_value(arm["body"], env)
        return (self.returns + tail)[:MAX_PATHS]


import re as _re
_TOK = _re.compile(r"=>|\.\.\.|[()\[\]{}:,#]|[^\s()\[\]{}:,#]+")


def _toks(buf):
    return [("tok", t) for t in _TOK.findall(buf)]


def flatten(seq):
    """tokens and children of one alternative, in order: ('tok', text) / ('nl',) / ('child', path, printer) / ('ident', path, tag) / ('loop', ...) / ('opt', ...)"""
    out = []
    for it in seq:
        if it[0] == "lit":
            txt = it[1]
            buf = ""
            for ch in txt:
                if ch == "\n":
                    if buf.strip():
                        out += _toks(buf)
                    buf = ""
                    out.append(("nl",))
                else:
                    buf += ch
            if buf.strip():
                out += _toks(buf)
            elif buf and not out or (buf and out and out[-1][0] != "sp"):
                out.append(("sp",))
        elif it[0] in ("when", "case"):
            continue
        else:
            out.append(it)
    return out
