import json, os
from lib import facts as F
from lib.facts import CheckerError

PROPS = {}
with open(os.path.join(F.VERIF, "properties.jsonl")) as _f:
    for _l in _f:
        if _l.strip():
            _p = json.loads(_l)
            PROPS[_p["id"]] = _p


class Crate:
    """Facts of one crate as dumped by blots-facts."""

    def __init__(self, d):
        self.d = d
        self.name = d["crate"]
        self.mir = d["mir"]
        self.hir = d["hir"]
        self.types = d["types"]
        self.statics = d["statics"]
        self.fmt = d["fmt"]

    def mir_fn(self, path):
        if path not in self.mir:
            raise CheckerError("anchor function missing in MIR facts: %s" % path)
        return self.mir[path]

    def hir_fn(self, path, inline=True):
        """HIR of an anchor function; by default with calls of private same-module helpers looked through (lib/hir.inlined_fn)"""
        if path not in self.hir:
            raise CheckerError("anchor function missing in HIR facts: %s" % path)
        if not inline:
            return self.hir[path]
        c = self.__dict__.setdefault("_inl", {})
        if path not in c:
            from lib import hir as H_
            c[path] = H_.inlined_fn(self, path)
        return c[path]

    def find_hir(self, suffix):
        c = [k for k in self.hir if k == suffix or k.endswith("::" + suffix)]
        return c


class Ctx:
    def __init__(self, pid, tier, fdir):
        self.pid = pid
        self.tier = tier
        self.fdir = fdir
        self.instances = []
        self.floors = {}
        self.notes = []
        self.units = {}
        self.rule_doc = {}
        self._crates = {}
        self.not_decided = []
        self.assumptions = []
        self.trusted = []

    # ---- facts
    def crate(self, which, profile="dev"):
        fn = {"core": "blots_core-rlib.json", "cli": "blots-executable.json", "wasm": "blots_wasm-cdylib.json"}[which]
        key = (which, profile)
        if key not in self._crates:
            self._crates[key] = Crate(F.canonicalise(os.path.join(self.fdir, "facts-" + profile))[fn])
            if F.RENAMED and not any(n_.startswith("renamed private functions") for n_ in self.notes):
                self.notes.append("renamed private functions recognised by role and reported under their canonical names: %s" % sorted(F.RENAMED.items()))
            c = self._crates[key]
            self.units["%s(%s).mir_fns" % (c.name, profile)] = len(c.mir)
            self.units["%s(%s).hir_fns" % (c.name, profile)] = len(c.hir)
        return self._crates[key]

    @property
    def core(self):
        return self.crate("core")

    @property
    def cli(self):
        return self.crate("cli")

    @property
    def wasm(self):
        return self.crate("wasm")

    @property
    def grammar(self):
        g = F.load(self.fdir, "grammar.json")
        self.units["grammar_rules"] = len(g["rules"])
        return g

    @property
    def metadata(self):
        return F.load(self.fdir, "metadata.json")

    # ---- recording
    def rule(self, rule, doc, floor=None):
        self.rule_doc[rule] = doc
        if floor is not None:
            self.floors[rule] = floor

    def inst(self, rule, key, ok, detail, loc=None, data=None):
        """ok: True (holds) / False (violated) / None (undecided: counted, never silently passed)."""
        assert rule in self.rule_doc, "undeclared rule " + rule
        self.instances.append({"rule": rule, "key": key, "ok": ok, "detail": detail, "loc": loc, "data": data})

    def note(self, s):
        self.notes.append(s)

    def check_floors(self):
        counts = {}
        for i in self.instances:
            counts[i["rule"]] = counts.get(i["rule"], 0) + 1
        for r, fl in self.floors.items():
            if counts.get(r, 0) < fl:
                raise CheckerError("rule %s matched %d instances, below its floor %d (anchors moved? fail closed)" % (r, counts.get(r, 0), fl))
        for r in self.rule_doc:
            if r not in self.floors and counts.get(r, 0) == 0:
                raise CheckerError("rule %s matched no instance and has no floor" % r)

    def summary(self):
        return {
            "instances": len(self.instances),
            "rules": len(self.rule_doc),
            "ok": sum(1 for i in self.instances if i["ok"] is True),
            "undecided": sum(1 for i in self.instances if i["ok"] is None),
        }

    def evidence(self, seed, wall, violations, known):
        s = self.summary()
        per_rule = {}
        for i in self.instances:
            r = per_rule.setdefault(i["rule"], {"doc": self.rule_doc[i["rule"]], "instances": 0, "hold": 0, "violated": 0, "undecided": 0, "floor": self.floors.get(i["rule"])})
            r["instances"] += 1
            r["hold" if i["ok"] is True else ("violated" if i["ok"] is False else "undecided")] += 1
        samples = []
        seen_rules = {}
        for i in self.instances:
            n = seen_rules.get(i["rule"], 0)
            if n < 3 or i["ok"] is not True:
                samples.append({"rule": i["rule"], "key": i["key"], "verdict": {True: "holds", False: "violated", None: "undecided"}[i["ok"]], "detail": i["detail"][:400], "loc": i["loc"]})
            seen_rules[i["rule"]] = n + 1
        distinct = len({(i["rule"], i["key"]) for i in self.instances})
        p = PROPS.get(self.pid, {})
        expl = ("Static decision of named structural clauses (necessary conditions) of property %s '%s'; "
                "every instance of every rule on this tree was enumerated from compiler/grammar/cargo facts. "
                "This decides the clauses listed under rules, not the behavioural statement itself. Not decided: %s"
                % (self.pid, p.get("title", ""), "; ".join(self.not_decided) or "see DESIGN.md"))
        return {
            "property_id": self.pid,
            "tier": self.tier,
            "seed": seed,
            "level": "other",
            "coverage": {
                "explanation": expl,
                "obligations": s["instances"],
                "discharged": s["ok"],
                "evaluations": s["instances"],
                "distinct_nontrivial": distinct,
                "rule": "one evaluation = one rule instance (a call site, match arm, table row, grammar rule, CFG path query) keyed by construct; distinct = distinct (rule,key) pairs; all are non-trivial in that each is a separate construct of /repo",
                "samples": samples[:60],
                "exhaustive": True,
                "rules": per_rule,
                "units_analysed": self.units,
                "known_findings": known,
                "undecided": s["undecided"],
                "notes": self.notes[:40],
                "trusted_base": self.trusted or ["rustc nightly 1.97 front end (typeck, MIR build, instance resolution)", "pest_meta 2.8.3 grammar parser", "cargo metadata feature resolution"],
            },
            "assumptions": self.assumptions or ["the analysed configuration is the host build with the nightly toolchain (same sources as the pinned 1.89 build)"],
            "wall_s": round(wall, 2),
            "violations": violations,
        }
