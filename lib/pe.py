"""Partial evaluation of small pure functions over an enum, one variant at a time (no value of the program is ever
computed: the function body is specialised for `self = Variant(f0, f1, ..)` with symbolic fields and a symbolic argument,
matches on known constructors are resolved, Option combinators on known Some/None are reduced, and the result is a
formula over comparison atoms).

Terms: ('sym', name) | ('lit', v) | ('bool', b) | ('tup', t..) | ('some', t) | ('none',) | ('variant', V, (t..)) |
       ('cmp', op, a, b) | ('and', a, b) | ('or', a, b) | ('not', a) | ('clos', node, env) | ('?', why)"""
from lib import hir as H

FLIP = {"Lt": "Gt", "Gt": "Lt", "Le": "Ge", "Ge": "Le", "Eq": "Eq", "Ne": "Ne"}
NEG = {"Lt": "Ge", "Gt": "Le", "Le": "Gt", "Ge": "Lt", "Eq": "Ne", "Ne": "Eq"}


def unk(why):
    return ("?", why)


def is_unk(t):
    return isinstance(t, tuple) and t and t[0] == "?"


def has_unk(t):
    if isinstance(t, tuple):
        if t and t[0] == "?":
            return True
        if t and t[0] == "clos":
            return False
        return any(has_unk(x) for x in t)
    return False


def mk_and(a, b):
    if a == ("bool", False) or b == ("bool", False):
        return ("bool", False)
    if a == ("bool", True):
        return b
    if b == ("bool", True):
        return a
    return ("and", a, b)


def mk_or(a, b):
    if a == ("bool", True) or b == ("bool", True):
        return ("bool", True)
    if a == ("bool", False):
        return b
    if b == ("bool", False):
        return a
    return ("or", a, b)


def mk_not(a):
    if a[0] == "bool":
        return ("bool", not a[1])
    if a[0] == "cmp":
        return ("cmp", NEG[a[1]], a[2], a[3])
    if a[0] == "not":
        return a[1]
    if a[0] == "and":
        return mk_or(mk_not(a[1]), mk_not(a[2]))
    if a[0] == "or":
        return mk_and(mk_not(a[1]), mk_not(a[2]))
    return ("not", a)


def mk_cmp(op, a, b):
    if a[0] == "variant" and b[0] == "variant" and not a[2] and not b[2] and op in ("Eq", "Ne"):
        return ("bool", (a[1] == b[1]) == (op == "Eq"))
    if a[0] == "bool" and b[0] == "bool" and op in ("Eq", "Ne"):
        return ("bool", (a[1] == b[1]) == (op == "Eq"))
    if a[0] == "lit" and b[0] == "lit":
        try:
            x, y = int(a[1]), int(b[1])
            return ("bool", {"Lt": x < y, "Gt": x > y, "Le": x <= y, "Ge": x >= y, "Eq": x == y, "Ne": x != y}[op])
        except (ValueError, TypeError):
            pass
    # canonical orientation: the smaller term (by repr) on the left, except that plain symbols named first stay left
    if repr(a) > repr(b):
        a, b, op = b, a, FLIP[op]
    return ("cmp", op, a, b)


class PE:
    def __init__(self, crate, self_ty_prefix, depth_limit=4):
        self.crate = crate
        self.prefix = self_ty_prefix  # e.g. 'blots_core::values::FunctionArity::' - methods of the same impl are looked through
        self.limit = depth_limit

    def bind(self, pat, val, env):
        """bind pattern against a term; returns True (matches), False (cannot match) or None (unknown)"""
        k = H.kind(pat)
        while k == "Ref":
            pat = pat["pat"]
            k = H.kind(pat)
        if k == "Wild":
            return True
        if k == "Bind":
            env[pat["name"]] = val
            if pat.get("sub") is not None:
                return self.bind(pat["sub"], val, env)
            return True
        if k == "Tuple":
            if val[0] != "tup" or len(val) - 1 != len(pat["pats"]):
                return None
            res = True
            for p, v in zip(pat["pats"], val[1:]):
                r = self.bind(p, v, env)
                if r is False:
                    return False
                if r is None:
                    res = None
            return res
        if k in ("TupleStruct", "Struct", "Path"):
            d = (pat.get("res") or {}).get("def") or ""
            v = H.last(d)
            subs = pat.get("pats") or [f["pat"] for f in pat.get("fields", [])]
            if v == "Some":
                if val[0] == "some":
                    return self.bind(subs[0], val[1], env) if subs else True
                return False if val[0] == "none" else None
            if v == "None":
                return True if val[0] == "none" else (False if val[0] == "some" else None)
            if val[0] == "variant":
                if val[1] != v:
                    return False
                res = True
                for p, x in zip(subs, val[2]):
                    r = self.bind(p, x, env)
                    if r is False:
                        return False
                    if r is None:
                        res = None
                return res
            return None
        if k == "Or":
            out = False
            for p in pat["pats"]:
                e2 = dict(env)
                r = self.bind(p, val, e2)
                if r is True:
                    env.update(e2)
                    return True
                if r is None:
                    out = None
            return out
        if k == "Lit":
            l = pat.get("e") or pat
            if val[0] == "lit":
                return str(val[1]) == str(H.strip(l).get("v"))
            if val[0] == "bool":
                return str(val[1]).lower() == str(H.strip(l).get("v")).lower()
            return None
        return None

    def call_closure(self, c, args, depth):
        if c[0] != "clos":
            return unk("not a closure")
        node, env = c[1], dict(c[2])
        ps = node.get("params", [])
        if len(ps) != len(args):
            return unk("closure arity")
        for p, a in zip(ps, args):
            if self.bind(p, a, env) is not True:
                return unk("closure parameter pattern")
        return self.ev(node["body"], env, depth + 1)

    def ev(self, n, env, depth=0):
        if depth > 40 or not isinstance(n, dict):
            return unk("depth")
        n = H.strip(n)
        k = H.kind(n)
        if k == "Lit":
            if n.get("lk") == "bool":
                return ("bool", n["v"] in (True, "true"))
            return ("lit", n.get("v"))
        if k == "Path":
            l = n["res"].get("local")
            if l is not None:
                return env.get(l, unk("local %s" % l))
            d = n["res"].get("def") or ""
            if H.last(d) == "None" and "option" in d:
                return ("none",)
            if n["res"].get("dk") in ("Ctor", "Variant") and not (n.get("ty") or "").startswith("fn("):
                return ("variant", H.last(d), ())   # a unit variant (Ordering::Less)
            if d.endswith("usize::MAX") or d.endswith("::MAX"):
                return ("lit", "MAX")
            return unk("path %s" % H.last(d))
        if k in ("AddrOf",):
            return self.ev(n["e"], env, depth + 1)
        if k == "Unary":
            if n["op"] == "Deref":
                return self.ev(n["e"], env, depth + 1)
            if n["op"] == "Not":
                return mk_not(self.ev(n["e"], env, depth + 1))
            return unk("unary %s" % n["op"])
        if k == "Binary":
            a, b = self.ev(n["l"], env, depth + 1), self.ev(n["r"], env, depth + 1)
            if n["op"] == "And":
                return mk_and(a, b)
            if n["op"] == "Or":
                return mk_or(a, b)
            if n["op"] in FLIP:
                if has_unk(a) or has_unk(b):
                    return unk("comparison of unknowns")
                return mk_cmp(n["op"], a, b)
            return unk("binary %s" % n["op"])
        if k == "Tup":
            return ("tup",) + tuple(self.ev(x, env, depth + 1) for x in n["es"])
        if k == "Closure":
            return ("clos", n, dict(env))
        if k == "Block":
            e2 = dict(env)
            for s in n["stmts"]:
                if s["k"] == "Let" and s.get("init") is not None:
                    v = self.ev(s["init"], e2, depth + 1)
                    if self.bind(s["pat"], v, e2) is not True:
                        for bn in H.pat_binds(s["pat"]):
                            e2[bn] = unk("let pattern")
                elif s["k"] in ("Expr", "Semi") and H.kind(H.strip(s["e"])) == "Ret":
                    return self.ev(H.strip(s["e"]).get("e"), e2, depth + 1)
                elif s["k"] in ("Expr", "Semi") and H.kind(H.strip(s["e"])) == "If":
                    # `if c { return x; }` guard
                    i_ = H.strip(s["e"])
                    c = self.ev(i_["cond"], e2, depth + 1)
                    t = H.final_expr(i_["then"])
                    if H.kind(t) == "Ret" and i_.get("else") is None and n.get("expr") is not None:
                        tv = self.ev(t.get("e"), e2, depth + 1)
                        rest = self.ev(dict(n, stmts=n["stmts"][n["stmts"].index(s) + 1:]), e2, depth + 1)
                        return self.ite(c, tv, rest)
                    return unk("statement")
                else:
                    return unk("statement")
            if n.get("expr") is None:
                return unk("no value")
            return self.ev(n["expr"], e2, depth + 1)
        if k == "If":
            cs = H.strip(n["cond"])
            if H.kind(cs) == "LetExpr":
                v = self.ev(cs["init"], env, depth + 1)
                e2 = dict(env)
                r = self.bind(cs["pat"], v, e2)
                if r is True:
                    return self.ev(n["then"], e2, depth + 1)
                if r is False and n.get("else") is not None:
                    return self.ev(n["else"], env, depth + 1)
                return unk("if-let on unknown")
            c = self.ev(n["cond"], env, depth + 1)
            if n.get("else") is None:
                return unk("if without else")
            return self.ite(c, self.ev(n["then"], env, depth + 1), self.ev(n["else"], env, depth + 1))
        if k == "Match":
            v = self.ev(n["scrut"], env, depth + 1)
            for a in n["arms"]:
                e2 = dict(env)
                r = self.bind(a["pat"], v, e2)
                if r is False:
                    continue
                if r is None:
                    return unk("match on unknown")
                if a.get("guard") is not None:
                    g = self.ev(a["guard"], e2, depth + 1)
                    if g == ("bool", False):
                        continue
                    if g != ("bool", True):
                        rest = self.ev(dict(n, arms=n["arms"][n["arms"].index(a) + 1:]), env, depth + 1)
                        return self.ite(g, self.ev(a["body"], e2, depth + 1), rest)
                return self.ev(a["body"], e2, depth + 1)
            return unk("no arm")
        if k == "Call":
            f = H.strip(n["f"])
            d = (f.get("res") or {}).get("def") or n.get("def") or ""
            if (f.get("res") or {}).get("dk") == "Ctor":
                args = tuple(self.ev(a, env, depth + 1) for a in n["args"])
                if H.last(d) == "Some":
                    return ("some", args[0])
                return ("variant", H.last(d), args)
            return unk("call %s" % H.last(d))
        if k == "MethodCall":
            nm = n["name"]
            d = n.get("def") or ""
            recv = self.ev(n["recv"], env, depth + 1)
            args = [self.ev(a, env, depth + 1) for a in n.get("args", [])]
            if d.startswith(self.prefix) and depth < 30 and d in getattr(self.crate, "hir", {}):
                f2 = self.crate.hir[d]
                e2 = {}
                ps = f2["params"]
                if len(ps) == 1 + len(args):
                    ok = self.bind(ps[0], recv, e2) is True
                    for p, a in zip(ps[1:], args):
                        ok = ok and self.bind(p, a, e2) is True
                    if ok:
                        return self.ev(f2["body"], e2, depth + 1)
                return unk("method %s" % nm)
            if nm in ("clone", "copied", "cloned", "as_ref", "borrow", "into", "to_owned"):
                return recv
            if recv[0] in ("some", "none"):
                some = recv[0] == "some"
                if nm == "is_some":
                    return ("bool", some)
                if nm == "is_none":
                    return ("bool", not some)
                if nm == "is_some_and":
                    return self.call_closure(args[0], [recv[1]], depth) if some else ("bool", False)
                if nm == "is_none_or":
                    return self.call_closure(args[0], [recv[1]], depth) if some else ("bool", True)
                if nm == "map_or":
                    return self.call_closure(args[1], [recv[1]], depth) if some else args[0]
                if nm == "map_or_else":
                    return self.call_closure(args[1], [recv[1]], depth) if some else self.call_closure(args[0], [], depth)
                if nm == "map":
                    return ("some", self.call_closure(args[0], [recv[1]], depth)) if some else ("none",)
                if nm in ("unwrap_or",):
                    return recv[1] if some else args[0]
                if nm in ("unwrap", "expect"):
                    return recv[1] if some else unk("unwrap of None")
                if nm == "unwrap_or_else":
                    return recv[1] if some else self.call_closure(args[0], [], depth)
            if nm in ("eq", "ne", "lt", "le", "gt", "ge") and args:
                return mk_cmp({"eq": "Eq", "ne": "Ne", "lt": "Lt", "le": "Le", "gt": "Gt", "ge": "Ge"}[nm], recv, args[0])
            return unk("method %s" % nm)
        if k == "Macro" and n.get("name") == "matches":
            return unk("matches!")
        if k == "Field":
            v = self.ev(n["e"], env, depth + 1)
            if v[0] == "tup" and n["name"].isdigit() and int(n["name"]) < len(v) - 1:
                return v[1 + int(n["name"])]
            return unk("field")
        if k == "Ret":
            return self.ev(n.get("e"), env, depth + 1) if n.get("e") is not None else unk("return")
        if k == "Try":
            v = self.ev(n["e"], env, depth + 1)
            if v[0] == "variant" and v[1] == "Ok" and len(v[2]) == 1:
                return v[2][0]
            if v[0] == "some":
                return v[1]
            return unk("? on unknown")
        return unk(k)

    def ite(self, c, a, b):
        if c == ("bool", True):
            return a
        if c == ("bool", False):
            return b
        bools = ("bool", "cmp", "and", "or", "not")
        if a[0] in bools and b[0] in bools:
            return mk_or(mk_and(c, a), mk_and(mk_not(c), b))
        if a == b:
            return a
        return unk("conditional value")


def conjuncts(t):
    """set of atoms of a pure conjunction; None if t is not one"""
    if t[0] == "and":
        a, b = conjuncts(t[1]), conjuncts(t[2])
        return None if a is None or b is None else a | b
    if t[0] == "cmp":
        return {t}
    if t == ("bool", True):
        return set()
    return None


def interval(t, var):
    """for a conjunction of comparisons between `var` and other terms: (lower bounds, upper bounds) as sets of terms, with
    strictness folded for the comparison; None when t is not of that shape. `False` for the constant false."""
    if t == ("bool", False):
        return False
    cs = conjuncts(t)
    if cs is None:
        return None
    lo, hi = set(), set()
    for c in cs:
        _, op, a, b = c
        if b == var and a != var:
            a, b, op = b, a, FLIP[op]
        if a != var:
            return None
        if op == "Eq":
            lo.add(("incl", b))
            hi.add(("incl", b))
        elif op == "Ge":
            lo.add(("incl", b))
        elif op == "Gt":
            lo.add(("excl", b))
        elif op == "Le":
            hi.add(("incl", b))
        elif op == "Lt":
            hi.add(("excl", b))
        else:
            return None
    return lo, hi
