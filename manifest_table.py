BASE_NOTE = ("Trusted: rustc nightly 1.97 front end (type check, MIR construction, instance resolution) as fact source - the same "
             "sources the pinned 1.89 toolchain builds; pest_meta 2.8.3; cargo's feature resolver. Decides the named structural "
             "clauses only; the behavioural statement over all inputs is not proved. Host configuration only (no wasm32 cfg arms). "
             "Verdicts are three-valued: a violation is reported only when positively identified; code restructured beyond what a rule models "
             "(after looking through private helpers, renamed private functions, moved arms) is reported as UNDECIDED with exit 0, and counted in the evidence.")

CLAIMS = {
 "C01": ("per-arm table/MIR agreement (arity vs constant argument indices), RAII guard-liveness dataflow with call-graph may-borrow summaries over RefCell<Heap>, provenance rules on comparators / length arithmetic / float-to-int casts / span slicing / std API preconditions, grammar child-slot tables vs the AST builder, struct-literal pairing of spans and sources",
         "Exhaustive static decision of twelve structural panic mechanisms: constant indices into args stay below each arm's minimum arity (or under a dominating length test) and the call gate binds by .get under a dominating arity check (R1); no heap borrow_mut, direct or through any callee or adapter closure, while a heap guard may be live (R2); "
         "no unwrap of a float partial_cmp (R3); sort comparators are total (R4: 2 known findings); len()-k is guarded (R5); no checked integer arithmetic on saturating casts of user numbers (R6); builder unwraps fit the grammar's mandatory child slots (R7); spans always travel with the text they index (R8); "
         "precondition-panicking std APIs are guarded on the same value (R9); operator_info's expect is discharged by table completeness (R10); no string is sliced by Span offsets (R11). and no user string is sliced at offsets computed from user numbers (R11); no unwrap/expect on a result that fails for some input value - non-finite number to JSON, text to number, out-of-range conversion, checked arithmetic, parsing stored function text (R12). Value-range dependent panics, OOM and third-party internals are inventoried, not judged.",
         BASE_NOTE, "DESIGN.md §4 C01"),
 "C02": ("effects inventory over the resolved call graph (impure callees pinned to function and match arm) + write-once typestate of heap cells (private field, push-only mutators, guarded get_mut writes by MIR dominance) + hash-order sink lint + identity-comparison lint",
         "Exhaustive static decision of: the impure primitives reachable from the evaluator are exactly time_now's clock, print's stderr, the profiling timestamps/log and a generator seeded from its argument, each in its own arm (R1); "
         "heap cells are write-once - the cell vector is private and only pushed, reify_mut is unused, and every write through Heap::get_mut touches only LambdaDef.name under name.is_none() (R2); "
         "every iteration over a std HashMap/HashSet reachable from evaluation/serialisation/formatting/CLI output ends in an order-insensitive sink or is a reviewed exception (R3); "
         "this includes hash containers handed to iterating callees (extend / from_iter) and the whole CLI driver; no reachable code compares Values or heap pointers by derived (allocation-order) PartialEq/PartialOrd except equality with the constant null (R4). IEEE determinism is assumed.",
         BASE_NOTE, "DESIGN.md §4 C02"),
 "C03": ("who-may-call over the resolved workspace call graph + MIR dominance / no-path / may-bind-between queries in evaluate_ast + provenance of environment arguments + name-table agreement (evaluator, assignment guard, grammar)",
         "Exhaustive static decision of: Environment::insert is called only from the evaluator's assignment handling and from driver set-up into a fresh root environment before any evaluation, and the bindings map has no other writer (R1); "
         "the top-level insert is dominated by not-a-built-in, not-yet-bound on the same environment and key with no call that may bind in between, and the Ok edge of the right-hand side, with the Err edge unable to reach it (R2/R2b); "
         "do-block statements and function bodies are evaluated in environments created by Environment::extend / extend_with in the same arm (R3); every name resolved before the environment lookup, `inputs` and every reserved word is refused or unparsable (R4). "
         "every other word the grammar uses as a keyword token where a name could start is reserved or refused too (R4); heap cells are write-once, so a later binding cannot change what an earlier name does (R5). Histories are covered only inductively (every insert guarded), not by exploring sequences.",
         BASE_NOTE, "DESIGN.md §4 C03"),
 "C04": ("sibling agreement between the capture analysis and the evaluator's environment reads (lexically scoped HIR walk) + match coverage against the AST type definitions + MIR provenance of the scope chain + shape oracles of the arity tests and positional binding",
         "Exhaustive static decision of: the AST positions at which the evaluator reads the environment by a name from the AST (Identifier, record shorthand) are exactly those collect_free_variables collects; it recurses into every Expr/RecordKey variant with an expression child; binder arms extend a copy of the bound set (R1); "
         "a body runs in extend_with(extend_shared(caller, captured scope) | caller, locals) with parameters inserted last, and the captured scope is built from the defining environment for exactly the collected names minus parameters (R2); "
         "in a do-block assignment the right-hand side is scanned before the name becomes bound, and the names the evaluator resolves before the lookup are exactly the names the analysis skips (R1); a closure's self name is written only while unset (R4); Exact/AtLeast/Between are tested identically in both check_arity copies and can_accept, get_arity classifies by rest/all-required/optional, required/optional/rest bind positionally without raw indexing, and the arity check dominates the call (R3).",
         BASE_NOTE, "DESIGN.md §4 C04"),
 "C05": ("printer-inverts-parser lints: token / precedence / reserved-word / built-in-name table agreement, abstract interpretation of the string-building code of every printer arm (shape, child order, operand guards), MIR dominance of validation over emission, binder agreement between capture analysis and inliner",
         "Exhaustive static decision, for the function-source emitters (expr_to_source, expr_to_source_with_scope, serializable_value_to_source and helpers), of: operator tokens = grammar literals (L1); parenthesisation guards of every tight operand position cover the child kinds the grammar cannot re-read bare (L2); "
         "printer precedence levels and the same-level rule agree with the parser's binding levels, with true operand sides (L3); string content is not rewritten (L4); non-finite numbers are tested (L5) and finite ones printed exactly (L10); reserved words, built-in names and the function-object key round-trip (L6-L8); "
         "every arm emits the grammar's tokens and each child once in order (L9); outputs are inserted only through the Ok edge of validate_portable_value (R7); binders agree between collect_free_variables and the inliner for all parameters (R8). "
         "the always-resolving names (inf, infinity, constants) are exactly the names the capture analysis skips (R9). 27 construct-keyed known findings are recorded (unparenthesised operands, level clashes, escaped strings, NaN, do-block binders). Behavioural equivalence of the reloaded function is not decided.",
         BASE_NOTE, "DESIGN.md §4 C05"),
 "C06": ("resolved cargo feature check (serde_json float_roundtrip) + match-table bijection over the four value<->JSON conversion functions + HIR guard analysis of the input-object loop",
         "Exhaustive static decision of: JSON text is parsed by serde_json built with float_roundtrip and without arbitrary_precision (R1); from_json/to_json/from_value/to_value preserve the value kind arm by arm, compose to the identity on the six data kinds, "
         "recurse with the same function and are lossy only on the number arm (R2); records are IndexMap end to end and the outputs map handed to serde_json is an IndexMap (R3); every member of an input object is inserted, conditional only on its own conversion (R4); "
         "the JSON number arm uses only the total accessor as_f64 (R2); the --output file is replaced, not patched (R6); the reserved function-object key is one literal (R5). serde_json's escaping and ryu's printing are trusted, not decided.",
         BASE_NOTE, "DESIGN.md §4 C06"),
 "C16": ("HIR lint of every number-to-text / text-to-number site (format-spec facts from the expanded AST, guards by lexical dominance) + grammar/number-branch table agreement + cargo feature check",
         "Exhaustive static decision of: every number-to-text site on the exact paths (stringify non-display branch, to_string, JSON output, three function-source emitters) uses f64 Display/LowerExp without precision or a precision-0 format dominated by fract() == 0 (R1); "
         "JSON number input is correctly rounded by configuration (R2); each alternative of the grammar's number rule has a conversion branch with the same sign/prefix set, matching radix and sign table, underscores removed, and decimal text / to_number go through <f64 as FromStr> with no arithmetic on the result (R3). "
         "Correct rounding inside std and ryu is trusted.",
         BASE_NOTE, "DESIGN.md §4 C16"),
 "C07": ("the same printer lints over the formatter's own functions and its expr_to_source fall-back + line-break gaps checked against the grammar (abstract interpretation of string building)",
         "Exhaustive static decision, for every formatter function and the fall-back printer, of the token, precedence, operand-guard, string-content and reserved-word rules L1-L6, and that every printer arm emits the construct's tokens and children in grammar order, each child once on every output path, static record keys through format_record_key, "
         "and line breaks only in gaps where the grammar admits them (R7). including the gap before a binary operator in ordinary and lambda bodies; literal numbers are printed exactly (L10). 30 construct-keyed known findings are recorded. That the combination of layouts re-parses to the same tree for every width is not decided.",
         BASE_NOTE, "DESIGN.md §4 C07"),
 "C09": ("comment-field consumption lint over the formatter (scoped HIR walk + call-graph reachability), grammar child-slot tables against the AST builder and both format drivers, PEG gap analysis for comment-swallowing NEWLINE, emission order by abstract interpretation",
         "Exhaustive static decision of: wherever a printer reachable from format_expr unwraps a Commented member it also emits .leading and .trailing or is guarded by has_comments() (R1); the formatter calls the comment-unaware printers only at the recorded fall-back sites (R1b); both drivers consume both child slots of `statement` (R2); "
         "single members such as a do-block's return expression get the comment fields their sibling printers emit (R1), and the end-of-line slot is read for every first-slot alternative (R2); the AST builder has an arm for every comment-bearing child slot of list/record/do_block and their items and appends tail comments after the member's own trailing comment (R3); leading comments, member, trailing comment are emitted in that order (R4); "
         "no further grammar rule separates tokens with the comment-swallowing NEWLINE (R5). 13 construct-keyed known findings are recorded. Order preservation under line breaking in general is not decided.",
         BASE_NOTE, "DESIGN.md §4 C09"),
 "C10": ("table agreement (const precedence table, Pratt registration order, AST-builder match arms, grammar alternatives) + structural PEG analyses (ordered-choice shadowing, keyword guards, atomicity cascade)",
         "Exhaustive static decision of: the effective binding order (PRECEDENCE_TABLE + the registration algorithm read off build_pratt_parser) equals the documented level list for all 26 binary, 4 prefix and 4 postfix operators (R1); "
         "grammar alternatives = table = registrations = builder arms with agreeing (Rule, BinaryOp) pairs and documented tokens (R2); no operator literal is shadowed by an earlier alternative or by a postfix literal without look-ahead (R3); "
         "every word-like literal tried before `identifier` is guarded by !identifier_rest or mandatory whitespace (R4); reserved words are prefix-free in order (R5); word/symbol spellings share evaluator arms (R6); "
         "including every other pattern or comparison on the operator in evaluator-reachable code; no atomic-by-cascade rule admits newlines but not spaces (R7). Layout insensitivity in general is not decided.",
         BASE_NOTE, "DESIGN.md §4 C10"),
 "C18": ("who-evaluates + MIR dominance of the depth guard + per-call-site classification of the depth argument (own depth + constant) over the call graph; thorough: machine-frame stack budget from -Z emit-stack-sizes and the object-file call graph",
         "Exhaustive static decision of: a LambdaDef body is evaluated only in FunctionDef::call, where the `call_depth > 1000` test dominates the body evaluation and the built-in dispatch and its over-limit edge reaches no evaluator call (R1); "
         "every one of the ~50 call sites between depth-carrying functions passes its own call_depth + k with k >= 0, FunctionDef::call passes k >= 1 to the body, and only drivers pass constants, so every cycle through a Blots call strictly increases the counter (R2); "
         "depth is consumed by calls only: every edge between the evaluator's own functions passes call_depth unchanged and the body edge adds exactly one (R4); the evaluator runs on a stack of at least 8 MiB (no smaller explicit thread stack) (R3s). The stack budget itself (frames x depth) is evaluated in the thorough tier.",
         BASE_NOTE + " R3 uses nightly release frames, not the pinned 1.89 ones.", "DESIGN.md §4 C18"),
 "C11": ("sibling agreement by operation signature: HIR normaliser with operand roles by provenance (pattern position / element-of-list / loop variable), compared against the operation the statement gives, per operator and per copy",
         "Exhaustive static decision, for each of the 17 broadcasting operators and each of the four hand-written copies (scalar, list-list, list-scalar, scalar-list), that the element operation is the one the statement gives with operands in the right order, "
         "that fallible conversions are not hoisted out of the element loop, that each copy visits every element once in order (R1), that every copy has a value-producing arm (R5), that the six dot comparisons return from the pre-match before any list inspection (R3), "
         "and that the list-list length test with error exit comes before any value is produced and only callback operators are diverted earlier (R4). Value::equals / Value::compare use `==` / partial_cmp on numbers, booleans and strings (R6). IEEE semantics of the primitives are not decided.",
         BASE_NOTE, "DESIGN.md §4 C11"),
 "C12": ("table agreement of the expected-ordering sets across the five copies (operation signatures) + structural signatures of Value::equals / Value::compare arms + pattern tables of the unchecked built-ins",
         "Exhaustive static decision of: the expected-ordering sets of < <= > >= equal the canonical table in the dot pre-match, the scalar / list-list / list-scalar / scalar-list copies and ugt/ult/ugte/ulte (R1, 24 instances); != and .!= are Not of the same equals call as == and .== in every copy (R2); "
         "equals and compare use == and partial_cmp of one std type per pair (f64, bool, str), lists and records are compared structurally with an exact `!=` length test and by-key lookup, other kinds are never equal / never ordered, compare's pairs are a subset of equals' (R3); "
         "list ordering returns the first non-Equal element ordering, then len(left) vs len(right) (R4); the unchecked built-ins answer false, never an error, when incomparable (R5). check_ordering answers expected.contains(ordering) when comparable and reports an error on every path otherwise (R6). Transitivity and trichotomy follow from std's orders and are not re-proved.",
         BASE_NOTE, "DESIGN.md §4 C12"),
 "C13": ("provenance pairing at every FunctionDef::call site (lexically scoped HIR normaliser) + sibling agreement of argument-list construction and result handling across operator and built-in forms",
         "Exhaustive static decision, over all 16 FunctionDef::call sites, that the definition comes from get_function_def(F) and `this` is that same F (R1); that via/where/map/filter/every/some pass [item, Number(idx)] exactly when arity().can_accept(2) of that definition, reduce [acc, item, idx] on can_accept(3), "
         "and key functions / into / scalar via one argument (R2); that where/filter keep the item iff as_bool(result), via/map collect the result, every/some short-circuit with the right constants, reduce threads the accumulator from args[2] (R3); "
         "that can_accept is n == k / n >= min / min <= n <= max (R5); and that equivalent forms account call depth alike (R4: two recorded known findings - the built-in forms add depth the operator forms do not).",
         BASE_NOTE, "DESIGN.md §4 C13"),
 "C14": ("who-may-call lint over resolved callees (byte-offset str APIs, unstable sorts) per match-arm region + sibling signature of the index-normalisation arms + frozen table of key primitives per built-in arm",
         "Exhaustive static decision of: the evaluator and built-ins call no byte-offset str/String API on user strings (zero-expected rule with a positive control in the AST builder) (R1); sort and sort_by use the stable slice::sort_by and nothing in the built-ins sorts unstably (R2); "
         "list and string indexing share one normalisation (truncate to i64, negative adds the element resp. character count, still negative -> null, absent -> null) and record/dot/#name access yields null for absent keys (R3); "
         "each list/string/record built-in is built on its frozen key primitive and on no look-alike (R4). Laws about contents (permutation, flatten/chunk, join/split round trips, partitions) quantify over runtime values and are not decided.",
         BASE_NOTE, "DESIGN.md §4 C14"),
 "C15": ("sibling agreement and shape oracles by operation signature over the aggregate arms of BuiltInFunction::call",
         "Exhaustive static decision of: in each of min/max/avg/sum/prod/median the result depends on the arguments only through one Vec<f64> built the same way in all six arms - the elements of the single list argument, the single number, or all arguments (R1: the 'one list or separate arguments' clause); "
         "min and max are mirror images (R2); the reduction written in each arm and in percentile is the documented formula - fold from the proper infinity, sum, product, sum/len, middle order statistic(s) of the ascending total_cmp sort, nearest-rank index - with an error on the empty vector (R3, a shape oracle). "
         "the arity table admits any number >= 1 of arguments for all six (R4). The numerical laws themselves (rounding, permutation invariance, monotonicity) quantify over runtime values and are not decided.",
         BASE_NOTE, "DESIGN.md §4 C15"),
 "C17": ("exact-rational lint of the literal unit table + MIR dominance / who-may-call on units::convert",
         "Exhaustive static decision, for every row of the literal unit catalogue, of: identifier uniqueness (R1), metric/binary prefix "
         "ratios in exact rationals (R2/R2b), positive literal coefficients (R3), temperature maps composing to the identity symbolically (R4), "
         "category gate dominating the conversion with from/to roles (R5), to_base/from_base inverse per variant (R7), resolve_unit never guessing (R8). "
         "every Ok of convert is the gated pipeline's result (R5) and the convert built-in hands the user's identifiers to the table unmodified (R9). These are necessary conditions of the statement that hold for all 201 rows at once, which sampling tests cannot give; fp tolerances are not decided.",
         BASE_NOTE, "DESIGN.md §4 C17"),
 "C19": ("MIR must-reach / no-path analysis of Result edges to process::exit in the CLI driver and its closures + HIR guard analysis (empty-object shortcut, merge loop, counter) + sibling lookup signature for #name",
         "Exhaustive static decision of: every path from each evaluate_pairs / validate_portable_value / evaluate_source / parse_json_inputs call on which the result is Err must cross a switch whose Err edge reaches exit(!=0) and no output sink; "
         "after write_outputs only exit(0) is reachable; an empty object printed directly is guarded by output_path.is_none() (R1); outputs are IndexMap end to end with no reordering (R2); stdin is parsed before the --input loop, flags merge in order with unconditional insert, "
         "every object member is bound, one shared counter names value_N in the non-object branch (R3); #name and inputs.name share the lookup signature Environment::get(\"inputs\") -> IndexMap::get(field).copied().unwrap_or(Null) (R4). the --output file is replaced, not patched (R5). clap and tty detection are not decided.",
         BASE_NOTE, "DESIGN.md §4 C19"),
}

_PENDING = "rule module not built yet in this round; will be claimed per DESIGN.md §4 once its check exists"
# clauses added in rounds 2-4 (seeded changes); appended to the claim text of each property
ADDED = {
 "C01": "Also: type guards answer Err and never panic (R13); every pair kind the grammar can yield inside an expression is a registered operator or a primary arm of the builder (R7); a constant slice of a user string is clamped (R11).",
 "C03": "Also: is_built_in_function is the name-table lookup (R4).",
 "C04": "can_accept is decided per arity class by partial evaluation when it is not a single match (R3).",
 "C05": "Also: the inlining printer hands every expression child to a scope-carrying printer (R10); the capture analysis itself is decided here too (R11 = C04.R1); prefix minus is registered after every infix group, the premise for printing a captured negative number bare (R12); a printed function literal never begins with the spread token - parentheses are omitted only for a parameter kind whose text does not begin with it (L11).",
 "C06": "Also: to_json writes every finite number as itself and texts unfiltered, on the way out and in (R7); structural equality is the shared one (R8).",
 "C07": "Also: a printed function literal never begins with the spread token (L11).",
 "C09": "Also: the AST builder passes its comment flag on to every recursive call (R3b) and every comment rule consumes the text up to the physical end of the line - its stop look-ahead cannot itself start a comment (R6).",
 "C10": "Also: lambda_infix_usage admits the same gaps as infix_usage alternative by alternative (R8); text that becomes a name, key or string in the tree is read from a pair whose grammar rule cannot contain optional layout - derived from the grammar's atomicity contexts (R9).",
 "C11": "Also: nothing in the list-scalar copy answers before the operator is dispatched (R4); scalar and structural equality are the shared primitives (R6); prefix minus is the IEEE negation of the operand, never `0 - x` (R7).",
 "C12": "Also: check_ordering answers expected.contains(ordering) and errors on incomparable operands on every path (R6); no remainder is read from the left side of by_ref().zip(..) in the comparison family (R7).",
 "C13": "Also: can_accept per arity class (R5, partial evaluation when restructured); nothing answers before the operator dispatch, so `[] into f` reaches f (R6); no heap guard is live while a callback runs, in operators and built-ins alike (R7).",
 "C14": "Also: per-arm look-alike primitives (byte vs char APIs) are findings (R4); inside functions the capture analysis visits both the indexed and the index expression (R5).",
 "C15": "Also: the arity rows admit both calling conventions (R4); a hand-written accumulation never subtracts or divides running values (R5); inside functions the capture analysis visits spread operands and call arguments (R6).",
 "C16": "Also: String-returning formatting helpers are followed, non-decimal literals reach an integer parser of the right radix (R1/R3); a negative literal is read as Negate(number), the exact negation (R4).",
 "C17": "Also: the convert built-in passes its arguments unmodified and returns the conversion's result (R9).",
 "C18": "Also: depth is consumed by calls only - every evaluator-internal edge passes call_depth unchanged and the body runs at exactly +1 (R4); no carrier of a RuntimeError shortens its message, so the depth error reaches the user (R5).",
 "C19": "Also: the --output file is replaced, not patched (R5 = C06.R6); `#name` admits every name `.name` admits (R6); validate_portable_value's free-variable analysis is decided (R7 = C04.R1).",
}

NOT_APPLICABLE = {
 "C08": "idempotence is a fixpoint property of parse∘format over computed string widths and comment re-attachment; no clause of it is both structural and necessary (DESIGN.md §4 C08), so static analysis cannot decide it",
 "C20": "a numerical error bound on log10/powi/round/format over all doubles; no clause is visible in the shape of the code (DESIGN.md §4 C20)",
}
for _p in ["C%02d" % i for i in range(1, 21)]:
    if _p not in CLAIMS and _p not in NOT_APPLICABLE:
        NOT_APPLICABLE[_p] = _PENDING
