BASE_NOTE = ("Trusted: rustc nightly 1.97 front end (type check, MIR construction, instance resolution) as fact source - the same "
             "sources the pinned 1.89 toolchain builds; pest_meta 2.8.3; cargo's feature resolver. Decides the named structural "
             "clauses only; the behavioural statement over all inputs is not proved. Host configuration only (no wasm32 cfg arms).")

CLAIMS = {
 "C17": ("exact-rational lint of the literal unit table + MIR dominance / who-may-call on units::convert",
         "Exhaustive static decision, for every row of the literal unit catalogue, of: identifier uniqueness (R1), metric/binary prefix "
         "ratios in exact rationals (R2/R2b), positive literal coefficients (R3), temperature maps composing to the identity symbolically (R4), "
         "category gate dominating the conversion with from/to roles (R5), to_base/from_base inverse per variant (R7), resolve_unit never guessing (R8). "
         "These are necessary conditions of the statement that hold for all 201 rows at once, which sampling tests cannot give; fp tolerances are not decided.",
         BASE_NOTE, "DESIGN.md §4 C17"),
}

_PENDING = "rule module not built yet in this round; will be claimed per DESIGN.md §4 once its check exists"
NOT_APPLICABLE = {
 "C08": "idempotence is a fixpoint property of parse∘format over computed string widths and comment re-attachment; no clause of it is both structural and necessary (DESIGN.md §4 C08), so static analysis cannot decide it",
 "C20": "a numerical error bound on log10/powi/round/format over all doubles; no clause is visible in the shape of the code (DESIGN.md §4 C20)",
}
for _p in ["C%02d" % i for i in range(1, 21)]:
    if _p not in CLAIMS and _p not in NOT_APPLICABLE:
        NOT_APPLICABLE[_p] = _PENDING
