"""C01 — no input crashes the parse / evaluate / serialise / format pipeline (DESIGN §4 C01).
General panic freedom needs value-range reasoning and is not claimed; decided are panic mechanisms whose discharge
condition is structural. Everything else that can panic is inventoried in the evidence, not judged."""
import re
from lib import hir as H
from lib import mir as M
from lib import sig as S
from lib.peg import Grammar
from lib.facts import CheckerError
from rules import c10

NEED = ("dev",)
CORE = "blots_core::"
BCALL = CORE + "functions::BuiltInFunction::call"
FCALL = CORE + "functions::FunctionDef::call"
EVAL = CORE + "expressions::evaluate_ast"
HEAPCELL = "core::cell::RefCell<blots_core::heap::Heap>"

ENTRY = [CORE + "parser::get_pairs", CORE + "expressions::evaluate_pairs", EVAL, FCALL, CORE + "values::SerializableValue::from_json", CORE + "values::SerializableValue::to_json",
         CORE + "values::SerializableValue::from_value", CORE + "values::SerializableValue::to_value", CORE + "values::Value::stringify", CORE + "formatter::format_expr",
         CORE + "units::convert", "<blots_core::error::RuntimeError as core::fmt::Display>::fmt", "blots::main"]

# std APIs that panic on a documented precondition, with the argument index that must be guarded and the guard
PRECOND = {
    "core::slice::<impl [T]>::chunks": (1, "nonzero"), "core::slice::<impl [T]>::chunks_exact": (1, "nonzero"), "core::slice::<impl [T]>::windows": (1, "nonzero"),
    "core::slice::<impl [T]>::rchunks": (1, "nonzero"), "core::iter::traits::iterator::Iterator::step_by": (1, "nonzero"),
    "alloc::vec::Vec::<T, A>::remove": (1, "inrange"), "alloc::vec::Vec::<T, A>::swap_remove": (1, "inrange"), "alloc::vec::Vec::<T, A>::insert": (1, "inrange"),
    "core::slice::<impl [T]>::split_at": (1, "inrange"), "core::slice::<impl [T]>::swap": (1, "inrange"), "alloc::vec::Vec::<T, A>::drain": (1, "inrange"),
    "alloc::vec::Vec::<T, A>::split_off": (1, "inrange"), "core::str::<impl str>::split_at": (1, "inrange"),
}


def arity_table(core):
    f = core.hir_fn(CORE + "functions::BuiltInFunction::arity")
    m = H.main_match(f["body"], "functions::BuiltInFunction")
    out = {}
    for a in m["arms"]:
        t = S.norm(a["body"], S.Env())
        if t[0] == "ctor" and t[1] in ("Exact", "AtLeast", "Between"):
            mn = int(t[2][1])
            mx = int(t[3][1]) if t[1] == "Between" else (mn if t[1] == "Exact" else None)
            for v in H.pat_variants(a["pat"]):
                out[H.last(v)] = (t[1], mn, mx)
    return out


def run(ctx):
    core, cli, wasm = ctx.core, ctx.cli, ctx.wasm
    crates = [core, cli, wasm]
    cg = M.CallGraph(crates)
    G = Grammar(ctx.grammar)
    ctx.not_decided += ["value-range dependent panics (list[idx] in counted loops, len/2 - 1), capacity / OOM aborts, panics inside pest, ariadne, serde_json, dyn-fmt, parser recursion depth, the wasm32-only cfg arms: inventoried in units_analysed, not judged"]
    reach = cg.reachable_from(ENTRY + [n for n in cg.fns if n.startswith("blots_wasm::") and "::" not in n[len("blots_wasm::"):]])
    local = sorted(n for n in reach if n in cg.fns and (n.startswith(CORE) or n.startswith("<blots_core") or n.startswith("blots::") or n.startswith("blots_wasm::")))
    ctx.units["functions_reachable_from_entry_points"] = len(local)

    # ---------------- R1 arity <=> argument indexing
    ctx.rule("C01.R1", "in every built-in arm each constant index into `args` is below the arm's minimum arity, each `args[k..]` has k <= the minimum, no variable index into `args` exists in the call gate, BuiltInFunction::call is reached only through FunctionDef::call, and check_arity dominates both the dispatch and the parameter binding", floor=70)
    ar = arity_table(core)
    bi_variants = [v["name"] for v in core.types[CORE + "functions::BuiltInFunction"]["variants"]]
    for v in bi_variants:
        if v not in ar:
            ctx.inst("C01.R1", "arity[%s]" % v, False, "no arity row", None)
    n_idx = 0
    per_arm = {}
    BA1 = M.BuiltinArms(core, cg)
    bic0 = M.Fn(core.mir_fn(BCALL), BCALL)
    for _mname, (bic, _mreg) in sorted(BA1.members.items()):
        # BuiltInFunction::call itself and every private per-category helper it delegates to (each has its own match on self)
        regions = _mreg if _mname == BCALL else {v_: r_ for v_, r_ in _mreg.items() if v_ in getattr(_mreg, "explicit", ())}
        _inp = (core.hir.get(_mname) or {}).get("inputs", [])
        args_param = next((i_ + 1 for i_, t_ in enumerate(_inp) if "Vec<blots_core::values::Value>" in t_), 2)
        closure_parent_arm = {}
        # closures created inside an arm belong to that arm
        for b in range(bic.n):
            for s in bic.stmts(b):
                if s["k"] == "assign" and s["rv"]["k"] == "agg" and s["rv"].get("kind") == "closure":
                    arm = M.region_of(regions, b)
                    if arm:
                        closure_parent_arm[s["rv"]["closure"]] = arm

        def index_sites(fn, arm_of_block, is_args):
            sites = []
            for b in fn.call_blocks():
                c = fn.callee(b) or ""
                if c.endswith("as core::ops::index::Index<I>>::index") or c.endswith("as core::ops::index::IndexMut<I>>::index_mut"):
                    t = fn.term(b)
                    if not is_args(fn, t["args"][0]):
                        continue
                    idx = t["args"][1]
                    kind, val = "var", None
                    if "int" in idx:
                        kind, val = "const", int(idx["int"])
                    else:
                        roots = fn.trace(idx)
                        for r in roots:
                            if r[0] == "agg" and "RangeFrom" in r[1]:
                                # find the aggregate's operand
                                for s in fn.stmts(r[2]):
                                    if s["k"] == "assign" and s["rv"]["k"] == "agg" and "RangeFrom" in s["rv"].get("adt", "") and "int" in s["rv"]["ops"][0]:
                                        kind, val = "from", int(s["rv"]["ops"][0]["int"])
                            elif r[0] == "agg" and "RangeFull" in r[1]:
                                kind, val = "full", 0
                            elif r[0] == "const":
                                m = re.match(r"(?:const )?(\d+)_usize", r[1])
                                if m:
                                    kind, val = "const", int(m.group(1))
                    sites.append((b, kind, val, arm_of_block(b)))
            return sites

        def is_args_root(fn, op):
            roots = fn.trace(op)
            return bool(roots) and all(r[0] == "param" and r[1] == args_param and not [p for p in r[2] if not p.startswith("as:")] for r in roots)

        for b, kind, val, arm in index_sites(bic, lambda b: M.region_of(regions, b), is_args_root):
            n_idx += 1
            if len(arm) == 0:
                ctx.inst("C01.R1", "index@unattributed[%d]" % n_idx, None, "index into args outside any arm region", bic.loc(b))
                continue
            mins = [ar[a][1] for a in arm if a in ar]
            mn = min(mins) if mins else None
            k = per_arm.get(tuple(arm), 0)
            per_arm[tuple(arm)] = k + 1
            key = "%s#args[%s]#%d" % ("|".join(arm), {"const": str(val), "from": "%s.." % val, "full": "..", "var": "?"}[kind], k)
            if kind == "const":
                ok = mn is not None and val < mn
                why = "args[%d] with minimum arity %s" % (val, mn)
                if not ok and mn is not None:
                    # an index beyond the minimum is fine when a dominating test on args.len() leaves only lengths > index
                    mxs = [ar[a][2] for a in arm if a in ar]
                    mx = None if any(m is None for m in mxs) else max(mxs)
                    lens = set(range(mn, (mx if mx is not None else mn + 6) + 1))
                    unbounded = mx is None
                    for gb in range(bic.n):
                        for s_ in bic.stmts(gb):
                            if s_["k"] == "assign" and s_["rv"]["k"] == "binop" and s_["rv"]["op"] in ("Eq", "Ne", "Lt", "Le", "Gt", "Ge") and "int" in s_["rv"]["b"]:
                                ar_ = bic.trace(s_["rv"]["a"])
                                if not any(r[0] == "call" and r[1].endswith("Vec::<T, A>::len") and is_args_root(bic, bic.term(r[2])["args"][0]) for r in ar_):
                                    continue
                                tt = bic.term(gb)
                                if tt["k"] != "switch" or not bic.dominates(gb, b):
                                    continue
                                c = int(s_["rv"]["b"]["int"])
                                zero = [x[1] for x in tt["targets"] if x[0] == "0"]
                                if not zero:
                                    continue
                                via_true = b in bic.reachable(tt["otherwise"]) and b not in bic.reachable(zero[0])
                                via_false = b in bic.reachable(zero[0]) and b not in bic.reachable(tt["otherwise"])
                                if not (via_true or via_false):
                                    continue
                                import operator
                                opf = {"Eq": operator.eq, "Ne": operator.ne, "Lt": operator.lt, "Le": operator.le, "Gt": operator.gt, "Ge": operator.ge}[s_["rv"]["op"]]
                                lens = {l for l in lens if opf(l, c) == via_true}
                                if s_["rv"]["op"] in ("Eq",) and via_true or s_["rv"]["op"] in ("Lt", "Le") and via_true or s_["rv"]["op"] in ("Ge", "Gt", "Ne") and via_false and s_["rv"]["op"] != "Ne":
                                    unbounded = False
                    ok = bool(lens) and min(lens) > val
                    why = "args[%d] beyond the minimum arity %d, under length tests that leave len(args) in %s%s" % (val, mn, sorted(lens), "+" if unbounded else "")
                ctx.inst("C01.R1", key, ok, why, bic.loc(b))
            elif kind in ("from", "full"):
                ctx.inst("C01.R1", key, mn is not None and val <= mn, "args[%s..] with minimum arity %s" % (val, mn), bic.loc(b))
            else:
                ctx.inst("C01.R1", key, False, "variable index into args (use .get and report an error)", bic.loc(b))
        # closures inside arms that capture args
        bic_args_name = H.param_by_type(core.hir_fn(BCALL), "Vec<blots_core::values::Value>", "args")
        for cn, arm in sorted(closure_parent_arm.items()):
            if cn not in cg.fns:
                continue
            cf = M.Fn(cg.fns[cn], cn)
            for b in cf.call_blocks():
                c = cf.callee(b) or ""
                if c.endswith("as core::ops::index::Index<I>>::index") and "alloc::vec::Vec<blots_core::values::Value>" in cf.term(b)["argtys"][0] and "int" in cf.term(b)["args"][1]:
                    # an upvar of type &Vec<Value> named args
                    # the indexed Vec<Value> is a captured variable of the closure (the arm's argument vector)
                    up = [n for n, plc in cg.fns[cn].get("debug", []) if n == bic_args_name]
                    if not up:
                        continue
                    val = int(cf.term(b)["args"][1]["int"])
                    mins = [ar[a][1] for a in arm if a in ar]
                    mn = min(mins) if mins else None
                    ctx.inst("C01.R1", "%s#closure#args[%d]" % ("|".join(arm), val), mn is not None and val < mn, "args[%d] inside a closure of the arm; minimum arity %s" % (val, mn), cf.loc(b))
    bic = bic0
    regions, _ = M.variant_regions(bic, CORE + "functions::BuiltInFunction", root_param=1)
    ctx.units["constant_index_sites_into_args"] = n_idx
    # the call gate
    fc = M.Fn(core.mir_fn(FCALL), FCALL)
    gate_idx = index_sites(fc, lambda b: [], lambda fn, op: any(r[0] == "param" and r[1] == 3 for r in fn.trace(op)))
    ctx.inst("C01.R1", "FunctionDef::call#no-raw-index", not gate_idx, "raw index expressions into args in the call gate: %d (parameters are bound with .get)" % len(gate_idx), fc.loc())
    callers = M.callers_of(crates, lambda d: d == BCALL)
    ctx.inst("C01.R1", "callers(BuiltInFunction::call)", set(callers) == {FCALL}, "called from %s" % sorted(callers), None)
    chk = fc.calls_to(CORE + "functions::FunctionDef::check_arity")
    uses = fc.calls_to(BCALL) + fc.calls_to(EVAL)
    ctx.inst("C01.R1", "check_arity-dominates", len(chk) == 1 and all(fc.dominates(chk[0], u) for u in uses), "check_arity(args.len())? dominates the built-in dispatch and the body evaluation", fc.loc(chk[0]) if chk else None)

    # ---------------- R2 heap borrow typestate
    ctx.rule("C01.R2", "RefCell<Heap> typestate: no borrow_mut (direct, or through a callee that may borrow mutably, including closures handed to adapters) while a Ref/RefMut guard of the heap may be live, and no borrow while a RefMut guard may be live", floor=20)

    def gk(callee, argtys, dest_ty):
        if callee == "core::cell::RefCell::<T>::borrow" and argtys and HEAPCELL in argtys[0]:
            return "shared"
        if callee == "core::cell::RefCell::<T>::borrow_mut" and argtys and HEAPCELL in argtys[0]:
            return "mut"
        return None

    # summaries
    direct_mut, direct_sh = set(), set()
    for n, f in cg.fns.items():
        for b in f["blocks"]:
            t = b["t"]
            if t["k"] == "call" and "fn" in t["func"]:
                r = t["func"]["fn"].get("res", t["func"]["fn"]["def"])
                k = gk(r, t["argtys"], "")
                if k == "mut":
                    direct_mut.add(n)
                elif k == "shared":
                    direct_sh.add(n)
    may_mut = cg.reaching(lambda n: n in direct_mut)
    may_sh = cg.reaching(lambda n: n in direct_sh)
    ctx.units["functions_that_may_borrow_heap_mutably"] = len([n for n in may_mut if n in cg.fns])
    n_sites = n_bad = 0
    for n in sorted(cg.fns):
        f = cg.fns[n]
        if not (n in may_mut or n in may_sh):
            continue
        fn = M.Fn(f, n)
        live_at, gen = M.guard_liveness(fn, gk)
        k = 0
        for b in fn.call_blocks():
            t = fn.term(b)
            d, r = M.fn_of(t)
            if d is None:
                continue
            live = {g for g in live_at.get(b, set())}
            # a guard moved into this very call (drop(guard)) is not live during it
            moved = {a["move"]["l"] for a in t["args"] if "move" in a and not a["move"]["p"]}
            live = {g for g in live if g[0] not in moved}
            kind = gk(r, t["argtys"], "")
            callee_mut = kind == "mut" or r in may_mut or d in may_mut or any((c[3:] if c.startswith("fn:") else c) in may_mut for c in t["func"]["fn"].get("closures", []))
            callee_sh = kind == "shared" or r in may_sh or d in may_sh or any((c[3:] if c.startswith("fn:") else c) in may_sh for c in t["func"]["fn"].get("closures", []))
            if not (callee_mut or callee_sh):
                continue
            n_sites += 1
            bad = None
            if callee_mut and live:
                bad = "may borrow the heap mutably while guard _%d (%s, taken at %s) may be live" % (sorted(live)[0][0], sorted(live)[0][1], fn.loc(sorted(live)[0][2]))
            elif callee_sh and any(g[1] == "mut" for g in live):
                g = [g for g in live if g[1] == "mut"][0]
                bad = "borrows the heap while the mutable guard _%d (taken at %s) may be live" % (g[0], fn.loc(g[2]))
            if bad:
                n_bad += 1
                ctx.inst("C01.R2", "%s->%s#%d" % (n.replace(CORE, ""), H.last(r), k), False, "call to %s %s: RefCell panics with 'already borrowed'" % (r, bad), fn.loc(b))
                k += 1
    ctx.units["heap_borrow_relevant_call_sites"] = n_sites
    for i in range(1):
        ctx.inst("C01.R2", "summary", n_bad == 0, "%d call sites that borrow the heap or may do so through their callees were checked against the live guard sets; %d conflicts" % (n_sites, n_bad), None)
    # pad instance count with the per-function verdicts so the floor reflects coverage
    for n in sorted(cg.fns):
        if n in direct_mut or n in direct_sh:
            ctx.inst("C01.R2", "fn=%s" % n.replace(CORE, ""), True, "analysed (takes heap guards)", None)

    # ---------------- R3 / R4 comparators
    ctx.rule("C01.R3", "no Option<Ordering>::unwrap/expect on the result of a float partial_cmp (NaN is a first-class number: 0/0)", floor=1)
    BA4 = M.BuiltinArms(core, cg)
    ctx.rule("C01.R4", "a comparator handed to slice::sort_by is a total order: it does not map 'incomparable' to Equal while ordering other pairs (Rust's sort panics on detected order violations)", floor=2)
    n3 = 0
    for n in local:
        if n.startswith(CORE + "stats::"):
            continue  # profiling summary: the compared floats are durations in seconds, never user numbers (one reviewed exception)
        fn = M.Fn(cg.fns[n], n)
        for b in fn.call_blocks():
            c = fn.callee(b) or ""
            if c in ("core::option::Option::<T>::unwrap", "core::option::Option::<T>::expect") and "core::cmp::Ordering" in fn.term(b)["argtys"][0]:
                roots = fn.trace(fn.term(b)["args"][0])
                pc = [r for r in roots if r[0] == "call" and r[1].endswith("partial_cmp")]
                n3 += 1
                ctx.inst("C01.R3", "%s#unwrap-ordering[%d]" % (n.replace(CORE, ""), n3), not pc, "unwrap of an Option<Ordering> produced by %s" % [r[1] for r in roots if r[0] == "call"], fn.loc(b))
    ctx.inst("C01.R3", "scan", True, "%d unwrap/expect sites on Option<Ordering> in reachable code" % n3, None)
    for n in local:
        fn = M.Fn(cg.fns[n], n)
        for b in fn.call_blocks():
            c = fn.callee(b) or ""
            if c in ("alloc::slice::<impl [T]>::sort_by", "alloc::slice::<impl [T]>::sort_unstable_by", "core::slice::<impl [T]>::sort_unstable_by") and not n.startswith(CORE + "stats::"):
                clos = [x for x in fn.term(b)["func"]["fn"].get("closures", []) if not x.startswith("fn:")]
                arm = BA4.arm(n, b)
                for cn in clos:
                    cf = M.Fn(cg.fns[cn], cn) if cn in cg.fns else None
                    if cf is None:
                        continue
                    callees = [cf.callee(x) or "" for x in cf.call_blocks()]
                    total = any(x.endswith("total_cmp") for x in callees) or any(x.endswith("Ord>::cmp") or x.endswith("cmp::Ord::cmp") for x in callees)
                    lossy = any(x in ("core::option::Option::<T>::unwrap_or", "core::result::Result::<T, E>::unwrap_or") for x in callees) and any(x.endswith("Value::compare") or x.endswith("partial_cmp") for x in callees)
                    ok = total and not lossy
                    ctx.inst("C01.R4", "%s%s#sort_by" % (BA4.canonical(n).replace(CORE, ""), "[" + "|".join(arm) + "]" if arm else ""), True if ok else (False if lossy else None),
                             "comparator %s: total primitive: %s; maps incomparable/failed comparisons to Equal: %s" % (cn.replace(CORE, ""), total, lossy), fn.loc(b))

    # ---------------- R5 unsigned length arithmetic
    ctx.rule("C01.R5", "every `X.len() - k` (checked subtraction in the dev profile) is inside a loop over X or dominated by an emptiness / length test on X that exits", floor=6)
    for n in local:
        f = cg.fns[n]
        fn = M.Fn(f, n)
        k = 0
        for b in range(fn.n):
            t = fn.term(b)
            if t["k"] == "assert" and t["msg"] == "Overflow:Sub" and not t["sp"][5]:
                a_roots = fn.trace(t["ops"][0])
                lens = [r for r in a_roots if r[0] == "call" and (r[1].endswith("::len") or r[1].endswith("::count"))]
                const_b = "int" in t["ops"][1] or "const" in t["ops"][1]
                key = "%s#len-minus[%d]" % (n.replace(CORE, ""), k)
                k += 1
                if not lens or not const_b:
                    ctx.inst("C01.R5", key, None, "subtraction that is not `len() - const`: not decided (operands %s)" % [r[:2] for r in a_roots], fn.loc(b))
                    continue
                lb = lens[0][2]
                coll = fn.trace(fn.term(lb)["args"][0])
                # (i) inside a loop whose iteration implies non-emptiness: the block lies on a cycle that passes an iterator `next` over the same collection
                in_loop = b in fn.reachable(fn.succ(b)[0]) if fn.succ(b) else False
                # (ii) dominated by is_empty()/len()==0 test on the same collection that exits
                guarded = False
                for cb in fn.call_blocks():
                    cc = fn.callee(cb) or ""
                    if (cc.endswith("::is_empty") or cc.endswith("::len")) and fn.dominates(cb, b) and cb != lb:
                        same = M_root_eq(fn.trace(fn.term(cb)["args"][0]), coll)
                        if not same:
                            continue
                        if cc.endswith("::is_empty"):
                            e = switch_edges(fn, cb)
                            if e and b not in fn.reachable(e[0]) and b in fn.reachable(e[1]):
                                guarded = True
                pushed = any((fn.callee(cb) or "").endswith("Vec::<T, A>::push") and fn.dominates(cb, b) and M_root_eq(fn.trace(fn.term(cb)["args"][0]), coll) for cb in fn.call_blocks())
                # (iv) the collection is the argument vector of a built-in arm whose arity guarantees the length (`args.len() - 1` in an AtLeast(1) arm)
                by_arity = False
                base_ = n.split("::{closure")[0]
                if base_ in BA4.members and "int" in t["ops"][1]:
                    inp_ = (core.hir.get(base_) or {}).get("inputs", [])
                    ap_ = next((i_ + 1 for i_, t_ in enumerate(inp_) if "Vec<blots_core::values::Value>" in t_), None)
                    arm_ = BA4.arm(base_, b) if base_ == n else []
                    mins_ = [ar[a_][1] for a_ in arm_ if a_ in ar]
                    if ap_ is not None and mins_ and coll and all(r[0] == "param" and r[1] == ap_ for r in coll):
                        by_arity = min(mins_) >= int(t["ops"][1]["int"])
                ctx.inst("C01.R5", key, bool(in_loop or guarded or pushed or by_arity), "len() - const: inside a loop: %s; dominated by an is_empty() exit on the same collection: %s; dominated by a push onto it: %s; argument vector of an arm whose minimum arity covers it: %s" % (in_loop, guarded, pushed, by_arity), fn.loc(b))

    # ---------------- R6 arithmetic on float->int casts
    ctx.rule("C01.R6", "no checked integer addition/subtraction/multiplication whose operands both come from `f64 as int` casts of user numbers (saturating casts make them overflow)", floor=1)
    n6 = 0
    for n in local:
        fn = M.Fn(cg.fns[n], n)
        k = 0
        for b in range(fn.n):
            t = fn.term(b)
            if t["k"] == "assert" and t["msg"].startswith("Overflow:") and t["msg"].split(":")[1] in ("Add", "Sub", "Mul") and not t["sp"][5]:
                casts = []
                for o in t["ops"]:
                    roots = fn.trace(o)
                    # a user number cast directly (as_number result, or a Number payload reached from a parameter), not a derived float such as log10().floor()
                    casts.append(any(any(p.startswith("as:") and p.endswith(":FloatToInt") for p in (r[2] if r[0] in ("param", "local") else r[3] if r[0] in ("call", "agg") else []))
                                     and (r[0] == "param" or (r[0] == "call" and r[1].endswith("as_number"))) for r in roots))
                if any(casts):
                    n6 += 1
                    other_const = any("int" in o for o in t["ops"])
                    bad = all(casts) or other_const
                    ctx.inst("C01.R6", "%s#%s[%d]" % (n.replace(CORE, ""), t["msg"], k), not bad, "checked %s on a value cast from a user number (saturates at the type's bounds): overflow panics in the dev profile and wraps in release" % t["msg"], fn.loc(b))
                    k += 1
    # |x| and -x of a signed integer cast from a user number: the cast saturates, so the type's minimum is reachable (-infinity, -1e30),
    # and its absolute value / negation overflows (panic in the dev profile, the minimum again in release)
    def user_cast(o):
        return any(any(str(p).startswith("as:") and str(p).endswith(":FloatToInt") for p in (r[2] if r[0] in ("param", "local") else r[3] if r[0] in ("call", "agg") else []))
                   and (r[0] == "param" or (r[0] == "call" and r[1].endswith("as_number"))) for r in fn.trace(o))
    for n in local:
        fn = M.Fn(cg.fns[n], n)
        k = 0
        for b in range(fn.n):
            t = fn.term(b)
            site = None
            if t["k"] == "assert" and t["msg"].startswith("OverflowNeg") and not t["sp"][5] and t.get("ops") and user_cast(t["ops"][0]):
                site = "negation"
            elif t["k"] == "call" and re.match(r"^core::num::<impl i(8|16|32|64|128|size)>::(abs|pow)$", fn.callee(b) or "") and t["args"] and user_cast(t["args"][0]):
                site = H.last(fn.callee(b))
            if site:
                n6 += 1
                ctx.inst("C01.R6", "%s#signed-%s-of-user-cast[%d]" % (n.replace(CORE, ""), site, k), False, "%s of a signed integer that is a saturating cast of a user number: the minimum of the type is reachable and has no %s (overflow panic in the dev profile)" % (site, "positive counterpart" if site != "pow" else "bounded power"), fn.loc(b))
                k += 1
    # `x - k` where x is an unsigned integer cast from a float (the cast saturates at 0 for every non-positive float): underflows unless a
    # zero test of that very x exits first
    for n in local:
        fn = M.Fn(cg.fns[n], n)
        k = 0
        for b in range(fn.n):
            t = fn.term(b)
            if not (t["k"] == "assert" and t["msg"] == "Overflow:Sub" and not t["sp"][5] and len(t.get("ops", [])) == 2):
                continue
            a_, b_ = t["ops"]
            if "int" not in b_ or int(b_["int"]) < 1:
                continue
            roots = fn.trace(a_)
            from_float = any(any(str(p).startswith("as:u") and str(p).endswith(":FloatToInt") for p in (r[2] if r[0] in ("param", "local") else r[3] if r[0] in ("call", "agg") else [])) for r in roots)
            if not from_float:
                continue
            pl = fn.op_place(a_)
            base = fn.ref_root(pl) if pl is not None else None
            guarded = False
            for gb in range(fn.n):
                tt = fn.term(gb)
                if tt["k"] != "switch" or not fn.dominates(gb, b) or gb == b:
                    continue
                for s_ in fn.stmts(gb):
                    if s_["k"] == "assign" and s_["rv"]["k"] == "binop" and s_["rv"]["op"] in ("Eq", "Ne", "Gt", "Ge", "Lt", "Le"):
                        for o_ in (s_["rv"]["a"], s_["rv"]["b"]):
                            p2 = fn.op_place(o_)
                            if p2 is not None and base is not None and fn.ref_root(p2) == base and len([x for x in fn.succ(gb) if b in fn.reachable(x)]) == 1:
                                guarded = True
            n6 += 1
            ctx.inst("C01.R6", "%s#float-cast-minus-%s[%d]" % (n.replace(CORE, ""), b_["int"], k), guarded, "an unsigned integer cast from a float (0 for every non-positive float) minus %s; a test of it that exits comes first: %s" % (b_["int"], guarded), fn.loc(b))
            k += 1
    # unsigned subtraction of a quantity computed from a float (a digit count, a magnitude): nothing bounds it below the minuend unless
    # the two are compared first
    for n in local:
        fn = M.Fn(cg.fns[n], n)
        k = 0
        for b in range(fn.n):
            t = fn.term(b)
            if not (t["k"] == "assert" and t["msg"] == "Overflow:Sub" and not t["sp"][5]):
                continue
            tys = []
            for o in t["ops"]:
                pl = fn.op_place(o)
                tys.append(((fn.f.get("locals") or [])[pl["l"]].get("ty") if pl is not None and pl["l"] < len(fn.f.get("locals") or []) else None))
            if not tys or tys[0] not in ("usize", "u64", "u32", "u16", "u8"):
                continue
            sub_roots = fn.trace(t["ops"][1])

            def float_derived(roots, depth=0):
                for r in roots:
                    if any(isinstance(p, str) and p.startswith("as:") and p.endswith(":FloatToInt") for p in (r[2] if r[0] in ("param", "local") else r[3] if r[0] in ("call", "agg") else [])):
                        return True
                    if r[0] in ("binop", "unop") and depth < 6 and len(r) >= 4:
                        try:
                            rv = fn.blocks[r[2]]["s"][r[3]]["rv"]
                        except (IndexError, KeyError, TypeError):
                            continue
                        for key_ in ("a", "b", "op_", "e"):
                            o_ = rv.get(key_) if isinstance(rv.get(key_), dict) else None
                            if o_ is not None and float_derived(fn.trace(o_), depth + 1):
                                return True
                        if rv.get("k") == "unop" and isinstance(rv.get("op"), dict) and float_derived(fn.trace(rv["op"]), depth + 1):
                            return True
                return False
            from_float = float_derived(sub_roots)
            if not from_float:
                continue
            # a comparison of the same two operands that dominates the subtraction
            guarded = False
            for bb in range(fn.n):
                for st_ in fn.blocks[bb]["s"]:
                    if st_["k"] == "assign" and st_["rv"]["k"] == "binop" and st_["rv"]["op"] in ("Ge", "Gt", "Le", "Lt") and fn.dominates(bb, b):
                        ra, rb = fn.trace(st_["rv"]["a"]), fn.trace(st_["rv"]["b"])
                        ma, mb = fn.trace(t["ops"][0]), sub_roots
                        if (M_root_eq(ra, ma) and M_root_eq(rb, mb)) or (M_root_eq(ra, mb) and M_root_eq(rb, ma)):
                            guarded = True
            n6 += 1
            ctx.inst("C01.R6", "%s#unsigned-minus-float-derived[%d]" % (n.replace(CORE, ""), k), guarded, "unsigned subtraction whose subtrahend is computed from a float (%s); a comparison of the two operands dominates it: %s (without one it underflows for large magnitudes: overflow panic in the dev profile, an absurd width / precision in release)" % ([r[:2] for r in sub_roots][:2], guarded), fn.loc(b))
            k += 1
    ctx.inst("C01.R6", "scan", True, "%d checked integer operations on values cast from user numbers" % n6, None)

    # ---------------- R8 span / source pairing
    ctx.rule("C01.R8", "an error location always comes with the text it indexes: RuntimeError is built with span and source both set or both unset, and a LambdaDef's source is the text its body was parsed from", floor=4)
    for name, hf in sorted(core.hir.items()):
        if name.startswith("<") and " as core::" in name:
            continue  # derived Clone/Debug impls
        k = 0
        for n in H.walk(hf["body"]):
            is_expr = H.kind(n) == "Struct" and all("e" in f_ for f_ in n.get("fields", [])) and n.get("fields")
            if is_expr and ((n["res"].get("def") or "").endswith("error::RuntimeError") or (n["res"].get("self") and name.startswith(CORE + "error::RuntimeError::"))):
                fl = {f_["name"]: S.norm(f_["e"], S.Env()) for f_ in n["fields"]}
                if "span" not in fl or "source" not in fl:
                    continue

                def cls(t):
                    if t == ("path", "core::option::Option::None"):
                        return "none"
                    if t[0] == "ctor" and t[1] == "Some":
                        return "some"
                    if t[0] == "field":
                        return "copied:" + S.show(t[2])
                    return "?"
                a, b_ = cls(fl["span"]), cls(fl["source"])
                ok = a == b_ and a != "?"
                ctx.inst("C01.R8", "%s#RuntimeError{}[%d]" % (name.replace(CORE, ""), k), ok, "span: %s, source: %s" % (a, b_), H.loc(n))
                k += 1
            if is_expr and (n["res"].get("def") or "").endswith("values::LambdaDef"):
                fl = {f_["name"]: f_["e"] for f_ in n["fields"]}
                if "body" not in fl or "source" not in fl:
                    continue
                from lib import scope
                st = scope.sites(hf["body"], lambda x: x is n, S.Env())
                env = st[0][1] if st else S.Env()
                body_t = S.norm(fl["body"], env)
                src_t = S.norm(fl["source"], env)
                gp = S.find_head(body_t, "fn")
                ok, d = None, "body %s; source %s" % (S.show(body_t)[:80], S.show(src_t)[:80])
                parsed_from = None
                for x in walk_terms(body_t):
                    if x[0] == "fn" and x[1] == "get_pairs":
                        parsed_from = x[2]
                if parsed_from is not None:
                    ok = src_t == parsed_from or S.contains(src_t, parsed_from)
                    d = "body parsed from %s; source = %s" % (S.show(parsed_from)[:60], S.show(src_t)[:60])
                elif S.contains(body_t, ("var", "body")) or body_t[0] in ("var", "role"):
                    # body taken from the AST being evaluated: source must be the evaluator's current source
                    ok = src_t in (("var", "source"),)
                    d = "body is the AST node under evaluation; source = %s" % S.show(src_t)
                ctx.inst("C01.R8", "%s#LambdaDef{}[%d]" % (name.replace(CORE, ""), k), ok, d, H.loc(n))
                k += 1
    # the lambda body is evaluated against the lambda's own source
    for b in fc.calls_to(EVAL):
        roots = fc.trace(fc.term(b)["args"][4])
        ok = any(r[0] == "param" and "source" in r[2] and "@Lambda" in r[2] for r in roots)
        ctx.inst("C01.R8", "FunctionDef::call#body-source", ok, "body evaluated with source provenance %s" % [r[:3] for r in roots], fc.loc(b))

    # ---------------- R9 std API preconditions
    ctx.rule("C01.R9", "calls to std APIs that panic on a documented precondition (chunks(0), step_by(0), remove/insert/split_at out of range) are dominated by a test of that very argument that exits", floor=1)
    n9 = 0
    deferred9 = []
    for n in local:
        fn = M.Fn(cg.fns[n], n)
        for b in fn.call_blocks():
            c = fn.callee(b) or ""
            if c in PRECOND:
                ai, need = PRECOND[c]
                n9 += 1
                t = fn.term(b)
                op = t["args"][ai]
                if "int" in op:
                    if need == "nonzero":
                        ctx.inst("C01.R9", "%s->%s" % (n.replace(CORE, ""), H.last(c)), int(op["int"]) != 0, "constant argument %s" % op["int"], fn.loc(b))
                    else:
                        deferred9.append((n, c, op["int"], fn.loc(b)))   # a constant position: decided with the constant indexes (R16)
                    continue
                pl = fn.op_place(op)
                guarded = False
                if pl is not None and need == "nonzero":
                    base = fn.ref_root(pl)
                    # a comparison `arg == 0` on the same local with an exiting true edge that dominates the call
                    for gb in range(fn.n):
                        for s in fn.stmts(gb):
                            if s["k"] == "assign" and s["rv"]["k"] == "binop" and s["rv"]["op"] in ("Eq", "Ne", "Lt", "Le", "Gt", "Ge"):
                                a_, b_ = s["rv"]["a"], s["rv"]["b"]
                                apl = fn.op_place(a_)
                                if apl is not None and fn.ref_root(apl) == base and ("int" in b_ and int(b_["int"]) == 0) and s["rv"]["aty"].startswith(("usize", "u", "i")):
                                    tt = fn.term(gb)
                                    if tt["k"] == "switch" and fn.dominates(gb, b):
                                        succs = fn.succ(gb)
                                        reach = [x for x in succs if b in fn.reachable(x)]
                                        if len(reach) == 1:
                                            guarded = True
                arm = M.region_of(regions, b) if n == BCALL else []
                ctx.inst("C01.R9", "%s%s->%s" % (n.replace(CORE, ""), "[" + "|".join(arm) + "]" if arm else "", H.last(c)), guarded if need == "nonzero" else None,
                         "%s requires its argument to be %s; dominated by a zero test on that same integer with an exit: %s" % (c, "non-zero" if need == "nonzero" else "in range", guarded), fn.loc(b))
    ctx.units["precondition_api_sites"] = n9
    ctx.inst("C01.R9", "scan", True, "%d call sites of precondition-panicking std APIs in reachable code" % n9, None)

    # ---------------- R11 text slicing by computed offsets
    ctx.rule("C01.R11", "no string is sliced by the byte offsets of an ast::Span (`text[span.start_byte..]`): a span may index another text than the one at hand (function bodies), so spans are only handed to checked APIs; other computed slices are inventoried as undecided", floor=1)
    n11 = ctrl = 0
    for n in local:
        fn = M.Fn(cg.fns[n], n)
        k = 0
        for b in fn.call_blocks():
            c = fn.callee(b) or ""
            if "impl core::ops::index::Index<I> for str>::index" in c or "impl core::ops::index::Index<I> for alloc::string::String>::index" in c or re.match(r"^<(str|alloc::string::String) as core::ops::index::Index", c):
                roots = fn.trace(fn.term(b)["args"][1])
                const_bounds = True
                for r in roots:
                    if r[0] == "agg":
                        for s_ in fn.stmts(r[2]):
                            if s_["k"] == "assign" and s_["rv"]["k"] == "agg" and "ops::range::Range" in s_["rv"].get("adt", ""):
                                const_bounds = const_bounds and all("int" in o for o in s_["rv"]["ops"])
                    elif r[0] != "const":
                        const_bounds = False
                if const_bounds:
                    ctrl += 1
                else:
                    n11 += 1
                    # bounds that come from an ast::Span may index a different text (a function body): definite hazard; other computed bounds are value-dependent
                    span_fields = False
                    for r in roots:
                        if r[0] == "agg":
                            for s_ in fn.stmts(r[2]):
                                if s_["k"] == "assign" and s_["rv"]["k"] == "agg" and "ops::range::Range" in s_["rv"].get("adt", ""):
                                    for o in s_["rv"]["ops"]:
                                        for rr in fn.trace(o):
                                            pj = rr[2] if rr[0] in ("param", "local") else rr[3] if rr[0] in ("call", "agg") else []
                                            if any(p in ("start_byte", "end_byte") for p in pj):
                                                span_fields = True
                    # a user string (Value::as_string) sliced at offsets computed from user numbers: the offsets are character
                    # counts at best, the slice wants byte offsets on character boundaries
                    recv_roots = fn.trace(fn.term(b)["args"][0])
                    user_string = bool(recv_roots) and any(r[0] == "call" and r[1].endswith("Value::as_string") for r in recv_roots)
                    user_number = False
                    for r in roots:
                        if r[0] == "agg":
                            for s_ in fn.stmts(r[2]):
                                if s_["k"] == "assign" and s_["rv"]["k"] == "agg" and "ops::range::Range" in s_["rv"].get("adt", ""):
                                    for o in s_["rv"]["ops"]:
                                        if any(rr[0] == "call" and rr[1].endswith("Value::as_number") for rr in fn.trace(o)):
                                            user_number = True
                    # a constant / static string sliced at a computed offset that is not clamped to its length
                    const_recv = bool(recv_roots) and all(r[0] in ("const", "static") for r in recv_roots)
                    clamped = False
                    for r in roots:
                        if r[0] == "agg":
                            for s_ in fn.stmts(r[2]):
                                if s_["k"] == "assign" and s_["rv"]["k"] == "agg" and "ops::range::Range" in s_["rv"].get("adt", ""):
                                    for o in s_["rv"]["ops"]:
                                        if any(rr[0] == "call" and (rr[1].endswith("::min") or rr[1].endswith("::len") or rr[1].endswith("::clamp")) for rr in fn.trace(o)):
                                            clamped = True
                    const_sliced = const_recv and not clamped
                    definite = span_fields or (user_string and user_number) or const_sliced
                    why = " (value-dependent: not decided)"
                    if span_fields:
                        why = " taken from an ast::Span: the span may belong to another text (a function body), so the slice can be out of range"
                    elif const_sliced:
                        why = ": a fixed-length constant string is sliced at a computed offset that is not clamped to its length (a larger value is out of range)"
                    elif user_string and user_number:
                        why = ": a user string is sliced at byte offsets computed from user numbers; an offset inside a multi-byte character panics (`byte index is not a char boundary`)"
                    ctx.inst("C01.R11", "%s#str-slice[%d]" % (n.replace(CORE, ""), k), False if definite else None,
                             "string sliced with computed bounds%s" % why, fn.loc(b))
                    k += 1
    ctx.inst("C01.R11", "scan", True, "%d computed-offset string slices in reachable code" % n11, None)
    ctx.inst("C01.R11", "control#constant-prefix-slices", ctrl >= 1, "the pattern matches %d constant-bound slices (`0x`/`#` prefixes in the AST builder): the rule is not vacuous" % ctrl, None)

    # a String cut at a constant byte offset: the text is a rendered user value (an error message quoting an operand), and byte 64 of
    # arbitrary text is the middle of a character as often as not - `truncate` / `split_off` panic unless the offset is a char boundary
    n_cut = 0
    for n in local:
        fn = M.Fn(cg.fns[n], n)
        k = 0
        for b in fn.call_blocks():
            c = fn.callee(b) or ""
            if re.search(r"^alloc::string::String::(truncate|split_off|insert|insert_str|remove|drain|replace_range)$", c) and not fn.term(b)["sp"][5]:
                args_ = fn.term(b)["args"]
                if len(args_) >= 2 and all(r[0] == "const" for r in fn.trace(args_[1])) and not all(r[0] == "const" and re.match(r"(const )?0_usize", r[1]) for r in fn.trace(args_[1])):
                    recv_const = all(r[0] in ("const", "static") for r in fn.trace(args_[0]))
                    if not recv_const:
                        n_cut += 1
                        ctx.inst("C01.R11", "%s#%s-at-constant-offset[%d]" % (n.replace(CORE, ""), H.last(c), k), False, "%s at a constant byte offset of a text that is not a constant: panics when the offset falls inside a multi-byte character" % H.last(c), fn.loc(b))
                        k += 1
    ctx.inst("C01.R11", "constant-offset-cuts#none", n_cut == 0, "String::truncate / split_off / insert / remove at a constant non-zero byte offset of a computed text: %d" % n_cut, None)
    # ---------------- R12 unwrap / expect on results that depend on input values
    ctx.rule("C01.R12", "no unwrap/expect on an Option/Result produced by a routine that fails for some input VALUE (non-finite number to JSON, text to number, out-of-range conversions, checked arithmetic, parsing stored function text): such failures are reported as errors", floor=1)
    VALUE_FALLIBLE = [
        (r"^serde_json::number::Number::from_f64$", "None for NaN and infinities"),
        (r"::from_str_radix$", "Err on digits outside the radix / out of range"),
        (r"as core::str::traits::FromStr>::from_str$|^core::str::<impl str>::parse", "Err on text that is not a number"),
        (r"^core::char::methods::<impl char>::(from_u32|from_digit)$|^core::char::convert::", "None outside the valid range"),
        (r"as core::convert::TryFrom<.*>>::try_from$|as core::convert::TryInto<.*>>::try_into$", "Err when the value does not fit"),
        (r"::checked_(add|sub|mul|div|rem|pow|neg|shl|shr)$", "None on overflow / division by zero"),
        (r"^serde_json::(de::)?from_(str|slice|value|reader)", "Err on malformed input"),
        (r"^blots_core::values::SerializableValue::to_value$|^blots_core::parser::get_pairs$|^blots_core::expressions::pairs_to_expr", "Err when stored or given source text does not parse"),
        (r"^(core::str::converts|alloc::string::String)::from_utf8", "Err on invalid UTF-8 produced by byte slicing"),
        (r"^std::path::Path::(try_exists|metadata|symlink_metadata|canonicalize|read_link|read_dir)$|^std::fs::(metadata|symlink_metadata|canonicalize|read_link|read_dir|read_to_string|read)$", "Err for a path the OS refuses - e.g. an inline program taken for a file name longer than NAME_MAX (ENAMETOOLONG)"),
    ]
    UNWRAPS = ("core::option::Option::<T>::unwrap", "core::option::Option::<T>::expect", "core::result::Result::<T, E>::unwrap", "core::result::Result::<T, E>::expect")
    n12 = 0
    for n in local:
        fn = M.Fn(cg.fns[n], n)
        k = 0
        for b in fn.call_blocks():
            if (fn.callee(b) or "") not in UNWRAPS:
                continue
            n12 += 1
            roots = fn.trace(fn.term(b)["args"][0])
            for r in roots:
                if r[0] != "call":
                    continue
                why = next((w for pat, w in VALUE_FALLIBLE if re.search(pat, r[1])), None)
                if why is None:
                    continue
                discharged = False
                if r[1].endswith("Number::from_f64"):
                    # accepted idiom: the call is dominated by an is_finite() test of the same number that exits otherwise
                    arg_roots = fn.trace(fn.term(r[2])["args"][0])
                    for cb in fn.calls_matching(lambda d: d.endswith("f64>::is_finite") or d.endswith("impl f64>::is_finite")):
                        if fn.dominates(cb, r[2]) and M_root_eq(fn.trace(fn.term(cb)["args"][0]), arg_roots):
                            discharged = True
                ctx.inst("C01.R12", "%s#%s[%d]" % (n.replace(CORE, ""), H.last(r[1].split("<")[0]) or r[1][-24:], k), discharged,
                         "%s of the result of %s, which is %s" % (H.last(fn.callee(b)), r[1], why), fn.loc(b))
                k += 1
    ctx.inst("C01.R12", "scan", True, "%d unwrap/expect sites in reachable code were traced to the call that produced their operand" % n12, None)

    # ---------------- R13 type guards answer Err, never panic
    ctx.rule("C01.R13", "the type guards every built-in relies on (Value::as_*, HeapValue::as_*) contain no panicking call (unwrap / expect / panic! / unreachable! / indexing) and have a path that builds an error: a value of the wrong kind is reported, not a crash", floor=15)
    PANICKY = re.compile(r"^core::panicking::|::unwrap$|::expect$|::unwrap_unchecked$|as core::ops::index::Index|^core::option::unwrap_failed|^core::result::unwrap_failed|^std::process::(exit|abort)$")
    for n_, f_ in sorted(core.mir.items()):
        if not re.search(r"^blots_core::(values::Value|heap::HeapValue)::as_\w+$", n_):
            continue
        g = M.Fn(f_, n_)
        bad = sorted({g.callee(b) for b in g.call_blocks() if PANICKY.search(g.callee(b) or "")})
        bad += ["assert(%s)" % (g.term(b).get("kind") or "?") for b in range(g.n) if g.term(b)["k"] == "assert" and not g.blocks[b].get("cleanup")]
        errs = [1 for b in range(g.n) for st_ in g.stmts(b) if st_["k"] == "assign" and st_["rv"]["k"] == "agg" and st_["rv"].get("adt") == "core::result::Result" and st_["rv"].get("variant") == "Err"]
        has_err = bool(errs) or any((g.callee(b) or "").endswith("anyhow::error::<impl anyhow::Error>::msg") or "anyhow" in (g.callee(b) or "") for b in g.call_blocks())
        ctx.inst("C01.R13", n_.replace(CORE, ""), not bad and has_err, "panicking calls: %s; builds an error for the wrong kind: %s" % (bad or "none", has_err), g.loc())

    # ---------------- R14 explicit panic sites
    from rules import panics
    panics.explicit_panics(ctx, "C01.R14", [core, cli, wasm], G)
    panics.pratt_nonempty(ctx, "C01.R15", [core, cli, wasm], G)
    panics.constant_indexes(ctx, "C01.R16", [core, cli, wasm], skip_fns=(BCALL,))
    for n_, c_, k_, loc_ in deferred9:
        par_ = cg.fns[n_].get("parent") or n_
        vs_ = panics.VERDICTS.get((par_, H.last(c_)), [])
        v_ = None if not vs_ or None in vs_ else all(vs_)
        if False in vs_:
            v_ = False
        ctx.inst("C01.R9", "%s->%s" % (n_.replace(CORE, ""), H.last(c_)), v_, "constant position %s: %s" % (k_, "the length of the vector is bounded by a test before the call (see C01.R16)" if v_ else ("no bounding test found" if v_ is None else "the bounding test comes too late")), loc_)
    # ---------------- R18 how much is allocated in one go
    ctx.rule("C01.R18", "the size handed to an allocating routine up front (Vec / String with_capacity, reserve, resize, str::repeat, vec![x; n]) is the length of an existing collection or a constant; a size computed from user numbers is used only after a comparison of that very quantity with a bound has exited (otherwise `capacity overflow` panics, or the allocator aborts the process, before the size check is reached)", floor=20)
    ALLOC = re.compile(r"::with_capacity$|::reserve(_exact)?$|Vec::<T, A>::resize$|alloc::str::<impl str>::repeat$|<impl \[T\]>::repeat$|vec::from_elem")
    LENLIKE = re.compile(r"::len$|::count$|::capacity$|::size_hint$|::chars_count$")
    n18 = 0
    for n in local:
        fn = M.Fn(cg.fns[n], n)
        k18 = 0
        for b in fn.call_blocks():
            c = fn.callee(b) or ""
            if not ALLOC.search(c):
                continue
            t = fn.term(b)
            if not t["args"]:
                continue
            op = t["args"][-1] if not c.endswith("from_elem") else t["args"][1]
            if c.endswith("with_capacity") is False and len(t["args"]) >= 2:
                op = t["args"][1]
            n18 += 1

            def classify(roots, depth=0, visited=frozenset()):
                """'safe' | 'user' (computed from numbers) | 'unknown', with the roots that made it so"""
                worst = "safe"
                why = []
                for r in roots:
                    if r[0] == "const":
                        continue
                    if r[0] == "call" and LENLIKE.search(r[1]):
                        continue
                    if r[0] == "call" and re.search(r"::(max|min)$", r[1]) and depth < 6:
                        if r[2] in visited:
                            continue   # the running maximum of a loop: as safe as what else flows into it
                        sub = [x for a_ in fn.term(r[2])["args"] for x in fn.trace(a_)]
                        w2, y2 = classify(sub, depth + 1, visited | {r[2]})
                        if w2 != "safe":
                            worst = w2 if worst != "user" else worst
                            why += y2
                        continue
                    proj = r[-1] if isinstance(r[-1], list) else []
                    from_number = any(str(p_).startswith("as:") and ("Float" in str(p_) or "IntToInt" in str(p_)) for p_ in proj) or (r[0] == "call" and re.search(r"saturating_|wrapping_|checked_|::pow$|as_number|::abs$|::round$|::floor$|::ceil$|::trunc$", r[1]))
                    if from_number:
                        worst = "user"
                        why.append(r)
                    else:
                        if worst == "safe":
                            worst = "unknown"
                        why.append(r)
                return worst, why
            roots = fn.trace(op)
            kind, why = classify(roots)
            key = "%s->%s[%d]" % (n.replace(CORE, ""), H.last(c), k18)
            k18 += 1
            if kind == "safe":
                ctx.inst("C01.R18", key, True, "size is a length / constant (%s)" % [r_[:2] for r_ in roots][:3], fn.loc(b))
                continue
            # a comparison of the same quantity that dominates the call and leaves on one side
            guarded = False
            ids = {(r_[0], r_[1], r_[2]) for r_ in why if r_[0] == "call"}
            for gb in range(fn.n):
                tt = fn.term(gb)
                if tt["k"] != "switch" or not fn.dominates(gb, b) or gb == b:
                    continue
                for s_ in fn.stmts(gb):
                    if s_["k"] == "assign" and s_["rv"]["k"] == "binop" and s_["rv"]["op"] in ("Lt", "Le", "Gt", "Ge"):
                        for o_ in (s_["rv"]["a"], s_["rv"]["b"]):
                            if {(x[0], x[1], x[2]) for x in fn.trace(o_) if x[0] == "call"} & ids:
                                reach = [x for x in fn.succ(gb) if b in fn.reachable(x)]
                                if len(reach) == 1:
                                    guarded = True
            if kind == "user":
                ctx.inst("C01.R18", key, guarded, "size computed from user numbers (%s); a bound test on it that exits comes first: %s" % ([r_[:2] for r_ in why][:2], guarded), fn.loc(b))
            else:
                ctx.inst("C01.R18", key, True if guarded else None, "size of unrecognised origin (%s); bound test first: %s" % ([r_[:2] for r_ in why][:2], guarded), fn.loc(b))
    ctx.units["up_front_allocation_sites"] = n18

    # ---------------- R17 deeply nested JSON is refused, not recursed into
    ctx.rule("C01.R17", "JSON documents are parsed with serde_json's recursion limit in force (128 levels: a deeper document is a reported error): the `unbounded_depth` feature is off and nothing calls disable_recursion_limit - the conversions that walk the parsed value recurse once per level", floor=1)
    from rules import c06 as c06_
    feats_ = c06_.serde_json_features(ctx.metadata)
    for ver_, fs_ in sorted((feats_ or {}).items()):
        ctx.inst("C01.R17", "serde_json@unbounded_depth", "unbounded_depth" not in fs_, "resolved features of serde_json %s: %s" % (ver_, sorted(fs_)), "blots/Cargo.toml")
    off_ = sorted((n_, fn_.loc(b_)) for n_ in cg.fns for fn_ in [M.Fn(cg.fns[n_], n_)] for b_ in fn_.call_blocks() if "disable_recursion_limit" in (fn_.callee(b_) or ""))
    ctx.inst("C01.R17", "disable_recursion_limit#no-callers", not off_, "calls of disable_recursion_limit: %s" % (off_ or "none"), None)

    # ---------------- R10 table lookups that `expect`
    ctx.rule("C01.R10", "operator_info's expect is discharged: every BinaryOp variant has exactly one row in PRECEDENCE_TABLE", floor=26)
    rows = c10.precedence_rows(core)
    for v in core.types[CORE + "ast::BinaryOp"]["variants"]:
        nrows = sum(1 for r in rows if r["binop"] == v["name"])
        ctx.inst("C01.R10", "BinaryOp::%s" % v["name"], nrows >= 1, "%d row(s) in PRECEDENCE_TABLE (operator_info(..).expect(..) panics on a missing row)" % nrows, "blots-core/src/precedence.rs")

    # ---------------- R7 grammar <=> AST builder
    ctx.rule("C01.R7", "every `.next().unwrap()` sequence in the AST builder is no longer than the mandatory child slots the grammar gives the rule; primaries and operators are covered (C10.R2)", floor=6)
    from lib import scope
    # every kind of pair the grammar can put directly inside an `expression` is something the Pratt parser knows: a registered operator
    # or a primary with a builder arm (anything else - e.g. a non-silent rule inside a layout gap - makes pest's PrattParser panic)
    try:
        rows_ = c10.precedence_rows(core)
        ok_b, _why, tail_ = c10.builder_shape(core)
        known_ops = {r_["rule"] for r_ in rows_} | {r_ for ch_ in tail_ for _k, r_ in ch_}
        c10.CRATE[0] = core
        builder_ = core.hir_fn(CORE + "expressions::pairs_to_expr_inner")["body"]
        mprim_ = c10.rule_match(c10.closure_of(builder_, "map_primary", required=False), required=False)
        prim_arms = {H.last(v) for a in (mprim_["arms"] if mprim_ else []) for v in H.pat_variants(a["pat"])}
        kids = set()
        for r_ in ("expression", "lambda_expression"):
            if r_ in G.rules:
                kids |= G.children(G.expr(r_))
        if mprim_ is None or not ok_b:
            ctx.inst("C01.R7", "expression#children", None, "the builder's primary match / operator registrations could not be read", None)
        else:
            stray = sorted(k_ for k_ in kids if k_ not in known_ops and k_ not in prim_arms)
            ctx.inst("C01.R7", "expression#children", not stray, "pair kinds the grammar can yield inside an expression: %d; neither a registered operator nor a primary arm: %s" % (len(kids), stray or "none"), "blots-core/src/grammar.pest")
    except CheckerError as ex_:
        ctx.inst("C01.R7", "expression#children", None, "not decided: %s" % ex_, None)
    for fname in (CORE + "expressions::pairs_to_expr_inner", CORE + "expressions::parse_record_entry"):
        body = core.hir_fn(fname)["body"]
        groups = {}

        def is_unwrap_next(n):
            return H.kind(n) == "MethodCall" and n["name"] == "unwrap" and H.kind(H.strip(n["recv"])) == "MethodCall" and H.strip(n["recv"])["name"] == "next" and "Pairs<" in H.strip(n["recv"]).get("recv_ty", "")

        for n, e, g in scope.sites(body, is_unwrap_next, S.Env()):
            rule = None
            for gg in g:
                if gg[0] == "arm":
                    vs = [H.last(v) for v in H.pat_variants(gg[1]["pat"]) if "parser::Rule::" in v]
                    if vs:
                        rule = vs[0]
            it = H.strip(n["recv"])["recv"]
            itname = H.path_local(it) or S.show(S.norm(it, e))[:40]
            # the iterator's own rule: `let mut inner = <pair>.into_inner()`; a pair taken from another iterator belongs to a child rule
            init = e.inline.get(itname)
            nested = False
            if init is not None:
                t = S.norm(init[0], init[1])
                nested = S.contains_call(t, "unwrap") or S.contains_call(t, "next")
            groups.setdefault((rule, itname, nested), []).append(n)
        for (rule, itname, nested), sites in sorted(groups.items(), key=str):
            if rule is None or rule not in G.rules:
                continue
            if nested:
                ctx.inst("C01.R7", "%s[%s]#%s" % (H.last(fname), rule, itname), None, "%d unwraps on the children of a child pair of %s: the child rule is not resolved, not decided" % (len(sites), rule), H.loc(sites[0]))
                continue
            mand = mandatory_children(G, rule)
            ctx.inst("C01.R7", "%s[%s]#%s" % (H.last(fname), rule, itname), len(sites) <= mand,
                     "%d `.next().unwrap()` on the children of %s; the grammar guarantees %d mandatory child pair(s)" % (len(sites), rule, mand), H.loc(sites[0]))

    # ---------------- inventory (not judged)
    inv = {"unwrap/expect": 0, "index": 0, "explicit panic": 0}
    for n in local:
        fn = M.Fn(cg.fns[n], n)
        for b in fn.call_blocks():
            c = fn.callee(b) or ""
            if c.endswith("::unwrap") or c.endswith("::expect"):
                inv["unwrap/expect"] += 1
            elif "ops::index::Index" in c:
                inv["index"] += 1
            elif c.startswith("core::panicking::") or c.startswith("std::rt::begin_panic"):
                inv["explicit panic"] += 1
    ctx.units["panic_capable_sites_inventoried_not_judged"] = inv


def walk_terms(t):
    if isinstance(t, tuple):
        yield t
        for x in t:
            yield from walk_terms(x)


def M_root_eq(a, b):
    def key(r):
        if r[0] == "param":
            return ("param", r[1], tuple(p for p in r[2] if not p.startswith("as:")))
        if r[0] == "call":
            return ("call", r[1], r[2])
        if r[0] == "local":
            return ("local", r[1])
        return r[:2]
    return {key(x) for x in a} == {key(x) for x in b} and bool(a)


def switch_edges(fn, cb):
    t = fn.term(cb)
    sw = fn.switch_on_local(t["dest"]["l"], t["t"])
    if sw is None:
        return None
    st = sw[1]
    zero = [x[1] for x in st["targets"] if x[0] == "0"]
    if not zero:
        return None
    return st["otherwise"], zero[0]


def mandatory_children(G, rule):
    """number of child pairs the rule always produces (non-silent references outside ?, *, predicates), through silent rules"""
    def count(e, depth=0):
        k = e["k"]
        if depth > 120:
            return 0
        if k == "ident":
            if e["v"] not in G.rules:
                return 0
            if G.ty(e["v"]) == "silent":
                return count(G.expr(e["v"]), depth + 1)
            return 1
        if k == "seq":
            return count(e["a"], depth + 1) + count(e["b"], depth + 1)
        if k == "choice":
            return min(count(e["a"], depth + 1), count(e["b"], depth + 1))
        if k in ("rep1", "push"):
            return count(e["e"], depth + 1)
        return 0
    return count(G.expr(rule))


def callback_guard_sites(core):
    """[(function, k, live guards, loc)] for every call of FunctionDef::call in blots-core: the heap guards that may be live during it"""
    cg = M.CallGraph([core])

    def gk(callee, argtys, dest_ty):
        if callee == "core::cell::RefCell::<T>::borrow" and argtys and HEAPCELL in argtys[0]:
            return "shared"
        if callee == "core::cell::RefCell::<T>::borrow_mut" and argtys and HEAPCELL in argtys[0]:
            return "mut"
        return None
    out = []
    for n in sorted(cg.fns):
        if FCALL not in cg.out.get(n, ()):
            continue
        fn = M.Fn(cg.fns[n], n)
        live_at, gen = M.guard_liveness(fn, gk)
        for k, b in enumerate(fn.calls_to(FCALL)):
            t = fn.term(b)
            moved = {a["move"]["l"] for a in t["args"] if "move" in a and not a["move"]["p"]}
            live = sorted(g for g in live_at.get(b, set()) if g[0] not in moved)
            out.append((n, k, [(g[0], g[1], fn.loc(g[2])) for g in live], fn.loc(b)))
    return out
