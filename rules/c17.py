"""C17 — unit conversion is consistent across the whole unit table (DESIGN §4 C17).
All rules read the literal unit catalogue (`get_all_units`) and the conversion functions from
HIR/MIR facts; coefficients are evaluated in exact rationals (with pi kept symbolic)."""
from fractions import Fraction
from decimal import Decimal
import re
from lib import hir as H
from lib import mir as M
from lib.facts import CheckerError

NEED = ("dev",)

SI = {"pico": -12, "nano": -9, "micro": -6, "milli": -3, "centi": -2, "deci": -1, "deca": 1, "deka": 1, "hecto": 2,
      "kilo": 3, "mega": 6, "giga": 9, "tera": 12, "peta": 15, "exa": 18, "zetta": 21, "yotta": 24,
      "femto": -15, "atto": -18}
BIN = {"kibi": 10, "mebi": 20, "gibi": 30, "tebi": 40, "pebi": 50, "exbi": 60, "zebi": 70, "yobi": 80}
SI_SYM = {"p": -12, "n": -9, "μ": -6, "µ": -6, "u": -6, "m": -3, "c": -2, "d": -1, "da": 1, "h": 2, "k": 3, "M": 6,
          "G": 9, "T": 12, "P": 15, "E": 18, "Z": 21, "Y": 24}


class Val:
    """q * pi^k, exact."""

    def __init__(self, q, k=0):
        self.q, self.k = Fraction(q), k

    def __mul__(self, o):
        return Val(self.q * o.q, self.k + o.k)

    def __truediv__(self, o):
        return Val(self.q / o.q, self.k - o.k)

    def __eq__(self, o):
        return self.q == o.q and self.k == o.k

    def __repr__(self):
        return "%s%s" % (self.q, "" if self.k == 0 else "*pi^%d" % self.k)


def lit_val(n):
    n = H.strip(n)
    k = H.kind(n)
    if k == "Lit" and n["lk"] in ("float", "int"):
        txt = n["v"].replace("_", "")
        v = Fraction(Decimal(txt))
        if n.get("neg"):
            v = -v
        return Val(v)
    if k == "Path" and (n["res"].get("def") or "").endswith("f64::consts::PI"):
        return Val(1, 1)
    if k == "Unary" and n.get("op") == "Neg":
        v = lit_val(n["e"])
        return None if v is None else Val(-v.q, v.k)
    if k == "Binary" and n["op"] in ("Mul", "Div"):
        a, b = lit_val(n["l"]), lit_val(n["r"])
        if a is None or b is None or (n["op"] == "Div" and b.q == 0):
            return None
        return a * b if n["op"] == "Mul" else a / b
    return None


def affine(n, param):
    """a*x + b for an expression over `param` and literals, exact; None if not affine."""
    n = H.strip(n)
    k = H.kind(n)
    if k == "Block" and not n["stmts"] and n.get("expr"):
        return affine(n["expr"], param)
    if k == "Path" and n["res"].get("local") == param:
        return (Fraction(1), Fraction(0))
    if k == "Lit" and n["lk"] in ("float", "int"):
        return (Fraction(0), Fraction(Decimal(n["v"].replace("_", ""))))
    if k == "Binary":
        a, b = affine(n["l"], param), affine(n["r"], param)
        if a is None or b is None:
            return None
        op = n["op"]
        if op == "Add":
            return (a[0] + b[0], a[1] + b[1])
        if op == "Sub":
            return (a[0] - b[0], a[1] - b[1])
        if op == "Mul":
            if a[0] == 0:
                return (a[1] * b[0], a[1] * b[1])
            if b[0] == 0:
                return (a[0] * b[1], a[1] * b[1])
            return None
        if op == "Div":
            if b[0] == 0 and b[1] != 0:
                return (a[0] / b[1], a[1] / b[1])
            return None
    return None


def rows(core):
    body = core.hir_fn("blots_core::units::get_all_units", inline=False)["body"]
    # the catalogue may live in a helper of the module or in a static / const table that get_all_units copies
    bodies, seen_ = [body], {"blots_core::units::get_all_units"}
    for _ in range(3):
        for b_ in list(bodies):
            for x in H.walk(b_):
                d_ = x.get("def") if H.kind(x) == "Call" else ((x.get("res") or {}).get("def") if H.kind(x) == "Path" else None)
                if d_ and d_.startswith("blots_core::units::") and d_ not in seen_ and not d_.startswith("blots_core::units::Unit::new_"):
                    tgt = core.hir.get(d_) or core.statics.get(d_)
                    if tgt is not None and tgt.get("body") is not None:
                        seen_.add(d_)
                        bodies.append(tgt["body"])
    out = []
    for n in [x for b_ in bodies for x in H.walk(b_)]:
        if H.kind(n) == "Call" and (n.get("def") or "").startswith("blots_core::units::Unit::new_"):
            ctor = H.last(n["def"])
            args = n["args"]
            if ctor == "new_temperature":
                ids_n, cat = args[0], "blots_core::units::UnitCategory::Temperature"
                conv = ("temperature", H.path_def(args[1]), H.path_def(args[2]))
            else:
                cat = H.path_def(args[0])
                ids_n = args[1]
                conv = ("linear" if ctor == "new_linear" else "reciprocal", args[2])
            arr = H.strip(ids_n)
            if H.kind(arr) != "Array":
                raise CheckerError("unit row identifiers are not a literal array at %s" % H.loc(n))
            ids = []
            for e in arr["es"]:
                l = H.lit(e)
                if l is None or l["lk"] != "str":
                    raise CheckerError("non-literal unit identifier at %s" % H.loc(e))
                ids.append(l["v"])
            out.append({"cat": H.last(cat) if cat else None, "ids": ids, "conv": conv, "loc": H.loc(n), "ctor": ctor})
    return out


def run(ctx):
    core = ctx.core
    R = rows(core)
    ctx.units["unit_rows"] = len(R)
    ctx.not_decided += ["floating-point round-trip tolerances", "resolve_unit beyond the exact/ambiguous structure (R8)"]

    # ---- R1 identifiers resolve
    ctx.rule("C17.R1", "no identifier is listed for two units (exact spelling); identifiers within a unit are distinct", floor=150)
    seen = {}
    for i, r in enumerate(R):
        if len(set(r["ids"])) != len(r["ids"]):
            ctx.inst("C17.R1", "row=%s#dup-within" % r["ids"][0], False, "identifier repeated within unit %s" % r["ids"], r["loc"])
        for x in r["ids"]:
            seen.setdefault(x, []).append(i)
    for x, rs in sorted(seen.items()):
        rs = sorted(set(rs))
        if len(rs) > 1:
            ctx.inst("C17.R1", "id=%s" % x, False,
                     "identifier %r is listed for %s: resolving it is 'Ambiguous unit', so it does not resolve to its unit" % (
                         x, " and ".join("%s(%s)" % (R[j]["ids"][0], R[j]["cat"]) for j in rs)), R[rs[0]]["loc"])
        else:
            ctx.inst("C17.R1", "id=%s" % x, True, "unique", R[rs[0]]["loc"])
    # case-insensitive collisions must be between different rows with distinct exact spellings (so exact lookups resolve)
    low = {}
    for x, rs in seen.items():
        low.setdefault(x.lower(), set()).add(x)

    # ---- R3 coefficients positive finite non-zero, and evaluable
    ctx.rule("C17.R3", "every linear/reciprocal coefficient is a literal (or quotient/product of literals and PI) that is positive and non-zero", floor=150)
    coef = {}
    for i, r in enumerate(R):
        if r["conv"][0] == "temperature":
            continue
        v = lit_val(r["conv"][1])
        key = "row=%s" % r["ids"][0]
        if v is None:
            ctx.inst("C17.R3", key, None, "coefficient is not a literal expression; cannot be evaluated exactly", r["loc"])
            continue
        coef[i] = v
        ctx.inst("C17.R3", key, v.q > 0, "coefficient = %r" % v, r["loc"])

    # ---- R2 prefix coherence
    ctx.rule("C17.R2", "for a unit named <metric prefix><base name> with the base unit in the same category, coefficient ratio = 10^k (2^10k for binary prefixes), exactly", floor=60)
    by_cat = {}
    for i, r in enumerate(R):
        by_cat.setdefault(r["cat"], []).append(i)
    prefixed = {}  # row index -> (base row index, exponent base, exp)
    for i, r in enumerate(R):
        if i not in coef:
            continue
        done = False
        for name in r["ids"]:
            for table, base in ((SI, 10), (BIN, 2)):
                for p, e in table.items():
                    if name.lower().startswith(p) and len(name) > len(p):
                        rest = name[len(p):]
                        for j in by_cat[r["cat"]]:
                            if j != i and j in coef and R[j]["conv"][0] == r["conv"][0] and any(rest.lower() == y.lower() for y in R[j]["ids"]):
                                # base name itself must not be a prefixed name of a third row (e.g. "grams" is base of "kilograms")
                                want = Val(Fraction(base) ** e)
                                got = coef[i] / coef[j]
                                if r["conv"][0] == "reciprocal":
                                    got = coef[j] / coef[i]
                                ctx.inst("C17.R2", "row=%s/base=%s" % (name, R[j]["ids"][0]), got == want,
                                         "coef(%s)/coef(%s) = %r, prefix %s wants %s^%d" % (name, R[j]["ids"][0], got, p, base, e), r["loc"])
                                prefixed[i] = (j, base, e)
                                done = True
                                break
                    if done:
                        break
                if done:
                    break
            if done:
                break
    # symbol identifiers: in a name-prefixed row every id of the form <prefix symbol><base-row id> must carry the same factor;
    # in any row, no id may be <prefix symbol><another id of the same row>.
    ctx.rule("C17.R2b", "symbol identifiers carry the same metric factor as the unit's name (km in the kilometers row, not elsewhere)", floor=40)
    for i, r in enumerate(R):
        for x in r["ids"]:
            for ps, e in SI_SYM.items():
                if x.startswith(ps) and len(x) > len(ps):
                    rest = x[len(ps):]
                    if rest in r["ids"]:
                        ctx.inst("C17.R2b", "row=%s/id=%s" % (r["ids"][0], x), False,
                                 "identifier %r is the %s-prefixed form of %r listed in the same unit: both convert identically" % (x, ps, rest), r["loc"])
                    if i in prefixed:
                        j, base, pe = prefixed[i]
                        if base == 10 and rest in R[j]["ids"]:
                            # lower-case aliases are listed on purpose ("mpa" for MPa): accept any prefix symbol equal up to case
                            cands = {ee for pp, ee in SI_SYM.items() if pp.lower() == ps.lower()}
                            ctx.inst("C17.R2b", "row=%s/id=%s" % (r["ids"][0], x), pe in cands,
                                     "symbol %r = prefix %r (10^%d) + %r of the base unit; the unit's name carries 10^%d" % (x, ps, e, rest, pe), r["loc"])

    # every spelled-out name of a prefixed unit carries that unit's prefix: `decimetres` listed on the decameter row is a factor 100
    for i, r in enumerate(R):
        if i not in prefixed or prefixed[i][1] != 10:
            continue
        pe = prefixed[i][2]
        for x in r["ids"]:
            hits = sorted({e_ for p_, e_ in SI.items() if len(p_) >= 4 and x.lower().startswith(p_) and len(x) > len(p_) + 2})
            if hits:
                ctx.inst("C17.R2b", "row=%s/name=%s" % (r["ids"][0], x), pe in hits, "the name %r starts with the prefix for 10^%s; its unit is the 10^%d multiple of %s" % (x, hits, pe, R[prefixed[i][0]]["ids"][0]), r["loc"])

    # ---- R4 temperature maps are inverse
    ctx.rule("C17.R4", "each temperature unit's to_kelvin/from_kelvin bodies are affine maps over literals that compose to the identity in exact arithmetic", floor=3)
    for r in R:
        if r["conv"][0] != "temperature":
            continue
        to_p, from_p = r["conv"][1], r["conv"][2]
        key = "row=%s" % r["ids"][0]
        if not to_p or not from_p or to_p not in core.hir or from_p not in core.hir:
            ctx.inst("C17.R4", key, None, "conversion functions are not plain fn items", r["loc"])
            continue
        affs = []
        for p in (to_p, from_p):
            f = core.hir[p]
            pn = H.pat_binds(f["params"][0])
            a = affine(f["body"], pn[0]) if pn else None
            affs.append(a)
        if None in affs:
            # not affine: a clamping / rounding step makes the map many-to-one, and then no inverse gives the value back
            lossy = sorted({x["name"] for p in (to_p, from_p) for x in H.walk(core.hir[p]["body"]) if H.kind(x) == "MethodCall" and x["name"] in
                            ("max", "min", "abs", "clamp", "round", "floor", "ceil", "trunc", "signum", "rem_euclid", "fract", "round_ties_even")
                            and (x.get("recv_ty") or H.strip(x["recv"]).get("ty") or "").lstrip("&") in ("f64", "f32")})
            ctx.inst("C17.R4", key, False if lossy else None, "conversion body is not an affine expression over literals%s" % ("" if not lossy else ": it applies %s, which maps different temperatures to the same number - identity, round trip and transitivity fail for those" % lossy), r["loc"])
            continue
        (a1, b1), (a2, b2) = affs
        comp = (a2 * a1, a2 * b1 + b2)
        ctx.inst("C17.R4", key, comp == (1, 0) and a1 != 0,
                 "%s: x->%s*x+%s ; %s: x->%s*x+%s ; from(to(x)) = %s*x+%s" % (H.last(to_p), a1, b1, H.last(from_p), a2, b2, comp[0], comp[1]), r["loc"])

    # ---- R7 convert_to_base / convert_from_base are inverse arm by arm
    ctx.rule("C17.R7", "convert_to_base and convert_from_base are inverse per ConversionType variant (x*c vs x/c; c/x both; to_kelvin vs from_kelvin)", floor=3)
    tb = core.hir_fn("blots_core::units::Unit::convert_to_base")
    fb = core.hir_fn("blots_core::units::Unit::convert_from_base")

    def arms(f):
        ms = H.matches_on(f["body"], "units::ConversionType")
        if len(ms) != 1:
            raise CheckerError("expected one match on ConversionType in convert_*_base")
        out = {}
        for a in ms[0]["arms"]:
            for v in H.pat_variants(a["pat"]):
                out[H.last(v)] = a
        return out, H.pat_binds(f["params"][1])[0]

    ta, tparam = arms(tb)
    fa, fparam = arms(fb)

    def shape(n, param):
        """(op, left-role, right-role) of the value-producing expression; looks through the zero guard."""
        n = H.strip(n)
        if H.kind(n) == "Block" and n.get("expr") is not None and not n["stmts"]:
            return shape(n["expr"], param)
        if H.kind(n) == "Block" and n.get("expr") is not None and all(st_.get("k") == "Let" and H.kind(H.strip(st_.get("init") or {})) in ("Tup", "Path") for st_ in n["stmts"]):
            # an inlined private helper: `let (coefficient, value) = (coefficient, value); <body>` - follow the renaming of the value
            for st_ in n["stmts"]:
                init_ = H.strip(st_["init"])
                if H.kind(st_["pat"]) == "Tuple" and H.kind(init_) == "Tup":
                    for p_, e_ in zip(st_["pat"]["pats"], init_["es"]):
                        if H.path_local(H.strip(e_)) == param and H.pat_binds(p_):
                            param = H.pat_binds(p_)[0]
                elif H.path_local(init_) == param and H.pat_binds(st_["pat"]):
                    param = H.pat_binds(st_["pat"])[0]
            return shape(n["expr"], param)
        if H.kind(n) == "If":
            # `if value == 0.0 { INFINITY } else { c / value }`: the branch taken for every non-zero value is the conversion
            if not n.get("else"):
                return None
            c_ = H.strip(n["cond"])
            main = n["else"]
            if H.kind(c_) == "Binary" and c_["op"] == "Ne":
                main = n["then"]
            elif H.kind(c_) == "Binary" and c_["op"] in ("Gt", "Ge", "Lt", "Le") and any(H.lit(x_) is not None for x_ in (c_["l"], c_["r"])):
                return ("const", "one-sided test %s against a constant: values on the other side of it do not reach the conversion" % c_["op"], "value")
            elif not (H.kind(c_) == "Binary" and c_["op"] == "Eq"):
                return None
            m_ = H.final_expr(main)
            if H.kind(m_) in ("Path", "Lit"):
                return ("const", H.last(H.path_def(m_) or "") or str((H.lit(m_) or {}).get("v")), "value")
            return shape(main, param)
        if H.kind(n) == "Binary":
            def role(x):
                x = H.strip(x)
                if H.kind(x) == "Path":
                    l = x["res"].get("local")
                    return "value" if l == param else l
                return "?"
            return (n["op"], role(n["l"]), role(n["r"]))
        if H.kind(n) == "Call":
            f = H.strip(n["f"])
            return ("call", H.path_local(f), tuple("value" if H.path_local(a) == param else "?" for a in n["args"]))
        return None

    for v in sorted(set(ta) | set(fa)):
        if v not in ta or v not in fa:
            ctx.inst("C17.R7", "variant=%s" % v, False, "variant handled by only one of convert_to_base/convert_from_base", H.loc(tb["body"]))
            continue
        s1, s2 = shape(ta[v]["body"], tparam), shape(fa[v]["body"], fparam)
        if v == "Linear":
            ok = s1 == ("Mul", "value", "coefficient") and s2 == ("Div", "value", "coefficient") or \
                 s1 == ("Mul", "coefficient", "value") and s2 == ("Div", "value", "coefficient")
        elif v == "Reciprocal":
            ok = s1 == ("Div", "coefficient", "value") and s2 == ("Div", "coefficient", "value")
        elif v == "Temperature":
            ok = s1 == ("call", "to_kelvin", ("value",)) and s2 == ("call", "from_kelvin", ("value",))
        else:
            ok = None
        lossy7 = sorted({x["name"] for arm_ in (ta.get(v), fa.get(v)) if arm_ is not None for x in H.walk(arm_["body"]) if H.kind(x) == "MethodCall" and x["name"] in
                         ("max", "min", "abs", "clamp", "round", "floor", "ceil", "trunc", "signum", "rem_euclid") and (x.get("recv_ty") or H.strip(x["recv"]).get("ty") or "").lstrip("&") in ("f64", "f32")})
        if lossy7:
            ok = False
            s1, s2 = "applies %s to the coefficient or the value" % lossy7, "a clamped or rounded factor is a different factor for some units / values: identity, round trip and prefix ratios fail there"
        if ok is not True and not lossy7 and v in ta and v in fa:
            # any arithmetic spelling: the two arms are rational functions of the value and the variant's fields - compose them on
            # exact rational sample points (an identity of rational functions that holds at more points than its degree holds everywhere)
            from fractions import Fraction as Fr_

            def evalx(n_, env_):
                n_ = H.strip(n_)
                k_ = H.kind(n_)
                if k_ == "Block" and not n_["stmts"] and n_.get("expr") is not None:
                    return evalx(n_["expr"], env_)
                if k_ == "Lit":
                    try:
                        return Fr_(str(n_.get("v")).replace("_", "").replace("f64", ""))
                    except (ValueError, ZeroDivisionError):
                        return None
                if k_ == "Path":
                    return env_.get(H.path_local(n_))
                if k_ == "Unary" and n_.get("op") in ("Neg", "Deref"):
                    x_ = evalx(n_["e"], env_)
                    return None if x_ is None else (-x_ if n_["op"] == "Neg" else x_)
                if k_ == "Binary" and n_["op"] in ("Add", "Sub", "Mul", "Div"):
                    a_, b_ = evalx(n_["l"], env_), evalx(n_["r"], env_)
                    if a_ is None or b_ is None or (n_["op"] == "Div" and b_ == 0):
                        return None
                    return {"Add": a_ + b_, "Sub": a_ - b_, "Mul": a_ * b_, "Div": a_ / b_ if b_ != 0 else None}[n_["op"]]
                return None
            flds = sorted(set(H.pat_binds(ta[v]["pat"])) | set(H.pat_binds(fa[v]["pat"])))
            pts = [(Fr_(7, 3), 0), (Fr_(-11, 5), 1), (Fr_(13, 2), 2), (Fr_(1, 9), 3)]
            res_ = []
            for x0, i_ in pts:
                envf = {f_: Fr_(3 + 2 * j_ + i_, 2 + j_) for j_, f_ in enumerate(flds)}
                y_ = evalx(ta[v]["body"], dict(envf, **{tparam: x0}))
                z_ = evalx(fa[v]["body"], dict(envf, **{fparam: y_})) if y_ is not None else None
                res_.append(None if z_ is None else z_ == x0)
            if None not in res_:
                ok = all(res_)
                s1, s2 = "arithmetic over %s" % flds, "from_base(to_base(x)) == x at %d exact sample points: %s" % (len(pts), ok)
        if ok is False and isinstance(s1, (tuple, type(None))) and isinstance(s2, (tuple, type(None))) and "const" not in (str((s1 or ("",))[0]), str((s2 or ("",))[0])) and (s1 is None or s2 is None or "?" in str(s1) + str(s2) or "call" in (s1[0], s2[0])):
            ok = None   # a spelling the shape reader does not follow (a helper, a block): no verdict; a decided pair of operators that is not inverse stays a finding
        ctx.inst("C17.R7", "variant=%s" % v, ok, "to_base: %s ; from_base: %s" % (s1, s2), H.loc(ta[v]["body"]))

    # ---- R10 one unit table in every build
    ctx.rule("C17.R10", "the unit table does not depend on how the crate is built: nothing in units.rs is gated on a cargo feature, and the workspace takes blots-core with its default features (a gated group of units exists under `cargo test --workspace`, where features are unified, and is missing from a CLI built on its own)", floor=2)
    import os as os_, tomllib as toml_
    from lib import facts as F17
    try:
        utxt = open(os_.path.join(F17.REPO, "blots-core", "src", "units.rs"), encoding="utf-8").read()
        gates = sorted(set(re.findall(r"#\[cfg(?:_attr)?\(([^\]]*feature[^\]]*)\)\]", utxt)))
        ctx.inst("C17.R10", "units.rs#no-feature-gates", not gates, "cfg(feature ..) attributes in units.rs: %s" % (gates or "none"), "blots-core/src/units.rs")
    except OSError as ex_:
        ctx.inst("C17.R10", "units.rs#no-feature-gates", None, "units.rs not read: %s" % ex_, None)
    try:
        man17 = toml_.load(open(os_.path.join(F17.REPO, "Cargo.toml"), "rb"))
        dep = (man17.get("workspace", {}).get("dependencies", {}) or {}).get("blots-core")
        off = isinstance(dep, dict) and dep.get("default-features") is False
        per = []
        for m_ in ("blots", "blots-wasm"):
            try:
                mm_ = toml_.load(open(os_.path.join(F17.REPO, m_, "Cargo.toml"), "rb"))
                d_ = (mm_.get("dependencies", {}) or {}).get("blots-core")
                if isinstance(d_, dict) and d_.get("default-features") is False:
                    per.append(m_)
            except OSError:
                pass
        ctx.inst("C17.R10", "blots-core#default-features", not off and not per, "blots-core is taken without its default features by: %s" % ((["workspace"] if off else []) + per or "nobody"), "Cargo.toml")
    except Exception as ex_:
        ctx.inst("C17.R10", "blots-core#default-features", None, "manifest not read: %s" % ex_, None)

    # ---- R5 category gate (MIR dominance) and who-may-call
    ctx.rule("C17.R5", "in units::convert the category comparison (from.category vs to.category) with error exit dominates convert_to_base(from)/convert_from_base(to); those two have no other callers", floor=3)
    conv = M.Fn(core.mir_fn("blots_core::units::convert"), "blots_core::units::convert")
    to_calls = conv.calls_to("blots_core::units::Unit::convert_to_base")
    from_calls = conv.calls_to("blots_core::units::Unit::convert_from_base")
    cmps = [b for b in conv.call_blocks() if (conv.callee(b) or "").endswith(("PartialEq>::ne", "PartialEq>::eq", "cmp::PartialEq::ne", "cmp::PartialEq::eq"))
            and "units::UnitCategory" in (conv.term(b)["argtys"][0])]
    if not to_calls or not from_calls:
        ctx.inst("C17.R5", "convert#calls", False, "units::convert does not call convert_to_base and convert_from_base", conv.loc())
    elif not cmps:
        ctx.inst("C17.R5", "convert#gate", False, "no comparison of UnitCategory values in units::convert", conv.loc())
    else:
        ok_gate = False
        detail = ""
        for cb in cmps:
            t = conv.term(cb)
            is_ne = conv.callee(cb).endswith("ne")
            sw = conv.switch_on_local(t["dest"]["l"], start=t["t"])
            if sw is None:
                continue
            sb, st = sw
            zero = [b for v, b in st["targets"] if v == "0"]
            eq_succ = (zero[0] if is_ne else st["otherwise"]) if zero else None
            ne_succ = (st["otherwise"] if is_ne else zero[0]) if zero else None
            if eq_succ is None:
                continue
            uses = set(to_calls + from_calls)
            dom = all(conv.dominates(cb, u) for u in uses)
            ne_reaches = any(u in conv.reachable(ne_succ) for u in uses)
            eq_reaches = all(u in conv.reachable(eq_succ) for u in uses)
            # operands: fields `category` of two distinct locals, which are the receivers of the two convert calls
            a_root = conv.field_root(t["args"][0], "category")
            b_root = conv.field_root(t["args"][1], "category")
            recv_to = conv.ref_root(conv.term(to_calls[0])["args"][0])
            recv_from = conv.ref_root(conv.term(from_calls[0])["args"][0])
            roles = a_root is not None and b_root is not None and a_root != b_root and {a_root, b_root} == {recv_to, recv_from}
            detail = "cmp@bb%d dominates uses=%s, mismatch-edge reaches convert=%s, match-edge reaches=%s, operands={%s,%s}.category receivers=(%s,%s)" % (
                cb, dom, ne_reaches, eq_reaches, a_root, b_root, recv_to, recv_from)
            if dom and not ne_reaches and eq_reaches and roles:
                ok_gate = True
                break
        ctx.inst("C17.R5", "convert#gate", ok_gate, detail, conv.loc())
        # every Ok the function returns is the value that went through the gated pipeline (no shortcut around the gate / the second lookup)
        n_ok = 0
        for b in range(conv.n):
            if conv.blocks[b].get("cleanup"):
                continue
            for st_ in conv.stmts(b):
                if st_["k"] == "assign" and st_["rv"]["k"] == "agg" and st_["rv"].get("adt") == "core::result::Result" and st_["rv"].get("variant") == "Ok" and st_["lhs"]["l"] == 0 and not st_["lhs"]["p"]:
                    roots = conv.trace(st_["rv"]["ops"][0])
                    via = bool(roots) and all(r[0] == "call" and r[1] == "blots_core::units::Unit::convert_from_base" for r in roots)
                    ctx.inst("C17.R5", "convert#ok-result[%d]" % n_ok, via and all(conv.dominates(u, b) for u in from_calls),
                             "Ok(..) returned by convert carries %s; must be the result of convert_from_base(convert_to_base(value)) behind both unit lookups and the category gate" % [r[:2] for r in roots], conv.loc(b))
                    n_ok += 1
        if n_ok == 0:
            ctx.inst("C17.R5", "convert#ok-result", None, "no `Ok(..)` construction found in units::convert (result forwarded from a callee?)", conv.loc())
        # receivers come from resolve_unit(from_unit) / resolve_unit(to_unit): params 2 and 3
        r1 = conv.call_result_origin(recv_to := conv.ref_root(conv.term(to_calls[0])["args"][0]))
        r2 = conv.call_result_origin(conv.ref_root(conv.term(from_calls[0])["args"][0]))
        okr = r1 is not None and r2 is not None and r1[0].endswith("units::resolve_unit") and r2[0].endswith("units::resolve_unit") and r1[1] == [2] and r2[1] == [3]
        ctx.inst("C17.R5", "convert#roles", okr, "convert_to_base receiver <- %s ; convert_from_base receiver <- %s (want resolve_unit(param2) / resolve_unit(param3))" % (r1, r2), conv.loc())
    # who-may-call
    for target in ("blots_core::units::Unit::convert_to_base", "blots_core::units::Unit::convert_from_base"):
        callers = set()
        for cr in (ctx.core, ctx.cli, ctx.wasm):
            for name, f in cr.mir.items():
                for b in f["blocks"]:
                    t = b["t"]
                    if t["k"] == "call" and "fn" in t["func"] and t["func"]["fn"].get("res", t["func"]["fn"]["def"]) == target:
                        callers.add(name)
        ctx.inst("C17.R5", "callers(%s)" % H.last(target), callers == {"blots_core::units::convert"},
                 "callers = %s" % sorted(callers), None)

    # ---- R8 resolve_unit never guesses: every Ok(..) is X.remove(0)/X[0] under `X.len() == 1`
    ctx.rule("C17.R8", "resolve_unit returns Ok only with the single element of a candidate list tested `len() == 1`; the exact-match list is consulted before the case-insensitive one", floor=2)
    # case-insensitive matching folds every letter the table uses, not only ASCII ones (µ / Μ, ω / Ω)
    non_ascii = sorted({x for r in R for x in r["ids"] if any(ord(ch) > 127 and ch.isalpha() for ch in x)})
    ascii_only = []
    for fname_, hf_ in sorted(core.hir.items()):
        if not fname_.startswith("blots_core::units::") or hf_.get("body") is None or "::tests::" in fname_:
            continue
        for x in H.walk(hf_["body"]):
            if H.kind(x) == "MethodCall" and x["name"] in ("eq_ignore_ascii_case", "to_ascii_lowercase", "to_ascii_uppercase", "make_ascii_lowercase", "make_ascii_uppercase"):
                ascii_only.append("%s in %s (%s)" % (x["name"], H.last(fname_), H.loc(x)))
    ctx.inst("C17.R8", "case-folding#covers-the-table", not (non_ascii and ascii_only), "identifiers with non-ASCII letters: %d (e.g. %s); ASCII-only case folding in the unit look-up: %s" % (len(non_ascii), non_ascii[:3], ascii_only or "none"), None)
    # a unit enters a candidate list at most once: a push per matching *identifier* (inside a loop over the unit's identifiers) counts a unit
    # with two spellings of one name (hz / Hz) twice and turns `HZ` into an ambiguity
    RU_NAME = "blots_core::units::resolve_unit"
    hru = core.hir_fn(RU_NAME)
    per_alias = []
    n_push = 0
    for lp in H.walk(hru["body"]):
        if H.kind(lp) != "For":
            continue
        for inner in H.walk(lp["body"]):
            if H.kind(inner) == "For" and any(H.kind(y) == "Field" and y["name"] == "identifiers" for y in H.walk(inner["iter"])):
                for x in H.walk(inner["body"]):
                    if H.kind(x) == "MethodCall" and x["name"] == "push" and "Unit" in (x.get("recv_ty") or x["recv"].get("ty") or ""):
                        per_alias.append(H.loc(x))
    n_push = sum(1 for x in H.walk(hru["body"]) if H.kind(x) == "MethodCall" and x["name"] == "push" and "Unit" in (x.get("recv_ty") or x["recv"].get("ty") or ""))
    ctx.inst("C17.R8", "resolve_unit#one-entry-per-unit", not per_alias, "%d push(es) into candidate lists; inside a loop over a unit's identifiers (one entry per matching spelling): %s" % (n_push, per_alias or "none"), H.loc(hru["body"]))
    # the exact look-up is made with the spelling the user wrote: a folded spelling handed to matches_exact makes an unlisted casing that
    # collides with two units (`KB`: kb / kB) resolve silently to whichever is listed in that case
    idp = (H.pat_binds(hru["params"][0]) or [None])[0]

    from rules.c02 import parents as parents_of
    PAR = parents_of(hru["body"])

    def binder_of(node, name):
        """the construct that binds `name` as seen from `node`: ('let', init) | ('for', iter) | ('param',) | ('other',)"""
        child, cur = node, PAR.get(id(node))
        while cur is not None:
            if isinstance(cur, dict) and cur.get("k") == "Block" and isinstance(child, (dict, list)):
                stmts = cur.get("stmts", [])
                # statements before the one we came from (or all of them when we came from the tail expression)
                upto = len(stmts)
                for i_, st_ in enumerate(stmts):
                    if st_ is child or any(y is child for y in ([st_.get("init"), st_.get("e"), st_.get("els")])):
                        upto = i_
                        break
                for st_ in reversed(stmts[:upto]):
                    if st_.get("k") == "Let" and name in H.pat_binds(st_["pat"]):
                        init_ = H.strip(st_["init"]) if st_.get("init") is not None else None
                        if init_ is not None and H.kind(st_["pat"]) == "Tuple" and H.kind(init_) == "Tup" and len(init_["es"]) == len(st_["pat"]["pats"]):
                            init_ = next((e2 for p2, e2 in zip(st_["pat"]["pats"], init_["es"]) if name in H.pat_binds(p2)), init_)
                        return ("let", init_)
            if isinstance(cur, dict) and cur.get("k") == "For" and name in H.pat_binds(cur["pat"]) and child is not cur.get("iter"):
                return ("for", H.strip(cur["iter"]))
            if isinstance(cur, dict) and cur.get("k") == "Closure" and any(name in H.pat_binds(p_) for p_ in cur.get("params", [])):
                return ("other",)
            if isinstance(cur, dict) and cur.get("k") in ("Arm",) or (isinstance(cur, dict) and "pat" in cur and "body" in cur and cur.get("k") not in ("For", "Closure") and name in H.pat_binds(cur["pat"])):
                return ("other",)
            child, cur = cur, PAR.get(id(cur))
        return ("param",) if name == idp else ("other",)

    def origins(e_, depth=0):
        """expressions an argument may stand for: through lets (also the `let (params) = (args)` of an inlined helper) and `for`
        variables over array literals; ('param',) is resolve_unit's own identifier"""
        e_ = H.strip(e_)
        while H.kind(e_) in ("AddrOf",) or (H.kind(e_) == "Unary" and e_.get("op") == "Deref") or (H.kind(e_) == "MethodCall" and e_["name"] in ("as_str", "as_ref", "borrow", "deref")):
            e_ = H.strip(e_.get("e") or e_.get("recv"))
        l_ = H.path_local(e_)
        if l_ is None or depth > 6:
            return [e_]
        b_ = binder_of(e_, l_)
        if b_[0] == "param":
            return [("param", l_)]
        if b_[0] == "let" and b_[1] is not None:
            return origins(b_[1], depth + 1)
        if b_[0] == "for":
            if H.kind(b_[1]) == "Array":
                return [o_ for el in b_[1].get("es", []) for o_ in origins(el, depth + 1)]
            return [b_[1]]
        return [e_]
    verdicts = []
    # (hir_fn hands back resolve_unit with its private helpers inlined: `let (params) = (args); body`)
    for x in H.walk(hru["body"]):
        if H.kind(x) == "MethodCall" and (x.get("def") or "").endswith("units::Unit::matches_exact") and x.get("args"):
            verdicts += origins(x["args"][0])
    folded = [H.loc(o_) for o_ in verdicts if not isinstance(o_, tuple) and any(H.kind(y) == "MethodCall" and y["name"] in ("to_lowercase", "to_uppercase", "to_ascii_lowercase", "to_ascii_uppercase") for y in H.walk(o_))]
    as_written = [o_ for o_ in verdicts if isinstance(o_, tuple) and o_[1] == idp]
    ctx.inst("C17.R8", "resolve_unit#exact-lookup-as-written", False if folded else (True if as_written and len(as_written) == len(verdicts) else None),
             "matches_exact is asked with: %d time(s) the identifier as written, folded spellings at %s, other: %d" % (len(as_written), folded or "none", len(verdicts) - len(as_written) - len(folded)), H.loc(hru["body"]))
    RU = "blots_core::units::resolve_unit"
    ru = M.Fn(core.mir_fn(RU), RU)
    TAKE = ("::remove", "::swap_remove", "::pop")

    def vec_of(fn_, op):
        return fn_.ref_root(op)

    def guarded_by_len_one(fn_, V, use_block):
        """use_block is reachable only through the `len(V) == 1` edge of a test of V's length"""
        for lb in fn_.calls_matching(lambda d: d.endswith("Vec::<T, A>::len") or d.endswith("<impl [T]>::len")):
            t = fn_.term(lb)
            if vec_of(fn_, t["args"][0]) != V or not fn_.dominates(lb, use_block):
                continue
            L = t["dest"]["l"]
            # (a) `match v.len() { 1 => .. }`: a switch on the length itself
            sw = fn_.switch_on_local(L, t["t"])
            if sw is not None:
                one = [tb for val, tb in sw[1]["targets"] if val == "1"]
                if one and use_block in fn_.edge_dominated(sw[0], one[0]):
                    return True
            # (c) `match (a.len(), b.len()) { (1, _) => .. }`: the length is a field of a tuple, the switch is on that field
            for tb in range(fn_.n):
                for st_ in fn_.stmts(tb):
                    if st_["k"] == "assign" and st_["rv"]["k"] == "agg" and st_["rv"].get("kind") == "tuple":
                        pos = [i_ for i_, o_ in enumerate(st_["rv"]["ops"]) if (fn_.op_place(o_) or {}).get("l") == L]
                        if not pos:
                            continue
                        T = st_["lhs"]["l"]
                        for sb in range(fn_.n):
                            tt_ = fn_.term(sb)
                            if tt_["k"] != "switch":
                                continue
                            pl_ = fn_.op_place(tt_["discr"])
                            if pl_ is None or pl_["l"] != T or not pl_["p"] or pl_["p"][0].get("f") != pos[0]:
                                continue
                            one = [t2 for val, t2 in tt_["targets"] if val == "1"]
                            if one and use_block in fn_.edge_dominated(sb, one[0]):
                                return True
            # (b) `if v.len() == 1`: Eq(len, 1) then a switch on the boolean
            nb = t["t"]
            for st_ in fn_.stmts(nb):
                if st_["k"] == "assign" and st_["rv"]["k"] == "binop" and st_["rv"]["op"] == "Eq":
                    ops = [st_["rv"]["a"], st_["rv"]["b"]]
                    if any((fn_.op_place(o) or {}).get("l") == L for o in ops) and any(o.get("int") == "1" for o in ops):
                        sw2 = fn_.switch_on_local(st_["lhs"]["l"], nb)
                        if sw2 is not None and use_block in fn_.edge_dominated(sw2[0], sw2[1]["otherwise"]):
                            return True
        return False

    def is_exact_list(fn_, V):
        """True when V collects units selected by matches_exact, False when by a case-insensitive comparison, None when unknown"""
        verdict = None
        # pushes onto V inside this function, control-dependent on a matches_exact / lowercase test
        closures = []
        for cb in fn_.call_blocks():
            c = fn_.callee(cb) or ""
            t = fn_.term(cb)
            if c.endswith("::push") and vec_of(fn_, t["args"][0]) == V:
                # the tests this push is control-dependent on
                for sb in range(fn_.n):
                    st = fn_.term(sb)
                    if st["k"] != "switch" or st.get("dty") != "bool" or fn_.blocks[sb].get("cleanup"):
                        continue
                    if cb not in fn_.edge_dominated(sb, st["otherwise"]):
                        continue
                    rr = fn_.trace(st["discr"])
                    if any(r[0] == "call" and r[1].endswith("Unit::matches_exact") for r in rr):
                        verdict = True
                    elif verdict is None and any(r[0] == "call" and (r[1].endswith("::any") or r[1].endswith("Unit::matches")) for r in rr):
                        verdict = False
        if verdict is not None:
            return verdict
        # V = <iterator chain with a filter closure>.collect()
        for kind_, bi, si, x in fn_.full_defs(V):
            if kind_ == "call":
                chain = [bi]
                seen = set()
                while chain:
                    cb = chain.pop()
                    if cb in seen:
                        continue
                    seen.add(cb)
                    t = fn_.term(cb)
                    closures += [c_ for c_ in t["func"].get("fn", {}).get("closures", []) if not c_.startswith("fn:")]
                    for a_ in t["args"]:
                        for r in fn_.trace(a_):
                            if r[0] == "call":
                                chain.append(r[2])
        for c_ in closures:
            try:
                cf = M.Fn(core.mir_fn(c_), c_)
            except Exception:
                continue
            if cf.calls_matching(lambda d: d.endswith("Unit::matches_exact")):
                return True
            if cf.calls_matching(lambda d: d.endswith("to_lowercase") or d.endswith("eq_ignore_ascii_case")):
                verdict = False
        return verdict

    oks = []
    for b_ in range(ru.n):
        if ru.blocks[b_].get("cleanup"):
            continue
        for st_ in ru.stmts(b_):
            if st_["k"] == "assign" and st_["rv"]["k"] == "agg" and st_["rv"].get("adt") == "core::result::Result" and st_["rv"].get("variant") == "Ok" and st_["lhs"]["l"] == 0 and not st_["lhs"]["p"]:
                oks.append((b_, st_))
    if not oks:
        ctx.inst("C17.R8", "resolve_unit#ok", None, "no Ok(..) construction found in resolve_unit", ru.loc())
    order = []
    for i, (b_, st_) in enumerate(oks):
        roots = ru.trace(st_["rv"]["ops"][0])
        takes = [r for r in roots if r[0] == "call" and (r[1].endswith(TAKE) or r[1].endswith("Index<I>>::index"))]
        if not roots or len(takes) != len(roots):
            # a value produced by a std / third-party routine other than taking the single candidate (a cache lookup, a default, a first()):
            # definitely not "the unique match"; a value from a crate-local helper or an unknown source is left undecided
            # (an element bound by a slice pattern over the candidate list - `match list.as_slice() { [unit] => .. }` - is an element of
            # that list; how many elements the pattern admits is not followed: undecided)
            foreign = [r for r in roots if r not in takes and r[0] == "call" and not (r[1].startswith("blots_core::") or r[1].startswith("<blots_core")) and not re.search(r"::(as_slice|as_mut_slice|deref|as_ref)$", r[1])]
            ctx.inst("C17.R8", "resolve_unit#ok[%d]" % i, False if foreign else None,
                     "Ok(..) carries %s: not the single element taken from a candidate list%s" % ([r[:2] for r in roots], " (the answer does not come from the table scan)" if foreign else ""), ru.loc(b_))
            continue
        good = True
        Vs = set()
        for r in takes:
            V = vec_of(ru, ru.term(r[2])["args"][0])
            Vs.add(V)
            good = good and guarded_by_len_one(ru, V, r[2])
        kinds = {V: is_exact_list(ru, V) for V in Vs}
        lab = "exact" if all(v is True for v in kinds.values()) else ("case-insensitive" if all(v is False for v in kinds.values()) else "list")
        order.append((b_, lab))
        ctx.inst("C17.R8", "resolve_unit#ok[%s]" % lab, good, "Ok(..) returns the element taken from the %s candidate list, reachable only when that list's len() == 1: %s" % (lab, good), ru.loc(b_))
    ex = [b_ for b_, lab in order if lab == "exact"]
    ci = [b_ for b_, lab in order if lab == "case-insensitive"]
    if ex and ci:
        # the exact answer is decided first: no path reaches the exact Ok after the case-insensitive one was possible
        ok = all(e not in ru.reachable(c) for e in ex for c in ci) and all(any(c in ru.reachable(pb) for pb in ru.pred(e)) or True for e in ex for c in ci)
        first = all(not ru.dominates(c, e) for e in ex for c in ci)
        ctx.inst("C17.R8", "resolve_unit#exact-first", ok and first, "the exact-match Ok is decided before the case-insensitive list is consulted: %s" % (ok and first), ru.loc())
    else:
        ctx.inst("C17.R8", "resolve_unit#exact-first", None, "could not identify both candidate lists (exact: %d, case-insensitive: %d)" % (len(ex), len(ci)), ru.loc())

    # ---- R9 the convert built-in hands the user's identifiers to the table unmodified
    ctx.rule("C17.R9", "every caller of units::convert in the evaluator passes (number, from, to) taken from its own arguments in that order, the two identifiers exactly as the user wrote them (no rewriting between as_string and the lookup): every listed spelling, including non-ASCII ones, reaches resolve_unit", floor=1)
    BC = "blots_core::functions::BuiltInFunction::call"
    callers = M.callers_of([core, ctx.cli, ctx.wasm], lambda d: d == "blots_core::units::convert")
    n9 = 0
    for name, bbs in sorted(callers.items()):
        if name.startswith("blots_core::units::"):
            continue
        fn = M.Fn(core.mir_fn(name), name) if name.startswith("blots_core::") or name.startswith("<blots_core") else None
        if fn is None:
            continue
        for b in bbs:
            t = fn.term(b)
            want = [("as_number", 0), ("as_string", 1), ("as_string", 2)]
            verdicts, det = [], []

            def judge(f_, op, acc, ai, depth=0):
                """True: the operand is acc(args[ai]) unmodified; False: it was rewritten on the way; None: not decided"""
                roots = f_.trace(op)
                if not roots:
                    return None
                out = True
                for r in roots:
                    if r[0] == "call" and r[1] == "blots_core::values::Value::" + acc:
                        rr = f_.trace(f_.term(r[2])["args"][0])
                        idx_ok = None
                        for q in rr:
                            if q[0] == "call" and q[1].endswith("Index<I>>::index"):
                                it = f_.term(q[2])["args"][1]
                                idx_ok = it.get("int") is not None and int(it["int"]) == ai
                        if idx_ok is False:
                            return False
                        if idx_ok is None:
                            out = None
                    elif r[0] == "call" and (r[1].startswith("blots_core::") or r[1].startswith("<blots_core")) and depth < 2:
                        # an extracted helper: what does it return?
                        try:
                            g_ = M.Fn(core.mir_fn(r[1]), r[1])
                        except Exception:
                            return None
                        ret = g_.trace({"copy": {"l": 0, "p": []}})
                        if ret and all(x[0] == "param" for x in ret):
                            sub = [judge(f_, f_.term(r[2])["args"][x[1] - 1], acc, ai, depth + 1) for x in ret]
                            if any(v is False for v in sub):
                                return False
                            if any(v is None for v in sub):
                                out = None
                        elif any(x[0] == "call" and not x[1].startswith("blots_core::") and not x[1].startswith("<blots_core") for x in ret):
                            return False  # the helper computes a new string / number with a std routine (replace, trim, to_lowercase, ...)
                        else:
                            out = None
                    elif r[0] == "call":
                        return False  # rewritten by a non-transparent std routine
                    else:
                        out = None
                return out

            for i, (acc, ai) in enumerate(want):
                v = judge(fn, t["args"][i], acc, ai)
                verdicts.append(v)
                det.append("%s <- %s: %s" % (["value", "from", "to"][i], [r[:2] for r in fn.trace(t["args"][i])], {True: "unmodified", False: "REWRITTEN or wrong argument", None: "not decided"}[v]))
            verdict = False if any(v is False for v in verdicts) else (None if any(v is None for v in verdicts) else True)
            ctx.inst("C17.R9", "%s->units::convert[%d]" % (name.replace("blots_core::", ""), n9), verdict, "; ".join(det) + " (want as_number(args[0]), as_string(args[1]), as_string(args[2]) through value-preserving conversions only)", fn.loc(b))
            n9 += 1

    # the number the convert built-in answers with is what units::convert returned, on every path (no shortcut that skips the look-ups)
    BA = M.BuiltinArms(core, M.CallGraph([core]))
    fr = BA.region("Convert")
    if fr is None:
        ctx.inst("C17.R9", "Convert#result", None, "no Convert arm found", None)
    else:
        fn_, blocks_ = fr
        vals = []
        for b in sorted(blocks_):
            if fn_.blocks[b].get("cleanup"):
                continue
            for st_ in fn_.stmts(b):
                if st_["k"] == "assign" and st_["rv"]["k"] == "agg" and (st_["rv"].get("adt") or "").endswith("values::Value") and st_["rv"].get("variant") == "Number":
                    roots = fn_.trace(st_["rv"]["ops"][0])
                    vals.append((b, roots))
        if not vals:
            ctx.inst("C17.R9", "Convert#result", None, "no Value::Number construction found in the Convert arm (result built elsewhere?)", fn_.loc())
        for i_, (b, roots) in enumerate(vals):
            good = bool(roots) and all(r[0] == "call" and r[1] == "blots_core::units::convert" for r in roots)
            foreign = [r[:2] for r in roots if not (r[0] == "call" and r[1] == "blots_core::units::convert")]
            ctx.inst("C17.R9", "Convert#result[%d]" % i_, True if good else (False if any(r[0] in ("call", "param") for r in foreign) else None),
                     "the arm answers Number(%s)%s" % ([r[:2] for r in roots], "" if good else ": a result that did not go through units::convert skips unit resolution and the category gate"), fn_.loc(b))


REFERENCE = {
    # exact definitions (SI brochure / international yard and pound agreement 1959 / NIST SP 811), name -> (category, value in the table's base unit)
    "inches": ("Length", "0.0254"), "feet": ("Length", "0.3048"), "yards": ("Length", "0.9144"), "miles": ("Length", "1609.344"),
    "nautical miles": ("Length", "1852"), "fathoms": ("Length", "1.8288"), "furlongs": ("Length", "201.168"),
    "astronomical units": ("Length", "149597870700"), "light years": ("Length", "9460730472580800"),
    "pounds": ("Mass", "0.45359237"), "ounces": ("Mass", "0.028349523125"), "stones": ("Mass", "6.35029318"),
}


def run_thorough(ctx):
    R = rows(ctx.core)
    ctx.rule("C17.R6", "reference constants: exact international definitions equal the literal coefficients", floor=8)
    for r in R:
        for name in r["ids"]:
            if name in REFERENCE and REFERENCE[name][0] == r["cat"] and r["conv"][0] == "linear":
                v = lit_val(r["conv"][1])
                want = Fraction(Decimal(REFERENCE[name][1]))
                ctx.inst("C17.R6", "row=%s" % name, v is not None and v.k == 0 and v.q == want, "table %r, definition %s" % (v, want), r["loc"])
