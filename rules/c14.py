"""C14 — indexing, spreading and the list/string/record built-ins satisfy their laws (DESIGN §4 C14).
Decided clauses only: character (not byte) APIs on user strings, stable sort API, index normalisation siblings,
and a frozen table of the key primitive each list/string/record built-in is built on."""
import re
from lib import hir as H
from lib import mir as M
from lib import sig as S
from lib import scope
from lib.facts import CheckerError

NEED = ("dev",)
CORE = "blots_core::"
BCALL = CORE + "functions::BuiltInFunction::call"
EVAL = CORE + "expressions::evaluate_ast"

BYTE_API = re.compile(r"^core::str::<impl str>::(len|get|get_mut|get_unchecked|get_unchecked_mut|split_at|split_at_mut|char_indices|bytes|as_bytes|find|rfind|is_char_boundary|floor_char_boundary|ceil_char_boundary|match_indices|rmatch_indices)$"
                      r"|^alloc::string::String::(len|truncate|insert|insert_str|remove|split_off|drain|replace_range|pop)$"
                      r"|^<(str|alloc::string::String) as core::ops::index::Index(Mut)?<"
                      r"|impl core::ops::index::Index(Mut)?<I> for (str|alloc::string::String)>::index")

# key primitive(s) each built-in arm is built on: required resolved callees (suffix match); "closure:" = inside a closure created in the arm.
# Frozen from the tree after reading each arm; a replaced primitive (split -> split_terminator, sort_by -> sort_unstable_by) is reported.
KEY = {
    "Len": ["core::str::<impl str>::chars", "as core::iter::traits::iterator::Iterator>::count", "alloc::vec::Vec::<T, A>::len"],
    "Head": ["core::slice::<impl [T]>::first", "core::str::<impl str>::chars", "core::str::iter::Chars<'a> as core::iter::traits::iterator::Iterator>::next"],
    "Tail": ["core::slice::<impl [T]>::get", "core::str::<impl str>::chars", "core::iter::traits::iterator::Iterator::skip"],
    "Slice": ["core::slice::<impl [T]>::get", "core::str::<impl str>::chars"],
    "Unique": [CORE + "values::Value::equals"],
    "Sort": ["alloc::slice::<impl [T]>::sort_by", "closure:" + CORE + "values::Value::compare"],
    "SortBy": ["alloc::slice::<impl [T]>::sort_by", "closure:" + CORE + "values::Value::compare", "closure:" + CORE + "functions::FunctionDef::call"],
    "Reverse": ["core::slice::<impl [T]>::reverse"],
    "Split": ["core::str::<impl str>::split"],
    "Join": ["alloc::slice::<impl [T]>::join", "closure:" + CORE + "values::Value::stringify_internal"],
    "Concat": ["as core::iter::traits::collect::Extend<T>>::extend", "alloc::vec::Vec::<T, A>::push", "core::str::<impl str>::chars"],
    "Flatten": ["as core::iter::traits::collect::Extend<T>>::extend", "alloc::vec::Vec::<T, A>::push"],
    "Zip": ["core::cmp::Ord::max", "core::slice::<impl [T]>::get"],
    "Chunk": ["core::slice::<impl [T]>::chunks"],
    "Keys": ["indexmap::map::IndexMap::<K, V, S>::keys"],
    "Values": ["indexmap::map::IndexMap::<K, V, S>::values"],
    "Entries": ["indexmap::map::IndexMap::<K, V, S>::iter"],
    "GroupBy": ["indexmap::map::IndexMap::<K, V, S>::entry", "::or_default", "alloc::vec::Vec::<T, A>::push"],
    "CountBy": ["indexmap::map::IndexMap::<K, V, S>::entry", "::or_insert"],
    "Includes": [CORE + "values::Value::equals", "core::str::<impl str>::contains"],
}
# documented argument counts (docs + built-in table at the pinned tree; read against each arm's use of args[..])
ARITY = {'Sort': ('Exact', 1, 1), 'SortBy': ('Exact', 2, 2), 'Unique': ('Exact', 1, 1), 'Reverse': ('Exact', 1, 1), 'Concat': ('AtLeast', 2, None), 'Flatten': ('Exact', 1, 1),
         'Zip': ('AtLeast', 2, None), 'Chunk': ('Exact', 2, 2), 'Slice': ('Exact', 3, 3), 'Head': ('Exact', 1, 1), 'Tail': ('Exact', 1, 1), 'Range': ('Between', 1, 2), 'Keys': ('Exact', 1, 1),
         'Values': ('Exact', 1, 1), 'Entries': ('Exact', 1, 1), 'GroupBy': ('Exact', 2, 2), 'CountBy': ('Exact', 2, 2), 'Join': ('Exact', 2, 2), 'Split': ('Exact', 2, 2), 'Len': ('Exact', 1, 1),
         'Includes': ('Exact', 2, 2), 'Any': ('Exact', 1, 1), 'All': ('Exact', 1, 1), 'Dot': ('Exact', 2, 2), 'Replace': ('Exact', 3, 3), 'Trim': ('Exact', 1, 1), 'Uppercase': ('Exact', 1, 1), 'Lowercase': ('Exact', 1, 1)}
FORBIDDEN = re.compile(r"sort_unstable|::split_terminator|::rsplit|::splitn|::split_inclusive|::split_whitespace|::dedup")
# per built-in: routines that look like the key primitive but decide something else (each is a definite finding in that arm)
LOOKALIKE = {
    # equality of values is Value::equals: a set of printed forms / hashes / derived == identifies 1 with "1" or separates equal records
    "Unique": re.compile(r"hash::set::HashSet|btree::set::BTreeSet|Value::stringify|as core::cmp::PartialEq>::(eq|ne)$|as core::hash::Hash>::hash"),
    "Includes": re.compile(r"hash::set::HashSet|Value::stringify|blots_core::values::Value as core::cmp::PartialEq>::(eq|ne)$"),
    # the order of equal elements is the input order: the comparator compares the keys and nothing else
    # ... and the order of the keys is Value::compare's (0 and -0 compare equal, so they stay in input order): no second ordering of numbers
    "Sort": re.compile(r"cmp::Ordering::then(_with)?$|::sort_by_key|::sort_by_cached_key|slice::<impl \[T\]>::sort$|::reverse$|::total_cmp$|f64 as core::cmp::PartialOrd>::partial_cmp$"),
    "SortBy": re.compile(r"cmp::Ordering::then(_with)?$|::sort_by_key|::sort_by_cached_key|slice::<impl \[T\]>::sort$|::total_cmp$|f64 as core::cmp::PartialOrd>::partial_cmp$"),
    # the first character is one character; the rest is everything after it: a pattern-stripping routine removes every leading repeat
    "Head": re.compile(r"::trim_(start_|end_|left_|right_)?matches$|::strip_(prefix|suffix)$"),
    "Tail": re.compile(r"::trim_(start_|end_|left_|right_)?matches$|::strip_(prefix|suffix)$|::trim_start$|::trim$"),
    "GroupBy": re.compile(r"hash::map::HashMap|btree::map::BTreeMap"),
    "CountBy": re.compile(r"hash::map::HashMap|btree::map::BTreeMap"),
    "Keys": re.compile(r"::sort|hash::map::HashMap"),
    "Values": re.compile(r"::sort|hash::map::HashMap"),
    "Entries": re.compile(r"::sort|hash::map::HashMap"),
}


def region_callees(fn, region, cg):
    cs = set()
    for b in region:
        if fn.term(b)["k"] == "call" and fn.callee(b):
            cs.add(fn.callee(b))
        for s in fn.stmts(b):
            if s["k"] == "assign" and s["rv"]["k"] == "agg" and s["rv"].get("kind") == "closure":
                st = [s["rv"]["closure"]]
                seen = set()
                while st:
                    cn = st.pop()
                    if cn in seen or cn not in cg.fns:
                        continue
                    seen.add(cn)
                    cf = M.Fn(cg.fns[cn], cn)
                    for cb in cf.call_blocks():
                        if cf.callee(cb):
                            cs.add("closure:" + cf.callee(cb))
                    for bb in cf.blocks:
                        for s2 in bb["s"]:
                            if s2["k"] == "assign" and s2["rv"]["k"] == "agg" and s2["rv"].get("kind") == "closure":
                                st.append(s2["rv"]["closure"])
    return cs


def run(ctx):
    core = ctx.core
    cg = M.CallGraph([core])
    ctx.not_decided += ["every law about contents (permutation, stability proof, flatten/chunk, join/split, partitions, range contents): these quantify over runtime values; only the primitive each arm is built on is pinned (R4)"]
    bic = M.Fn(core.mir_fn(BCALL), BCALL)
    regions, _ = M.variant_regions(bic, CORE + "functions::BuiltInFunction", root_param=1)

    # ---------------- R1 no byte-offset string API on user strings
    ctx.rule("C14.R1", "the evaluator and the built-ins use no byte-offset str/String API (len, get, range indexing, find, split_at, ...) on user strings: strings are the sequence of characters that indexing and spreading expose", floor=2)
    roots = [EVAL, BCALL, CORE + "expressions::evaluate_binary_op_ast", CORE + "expressions::flatten_spread_value", CORE + "expressions::evaluate_do_block_expr"]
    n_sites = 0
    for name, f in sorted(cg.fns.items()):
        if not any(name == r or name.startswith(r + "::{closure") for r in roots):
            continue
        fn = M.Fn(f, name)
        k = 0
        for b in fn.call_blocks():
            c = fn.callee(b) or ""
            if BYTE_API.search(c):
                n_sites += 1
                arm = M.region_of(regions, b) if name == BCALL else []
                ctx.inst("C14.R1", "%s%s#%s[%d]" % (name.replace(CORE, ""), "[" + ",".join(arm) + "]" if arm else "", H.last(c.split("<")[0]) or c[-20:], k), False,
                         "byte-offset API %s on a user string (a non-ASCII string behaves differently from indexing/spreading)" % c, fn.loc(b))
                k += 1
    ctx.inst("C14.R1", "scan", True, "scanned the evaluator functions and their closures: %d byte-offset string API call sites" % n_sites, None)
    # positive control: the same pattern must match the known byte slicing of ASCII literal prefixes in the AST builder
    ctrl = 0
    for name, f in cg.fns.items():
        if name.startswith(CORE) and not any(name == r or name.startswith(r + "::{closure") for r in roots):
            fn = M.Fn(f, name)
            ctrl += sum(1 for b in fn.call_blocks() if BYTE_API.search(fn.callee(b) or ""))
    # (the AST builder slices ASCII prefixes `0x`, `#` off literals, the error renderer converts offsets: legitimate byte APIs outside the evaluator)
    ctx.inst("C14.R1", "control#pattern-matches-elsewhere", True if ctrl >= 1 else None, "the pattern matches %d byte-offset API sites in blots-core outside the evaluator: the rule is not vacuous" % ctrl, None)

    # ---------------- R2 stable sort
    # indexing inside a function body: the index expression's variables are captured like any others
    ctx.rule("C14.R5", "inside a function, `x[i]` and `x.f` see the same x and i as outside: the capture analysis visits both the indexed expression and the index expression (an index variable that is not captured is looked up at call time, where it is unbound or someone else's)", floor=2)
    from rules import c04 as c04_
    c04_.free_variable_rule(ctx, "C14.R5", core, only=lambda k: k.startswith("recurses-into=Expr::Access") or k.startswith("recurses-into=Expr::DotAccess"))

    ctx.rule("C14.R2", "sort and sort_by use the stable slice::sort_by; no sort_unstable* anywhere in the built-ins", floor=3)
    BA = M.BuiltinArms(core, cg)
    for v in ("Sort", "SortBy"):
        fr = BA.region(v)
        calls = [fr[0].callee(b) for b in fr[1] if fr[0].term(b)["k"] == "call" and "sort" in (fr[0].callee(b) or "")] if fr else []
        ok2 = True if calls == ["alloc::slice::<impl [T]>::sort_by"] else (None if not calls else False)
        ctx.inst("C14.R2", v, ok2, "sorting calls in the arm: %s%s" % (calls, " (no sorting call in the arm itself: moved into a helper? not decided)" if not calls else ""), bic.loc())
    uns = []
    for n, f in cg.fns.items():
        if n.startswith(BCALL) or any(n.startswith(m_) for m_ in BA.members):
            fn_ = M.Fn(f, n)
            uns += [(n, fn_.callee(b)) for b in fn_.call_blocks() if "sort_unstable" in (fn_.callee(b) or "")]
    ctx.inst("C14.R2", "no-unstable-sort", not uns, "sort_unstable* calls in the built-ins: %s" % uns, None)

    # ---------------- R3 index normalisation siblings
    ctx.rule("C14.R3", "list and string indexing share one normalisation: truncate to i64, negative -> add the length (elements resp. characters), still negative -> null, absent -> null; record / dot / #name access yield null for absent keys", floor=4)
    hev = core.hir_fn(EVAL)
    m = H.main_match(hev["body"], "ast::Expr")
    arms = {}
    for a in m["arms"]:
        for v in H.pat_variants(a["pat"]):
            arms[H.last(v)] = a
    acc = arms.get("Access")
    if acc is None:
        raise CheckerError("no Access arm")
    inner = [n for n in H.walk(acc["body"]) if H.kind(n) == "Match" and n.get("src") == "match" and n["scrut"].get("ty", "").endswith("values::Value")]
    if not inner:
        raise CheckerError("no match on the indexed value in the Access arm")
    sub = {}
    for a in inner[0]["arms"]:
        for v in H.pat_variants(a["pat"]):
            sub[H.last(v)] = a

    def index_shape(arm, coll_kind):
        """normalised (length expr, index expr, element access) of an indexing arm"""
        blk = H.strip(arm["body"])
        env = S.Env()
        lets = {}
        if H.kind(blk) != "Block":
            return None
        e2 = env.child()
        for s in blk["stmts"]:
            if s["k"] == "Let" and H.kind(s["pat"]) == "Bind" and s.get("init") is not None:
                lets[s["pat"]["name"]] = S.norm(s["init"], e2)
                ce = e2.child()
                e2.inline[s["pat"]["name"]] = (s["init"], ce)
        fin = S.norm(blk["expr"], e2) if blk.get("expr") is not None else None
        return lets, fin

    RAW_TERMS = {}
    want_idx_tpl = lambda LEN: ("if", ("bin", "Lt", "RAW", ("lit", "0")), ("cast", "usize", ("bin", "Add", ("cast", "i64", LEN), "RAW")), ("cast", "usize", "RAW"))
    for kind, LENF, ACCESS in (("List", lambda c: ("call", "len", c), "get"), ("String", lambda c: ("call", "count", ("call", "chars", c)), "nth")):
        a = sub.get(kind)
        if a is None:
            ctx.inst("C14.R3", "Access#%s" % kind, False, "no %s arm" % kind, None)
            continue
        blk = H.strip(a["body"])
        # raw_index: `idx.as_number()? as i64`
        raws = [n for n in H.walk(blk) if H.kind(n) == "Let" and H.kind(n.get("pat")) == "Bind" and n.get("init") is not None and H.kind(n["init"]) == "Cast" and n["pat"].get("ty") == "i64"]
        ok_raw = True if (len(raws) >= 1 and S.contains_head(S.norm(raws[0]["init"], S.Env()), "try")) else None
        if raws:
            RAW_TERMS[kind] = S.norm(raws[0]["init"], S.Env())
            if any(S.contains_call(RAW_TERMS[kind], nm_) for nm_ in ("floor", "ceil", "round", "abs", "trunc_", "rem_euclid")):
                ok_raw = False   # the index is the number truncated toward zero, the same for lists and strings
        # negative branch: adjusted = LEN as i64 + raw; if adjusted < 0 -> null   (possibly inside a shared helper, which hir_fn shows inlined)
        lt0 = lambda n: H.kind(n) == "If" and H.kind(H.strip(n["cond"])) == "Binary" and H.strip(n["cond"])["op"] == "Lt" and H.lit(H.strip(n["cond"])["r"]) and H.lit(H.strip(n["cond"])["r"])["v"] == "0"
        ifs = [n for n in H.walk(blk) if lt0(n)]
        ok_neg = True if len(ifs) == 2 else None
        len_ok = None
        null_ok = None
        if ok_neg:
            outer = ifs[0]
            add_sites = scope.sites(blk, lambda n: H.kind(n) == "Binary" and n["op"] == "Add" and any(y is n for y in H.walk(outer["then"])), S.Env())
            if add_sites:
                n_, e_, _g = add_sites[0]
                t = S.norm(H.strip(n_["l"]), e_)  # `<len> as i64` (the cast is looked through by strip)
                while t and t[0] in ("cast",):
                    t = t[2]
                is_chars = bool(t) and t[0] == "call" and t[1] == "count" and len(t) > 2 and t[2][0] == "call" and t[2][1] == "chars"
                is_len = bool(t) and t[0] == "call" and t[1] == "len"
                if kind == "List":
                    len_ok = True if is_len else (False if is_chars else None)
                else:
                    # a string's length for indexing is its number of characters; `.len()` on the string is its byte length
                    len_ok = True if is_chars else (False if (is_len and "str" in S.show(t) or is_len and S.contains_call(t, "as_string")) else (False if is_len else None))
            rets = [n for n in H.walk(ifs[1]["then"]) if H.kind(n) == "Ret"]
            if rets:
                rv = S.norm(rets[0]["e"], S.Env())
                if rv == ("path", CORE + "values::Value::Null"):
                    null_ok = True
                elif rv == ("path", "core::option::Option::None"):
                    null_ok = None  # the helper answers None; what the caller makes of it is not modelled
                else:
                    null_ok = False
        # element access and default
        fin = H.final_expr(blk)
        tf = S.norm(fin, S.Env())
        acc_ok = True if (tf[0] == "call" and tf[1] == "unwrap_or" and tf[-1] == ("path", CORE + "values::Value::Null") and S.contains_call(tf, ACCESS)) else None
        ctx.inst("C14.R3", "Access#%s" % kind, S.both(ok_raw, ok_neg, len_ok, null_ok, acc_ok),
                 "raw index truncated to i64: %s; negative adds the %s length: %s; still negative -> null: %s; element via .%s(..).unwrap_or(Null): %s (None = shape not recognised)" % (ok_raw, "character" if kind == "String" else "element", len_ok, null_ok, ACCESS, acc_ok), H.loc(a["body"]))
    if "List" in RAW_TERMS and "String" in RAW_TERMS:
        same_ = RAW_TERMS["List"] == RAW_TERMS["String"]
        ctx.inst("C14.R3", "Access#raw-index-agreement", same_, "list index: %s; string index: %s (`[...s][i]` and `s[i]` must pick the same position)" % (S.show(RAW_TERMS["List"]), S.show(RAW_TERMS["String"])), H.loc(acc["body"]))
    else:
        ctx.inst("C14.R3", "Access#raw-index-agreement", None, "the index conversions of the list and string arms were not both found", H.loc(acc["body"]))
    # record access / dot access / input reference: get(key).copied().unwrap_or(Null)
    for label, arm_ in (("Access#Record", sub.get("Record")), ("DotAccess", arms.get("DotAccess")), ("InputReference", arms.get("InputReference"))):
        if arm_ is None:
            ctx.inst("C14.R3", label, False, "arm missing", None)
            continue
        oks = []
        for n in H.walk(arm_["body"]):
            if H.kind(n) == "MethodCall" and n["name"] == "unwrap_or":
                t = S.norm(n, S.Env())
                oks.append(t[0] == "call" and t[-1] == ("path", CORE + "values::Value::Null") and S.contains_call(t, "get"))
        ctx.inst("C14.R3", label, any(oks), "absent key -> null through get(..).unwrap_or(Null): %s" % any(oks), H.loc(arm_["body"]))

    # ---------------- R4 key primitives
    ctx.rule("C14.R4", "each list/string/record built-in is built on its frozen key primitive(s) (str::split, slice::join, slice::reverse, slice::chunks, stable sort_by over Value::compare, Value::equals for unique/includes, IndexMap keys/values/iter/entry, chars for strings) and on no look-alike (split_terminator, sort_unstable, dedup, ...)", floor=20)
    for v, req in sorted(KEY.items()):
        fr = BA.region(v)
        if fr is None:
            ctx.inst("C14.R4", v, False, "no arm for %s" % v, None)
            continue
        cs = region_callees(fr[0], fr[1], cg)
        missing = [r for r in req if not any((c == r or c.endswith(r) or (r.startswith("closure:") and c.startswith("closure:") and c.endswith(r[8:])) or (not r.startswith("closure:") and r in c)) for c in cs)]
        bad = sorted(c for c in cs if FORBIDDEN.search(c) or (v in LOOKALIKE and LOOKALIKE[v].search(c)))
        # a look-alike in the arm is a definite finding; a key primitive that is not called from the arm itself may have moved into a helper
        # function or shared closure the arm calls (then: no verdict)
        helpers = sorted(c for c in cs if (c.startswith("closure:") or c.startswith("blots_core::") or c.startswith("<blots_core")) and not any(c == r or c.endswith(r) or (r.startswith("closure:") and c.endswith(r[8:])) for r in req)
                         and not re.search(r"::(as_\w+|reify|insert_\w+|borrow\w*|get_type|equals|compare|from|new|with_span|clone|index)$", c))
        verdict4 = False if bad else (True if not missing else None)  # a hand-written equivalent of the primitive cannot be judged here
        ctx.inst("C14.R4", v, verdict4, "missing key primitives: %s; look-alikes present: %s%s" % (missing, bad, "; helpers the arm delegates to: %s" % helpers[:4] if (missing and helpers) else ""), bic.loc())
    # record and list order is data: nothing on the evaluation path puts members into a container ordered by key
    ctx.rule("C14.R6", "spreading, keys/values/entries and every other walk over a record or list keep the members in their own order: no function reachable from the evaluator builds a key-ordered container (BTreeMap / BTreeSet / BinaryHeap) - records are insertion-ordered IndexMaps end to end", floor=1)
    from rules import c02 as c02_
    reach6 = sorted(n_ for n_ in cg.reachable_from(c02_.EVAL_ROOTS) if n_ in cg.fns)
    n6 = 0
    for n_ in reach6:
        f6 = M.Fn(cg.fns[n_], n_)
        hits = sorted({(f6.callee(b) or "") for b in f6.call_blocks() if re.search(r"collections::(btree|binary_heap)|BTreeMap|BTreeSet|BinaryHeap", (f6.callee(b) or "") + " " + " ".join(f6.term(b).get("argtys") or []))})
        if hits:
            n6 += 1
            ctx.inst("C14.R6", "%s#ordered-container" % n_.replace(CORE, ""), False, "members pass through a key-ordered container: %s" % hits[:3], f6.loc())
    ctx.inst("C14.R6", "evaluator#ordered-containers", n6 == 0, "%d functions reachable from the evaluator scanned; functions using BTreeMap / BTreeSet / BinaryHeap: %d" % (len(reach6), n6), None)

    # slice bounds are half-open: an index equal to the length is a valid bound (the empty slice at the end)
    n_b = 0
    mm_ = H.main_match(core.hir_fn(CORE + "functions::BuiltInFunction::call")["body"], "functions::BuiltInFunction")
    for a_ in (mm_["arms"] if mm_ else []):
        names_ = [H.last(v_) for v_ in H.pat_variants(a_["pat"])]
        if not set(names_) & {"Slice", "Head", "Tail", "Chunk"}:
            continue
        for n_ in H.walk(a_["body"]):
            if H.kind(n_) == "If" and any(H.kind(x) == "Ret" or (H.kind(x) == "Call" and H.last((H.strip(x["f"]).get("res") or {}).get("def") or "") == "Err") for x in H.walk(n_["then"])):
                for c_ in H.walk(n_["cond"]):
                    if H.kind(c_) == "Binary" and c_["op"] in ("Ge", "Le"):
                        l_, r_ = H.strip(c_["l"]), H.strip(c_["r"])
                        is_len = lambda z: H.kind(z) == "MethodCall" and z["name"] in ("len", "count")
                        if (c_["op"] == "Ge" and is_len(r_) and not is_len(l_)) or (c_["op"] == "Le" and is_len(l_) and not is_len(r_)):
                            n_b += 1
                            ctx.inst("C14.R4", "%s#bound-equal-to-length-refused" % "|".join(names_), False, "an index equal to the length is refused (%s): slice(l, len(l), len(l)) is the empty list, and slice(l,0,k) ++ slice(l,k,n) == l needs it at k = n" % H.loc(c_), H.loc(n_))
    ctx.inst("C14.R4", "bound-equal-to-length#none", n_b == 0, "hand-written bounds tests in slice / head / tail / chunk that refuse an index equal to the length: %d" % n_b, None)
    # ---------------- R8 how many arguments each of these built-ins takes
    ctx.rule("C14.R8", "the arity table gives each list/string/record built-in the argument counts it is documented with (zip and concat take two or more lists, range one or two numbers, slice three, ...): a narrower row refuses calls the documentation shows, a wider one reaches an arm that indexes arguments that are not there", floor=25)
    from rules import c01 as c01__
    try:
        ar_ = c01__.arity_table(core)
    except Exception as ex_:
        ar_ = None
        ctx.inst("C14.R8", "arity-table", None, "FunctionArity table not recognised: %s" % ex_, None)
    for v_, want in sorted(ARITY.items()):
        if ar_ is None:
            break
        got = ar_.get(v_)
        ctx.inst("C14.R8", "arity[%s]" % v_, None if got is None else tuple(got) == want, "arity row: %s; documented: %s" % (got, want), None)
    # ---------------- R9 equality used by unique / includes is the structural one; a record literal's later entries win
    ctx.rule("C14.R9", "unique and includes decide with Value::equals, which compares lists element by element and records key by key over both sizes (a one-sided walk makes a record equal to every record that extends it); and in a record literal every entry - written or spread - is stored with an unconditional insert, so `{...a, ...b}` takes b's value on a shared key", floor=3)
    from rules import c12 as c12_
    c12_.structural_equality(ctx, "C14.R9", core)
    hev9 = core.hir_fn("blots_core::expressions::evaluate_ast")
    mev9 = H.main_match(hev9["body"], "ast::Expr")
    rec_arm = next((a_ for a_ in (mev9["arms"] if mev9 else []) if any(H.last(v_) == "Record" for v_ in H.pat_variants(a_["pat"]))), None)
    if rec_arm is None:
        ctx.inst("C14.R9", "Record#later-entry-wins", None, "no Record arm found in the evaluator", None)
    else:
        writes = [x for x in H.walk(rec_arm["body"]) if H.kind(x) == "MethodCall" and "IndexMap" in (x.get("recv_ty") or "") and x["name"] in ("insert", "entry", "or_insert", "or_insert_with", "insert_before", "shift_insert", "extend", "contains_key", "get")]
        first_wins = sorted({x["name"] for x in writes if x["name"] in ("entry", "contains_key", "get")} | {x["name"] for x in H.walk(rec_arm["body"]) if H.kind(x) == "MethodCall" and x["name"] in ("or_insert", "or_insert_with", "or_default")})
        ins = [x for x in writes if x["name"] in ("insert", "extend")]
        ctx.inst("C14.R9", "Record#later-entry-wins", False if first_wins else (True if ins else None), "writes into the record under construction: %d unconditional insert(s)%s" % (len(ins), "" if not first_wins else "; %s keeps an earlier entry's value where a later one has the same key" % first_wins), H.loc(rec_arm["body"]))
    # ---------------- R10 spreads in calls, the empty range, the unconditional sort
    ctx.rule("C14.R10", "a spread argument yields its elements in place wherever it stands in a call; range(a, a) is the empty list (the bounds test refuses a > b only); and sort rearranges whenever the elements are mutually comparable - it is not made conditional on the elements' kinds (lists are ordered too)", floor=3)
    from rules import c04 as c04_10
    c04_10.call_arguments_in_order(ctx, "C14.R10", core)
    mm10 = H.main_match(core.hir_fn(CORE + "functions::BuiltInFunction::call")["body"], "functions::BuiltInFunction")
    a10 = {H.last(v_): a_ for a_ in (mm10["arms"] if mm10 else []) for v_ in H.pat_variants(a_["pat"])}
    rng = a10.get("Range")
    if rng is None:
        ctx.inst("C14.R10", "Range#empty-range", None, "no Range arm", None)
    else:
        verdict10, d10 = None, "no bounds test found"
        for i_ in H.walk(rng["body"]):
            if H.kind(i_) != "If" or not any(H.kind(x) == "Ret" for x in H.walk(i_["then"])):
                continue
            c_ = H.strip(i_["cond"])
            neg = False
            while H.kind(c_) == "Unary" and c_.get("op") == "Not":
                neg = not neg
                c_ = H.strip(c_["e"])
            if H.kind(c_) == "Binary" and c_["op"] in ("Gt", "Lt", "Ge", "Le") and H.path_local(H.strip(c_["l"])) and H.path_local(H.strip(c_["r"])) and all((H.strip(z).get("ty") or "") in ("f64", "i64") for z in (c_["l"], c_["r"])):
                at_equal = c_["op"] in ("Ge", "Le")
                if neg:
                    at_equal = not at_equal
                verdict10 = not at_equal
                d10 = "the bounds test %s%s %s %s refuses equal bounds: %s" % ("!" if neg else "", H.path_local(H.strip(c_["l"])), c_["op"], H.path_local(H.strip(c_["r"])), at_equal)
        ctx.inst("C14.R10", "Range#empty-range", verdict10, d10, H.loc(rng["body"]))
    srt = a10.get("Sort")
    if srt is not None:
        cond_sort = [H.loc(i_["cond"]) for i_ in H.walk(srt["body"]) if H.kind(i_) == "If" and any(H.kind(x) == "MethodCall" and x["name"].startswith("sort") for x in H.walk(i_["then"]))
                     and (any(H.kind(x) == "MethodCall" and (x["name"] in ("get_type",) or x["name"].startswith("is_")) for x in H.walk(i_["cond"])) or any(H.kind(y) == "MethodCall" and y["name"] in ("get_type",) for y in H.walk(srt["body"])))]
        ctx.inst("C14.R10", "Sort#unconditional", not cond_sort, "the sort runs under a test of the elements' kinds: %s" % (cond_sort or "no"), H.loc(srt["body"]))
    # key functions: called with the element alone, and as themselves
    ctx.rule("C14.R7", "sort_by, group_by and count_by call their key function with the element alone (no index), and hand the function value itself as its self reference at every call (both key evaluations of a sort_by comparison): the key of x is f(x), whatever f's arity and whether or not f is recursive", floor=4)
    from rules import c13 as c13_
    from rules.c04 import _Only
    keyfn = lambda k_: any(("[%s]" % v_) in k_ for v_ in ("SortBy", "GroupBy", "CountBy"))
    c13_.call_protocol(_Only(ctx, keyfn), "C14.R7", core)
    c13_.this_pairing(_Only(ctx, keyfn), "C14.R7", core)

    # hand-written replacements of a primitive: two look-alike loops that are wrong on edge cases
    hbc = core.hir_fn(CORE + "functions::BuiltInFunction::call")
    mm_ = H.main_match(hbc["body"], "functions::BuiltInFunction")
    n_sep = 0
    for a_ in (mm_["arms"] if mm_ else []):
        names_ = [H.last(v_) for v_ in H.pat_variants(a_["pat"])]
        for n_ in H.walk(a_["body"]):
            if H.kind(n_) != "If":
                continue
            c_ = H.strip(n_["cond"])
            if H.kind(c_) == "Unary" and c_.get("op") == "Not":
                c2 = H.strip(c_["e"])
                if H.kind(c2) == "MethodCall" and c2["name"] == "is_empty" and H.path_local(c2["recv"]) is not None:
                    buf = H.path_local(c2["recv"])
                    pushes = [x for x in H.walk(n_["then"]) if H.kind(x) == "MethodCall" and x["name"] in ("push_str", "push", "extend") and H.path_local(x["recv"]) == buf]
                    if pushes:
                        n_sep += 1
                        ctx.inst("C14.R4", "%s#separator-by-emptiness" % "|".join(names_), False, "a separator is added only when the text built so far is non-empty: leading empty members lose their separator (join(split(\",a\", \",\"), \",\") gives \"a\")", H.loc(n_))
    ctx.inst("C14.R4", "separator-by-emptiness#none", n_sep == 0, "hand-written joins that decide 'not the first member' by the emptiness of the accumulator: %d" % n_sep, None)
