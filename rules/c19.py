"""C19 — CLI contract: exit status, outputs object, input merging, #name (DESIGN §4 C19)."""
import re
from lib import hir as H
from lib import mir as M
from lib.facts import CheckerError

NEED = ("dev",)
EXIT = "std::process::exit"


def exit_code(fn, b):
    op = fn.term(b)["args"][0]
    if "int" in op:
        v = int(op["int"])
        return v if v < 2 ** 31 else v - 2 ** 32
    m = re.match(r"(?:const )?(-?\d+)_i32", op.get("const", ""))
    return int(m.group(1)) if m else None


def result_switches(fn, rlocal):
    """switch blocks on the discriminant of the Result held in local rlocal: [(block, ok_target, err_target)]"""
    out = []
    for bi, b in enumerate(fn.blocks):
        t = b["t"]
        if t["k"] != "switch" or b.get("cleanup"):
            continue
        pl = fn.op_place(t["discr"])
        if pl is None:
            continue
        for kind, dbi, si, x in fn.full_defs(pl["l"]):
            if kind == "assign" and x["rv"]["k"] == "discr" and "Result<" in x["rv"].get("ty", ""):
                roots = fn.trace(x["rv"]["place"])
                base = x["rv"]["place"]["l"]
                hit = base == rlocal or any(r[0] == "local" and r[1] == rlocal for r in roots) or fn.ref_root(x["rv"]["place"]) == rlocal
                if not hit:
                    # place is a deref of a reference to rlocal
                    for r in roots:
                        if r[0] == "call" and fn.term(r[2])["dest"]["l"] == rlocal and not [p for p in r[3] if p not in ()]:
                            hit = True
                if hit:
                    names = {v: n for v, n in x["rv"]["variants"]}
                    ok_t = err_t = None
                    for v, tgt in t["targets"]:
                        if names.get(v) == "Ok":
                            ok_t = tgt
                        if names.get(v) == "Err":
                            err_t = tgt
                    if ok_t is None:
                        ok_t = t["otherwise"]
                    if err_t is None:
                        err_t = t["otherwise"]
                    out.append((bi, ok_t, err_t))
    return out


def returns(fn):
    return [i for i, b in enumerate(fn.blocks) if b["t"]["k"] == "return" and not b.get("cleanup")]


def err_must_exit(fn, call_block, sink_pred):
    """(ok, detail): every path from the Result-producing call to a normal return passes an Err-handling switch on its Ok edge,
    where an Err-handling switch is one whose Err edge cannot return and reaches exit(!=0) without reaching a sink."""
    rlocal = fn.term(call_block)["dest"]["l"]
    sws = result_switches(fn, rlocal)
    rets = set(returns(fn))
    handlers = []
    for sb, ok_t, err_t in sws:
        reach = fn.reachable(err_t)
        exits = [x for x in reach if fn.term(x)["k"] == "call" and fn.callee(x) == EXIT]
        codes = [exit_code(fn, x) for x in exits]
        sinks = [x for x in reach if fn.term(x)["k"] == "call" and sink_pred(fn.callee(x) or "")]
        if not (reach & rets) and exits and all(c not in (0, None) for c in codes) and not sinks:
            handlers.append((sb, ok_t, err_t))
    # positively wrong: some Err edge can reach an output sink or exit(0)
    for sb, ok_t, err_t in sws:
        reach = fn.reachable(err_t)
        if any(fn.term(x)["k"] == "call" and sink_pred(fn.callee(x) or "") for x in reach if x not in fn.reachable(ok_t) or True) and not any(x in fn.reachable(ok_t) for x in [err_t]):
            sinks_ = [x for x in reach if fn.term(x)["k"] == "call" and sink_pred(fn.callee(x) or "")]
            only_err = [x for x in sinks_ if x not in fn.reachable(ok_t)]
            if only_err:
                return False, "the Err edge at %s reaches an output sink (%s)" % (fn.loc(sb), [fn.loc(x) for x in only_err])
        # ... or falls through into the success path: a sink reachable from the Err edge without evaluating again (the call block itself
        # is not crossed a second time, so a loop that reads and evaluates the next input does not count)
        seen_, st_ = {err_t}, [err_t]
        while st_:
            x_ = st_.pop()
            if x_ == call_block:
                continue
            for s_ in fn.succ(x_):
                if s_ not in seen_:
                    seen_.add(s_)
                    st_.append(s_)
        joined = [x for x in seen_ if x != call_block and fn.term(x)["k"] == "call" and sink_pred(fn.callee(x) or "")]
        if joined and not (seen_ & {call_block}):
            return False, "after the Err edge at %s the run goes on to an output sink (%s): the error is reported but not fatal" % (fn.loc(sb), [fn.loc(x) for x in joined])
        zero = [x for x in reach if fn.term(x)["k"] == "call" and fn.callee(x) == EXIT and exit_code(fn, x) == 0 and x not in fn.reachable(ok_t)]
        if zero:
            return False, "the Err edge at %s reaches exit(0) (%s)" % (fn.loc(sb), [fn.loc(x) for x in zero])
    if not handlers:
        # the error may be handed to the caller (a returned Err / exit code) or exit with a computed code: not the modelled form
        return None, "no switch on the result whose Err edge must reach a constant exit(!=0) (switches: %d): the error is propagated or the code is computed - not decided" % len(sws)
    # remove the Err edges of handlers, and see whether a return is reachable from the call without crossing any handler
    cut = {sb for sb, _, _ in handlers}
    seen, st = {call_block}, [call_block]
    while st:
        x = st.pop()
        if x in cut:
            continue  # paths continue only through the handler's Ok edge, which is a checked path
        for s in fn.succ(x):
            if s not in seen:
                seen.add(s)
                st.append(s)
    leak = seen & rets
    # exit(0)/sinks reachable without crossing a handler also count as leaks
    bad_exit = [x for x in seen if x not in cut and fn.term(x)["k"] == "call" and fn.callee(x) == EXIT and exit_code(fn, x) == 0]
    # a normal return with the Err still unhandled: in a function that returns nothing the error is swallowed (definite); in a function
    # that returns a Result / a code it may be on its way to the caller (not modelled)
    ret_ty = (fn.f.get("locals") or [{}])[0].get("ty", "")
    propagates = ("Result<" in ret_ty) or ("ExitCode" in ret_ty) or ret_ty in ("i32", "u8", "bool")
    return (True if (not leak and not bad_exit) else (False if (bad_exit or not propagates) else None)), "handlers at %s; return reachable without passing a handler: %s; exit(0) reachable without a handler: %s" % (
        [fn.loc(h[0]) for h in handlers], bool(leak), bool(bad_exit))


def run(ctx):
    core, cli = ctx.core, ctx.cli
    ctx.not_decided += ["clap's argument handling", "what is_terminal() returns", "REPL interleavings"]
    from rules import c06
    c06.output_file_rule(ctx, "C19.R5", ctx.cli)
    main = M.Fn(cli.mir_fn("blots::main"), "blots::main")
    # ---------------- R8 nothing but the outputs object goes to stdout
    ctx.rule("C19.R8", "evaluation writes nothing to stdout: no function reachable from the evaluator (built-ins such as print included) calls the stdout printing primitive - diagnostics and `print` go to stderr - so the outputs object is the only thing on stdout", floor=1)
    from rules import c02 as c02_
    cgx = M.CallGraph([core, cli, ctx.wasm])
    reach_ = sorted(n_ for n_ in cgx.reachable_from(c02_.EVAL_ROOTS) if n_ in cgx.fns)
    n_out = 0
    for n_ in reach_:
        fn_ = M.Fn(cgx.fns[n_], n_)
        outs = [b for b in fn_.call_blocks() if (fn_.callee(b) or "").endswith("io::stdio::_print") or (fn_.callee(b) or "").endswith("io::stdio::stdout") or (fn_.callee(b) or "").endswith("io::stdio::print_to")]
        for b in outs:
            n_out += 1
            ctx.inst("C19.R8", "%s#stdout[%d]" % (n_.replace("blots_core::", ""), outs.index(b)), False, "writes to stdout during evaluation (println! / print! / io::stdout)", fn_.loc(b))
    ctx.inst("C19.R8", "evaluator#stdout-writers", n_out == 0, "%d functions reachable from the evaluator scanned; stdout writers: %d" % (len(reach_), n_out), None)

    # ---------------- R1 exit status <=> outputs object
    ctx.rule("C19.R1", "on every Err edge of parsing / evaluation / validation / input parsing the process must reach exit(!=0) without emitting outputs; outputs are written only after success; nothing exits non-zero after writing outputs", floor=8)
    is_sink = lambda d: d == "blots::write_outputs"
    # (i) evaluate_source and its closures
    evaluation_errors_are_fatal(ctx, "C19.R1", cli)
    es = M.Fn(cli.mir_fn("blots::evaluate_source"), "blots::evaluate_source")
    gp = es.calls_to("blots_core::parser::get_pairs")
    if not gp:
        ctx.inst("C19.R1", "evaluate_source#get_pairs", False, "evaluate_source does not call get_pairs", es.loc())
    for b in gp:
        # parse error is propagated as Err (map_err + ?): the Err edge returns Err before the statement loop
        loop_calls = [x for x in es.call_blocks() if "for_each" in (es.callee(x) or "") or "Iterator>::next" in (es.callee(x) or "")]
        sws = result_switches(es, es.term(b)["dest"]["l"])
        # after map_err the Result is a new local: follow Try::branch
        ok = True
        d = "parse result flows into `?`"
        tb = [x for x in es.call_blocks() if (es.callee_decl(x) or "").endswith("Try::branch")]
        if not tb:
            ok, d = None, "no `?` on the parse result (handled another way: not decided)"
        else:
            t = es.term(tb[0])
            nx = t["t"]
            st = es.term(nx)
            if st["k"] == "switch":
                reach_loop = [s for s in es.succ(nx) if any(lc in es.reachable(s) for lc in loop_calls)]
                ok = len(reach_loop) == 1
                d = "exactly one successor of the `?` reaches the statement loop: %s" % ok
        ctx.inst("C19.R1", "evaluate_source#get_pairs", ok, d, es.loc(b))
    # (i') every expression statement is evaluated: in the arm for Rule::expression nothing leaves (return / continue / break)
    # before the evaluate_pairs call - a statement skipped by its shape (a lone name) cannot fail, and its failure is the exit status
    hes1 = cli.hir_fn("blots::evaluate_source")
    n_arm = 0
    for m_ in H.walk(hes1["body"]):
        if H.kind(m_) != "Match":
            continue
        for a_ in m_["arms"]:
            if not any(H.last(v_) == "expression" for v_ in H.pat_variants(a_["pat"])):
                continue
            evs = [x for x in H.walk(a_["body"]) if H.kind(x) == "Call" and (x.get("def") or "").endswith("::evaluate_pairs")]
            if not evs:
                continue
            first = min(x["sp"][3] for x in evs)
            leaves = [H.loc(x) for x in H.walk(a_["body"]) if H.kind(x) in ("Ret", "Continue", "Break") and x["sp"][3] < first]
            ctx.inst("C19.R1", "evaluate_source#expression-always-evaluated[%d]" % n_arm, False if leaves else True,
                     "exits from the expression arm before evaluate_pairs: %s" % (leaves or "none"), H.loc(a_["body"]))
            n_arm += 1
    if n_arm == 0:
        ctx.inst("C19.R1", "evaluate_source#expression-always-evaluated", None, "no `Rule::expression` arm calling evaluate_pairs found in evaluate_source", H.loc(hes1["body"]))
    # (ii) main: evaluate_source Err -> exit(!=0) without write_outputs; parse_json_inputs Err likewise
    k = 0
    for b in main.call_blocks():
        c = main.callee(b) or ""
        if c in ("blots::evaluate_source", "blots::parse_json_inputs"):
            ok, d = err_must_exit(main, b, is_sink)
            ctx.inst("C19.R1", "main#%s[%d]" % (H.last(c), k), ok, d, main.loc(b))
            k += 1
    # (iii) after write_outputs only exit(0) is reachable ... (iv) every write_outputs after an evaluate_source is dominated by its Ok edge
    for wname, wf in sorted(cli.mir.items()):
        if wname == "blots::write_outputs":
            continue
        wfn = M.Fn(wf, wname)
        k = 0
        for b in wfn.calls_to("blots::write_outputs"):
            reach = wfn.reachable(wfn.term(b)["t"]) if wfn.term(b)["t"] is not None else set()
            exits = [(x, exit_code(wfn, x)) for x in reach if wfn.term(x)["k"] == "call" and wfn.callee(x) == EXIT]
            bad = [wfn.loc(x) for x, cde in exits if cde not in (0, None)]
            unknown_code = [x for x, cde in exits if cde is None]
            ctx.inst("C19.R1", "%s#write_outputs[%d]->exit" % (wname.replace("blots::", ""), k), False if bad else (None if unknown_code else True),
                     "exits reachable after writing outputs: %s" % [(wfn.loc(x), cde) for x, cde in exits], wfn.loc(b))
            k += 1
    # println!("{}") shortcut: an outputs object on stdout bypassing write_outputs must be guarded by output_path.is_none()
    hm = cli.hir_fn("blots::main")
    shortcuts = []

    def scan(n, guards):
        if isinstance(n, list):
            for x in n:
                scan(x, guards)
            return
        if not isinstance(n, dict):
            return
        kk = H.kind(n)
        if kk == "If":
            scan(n["cond"], guards)
            scan(n["then"], guards + [n["cond"]])
            if n.get("else"):
                scan(n["else"], guards)
            return
        if kk == "Match":
            scan(n["scrut"], guards)
            sty = (H.strip(n["scrut"]).get("ty") or "")
            for a_ in n["arms"]:
                g2 = list(guards)
                if "Option<" in sty and "String" in sty and any(H.last(v_) == "None" for v_ in H.pat_variants(a_["pat"])) and H.kind(a_["pat"]) != "Or":
                    g2.append({"k": "NoneArm"})
                elif True:
                    g2.append({"k": "OtherArm"})
                if a_.get("guard") is not None:
                    scan(a_["guard"], g2)
                    g2 = g2 + [a_["guard"]]
                scan(a_["body"], g2)
            return
        if kk == "Macro" and n["name"] in ("println", "print"):
            for t in H.macro_templates(cli, n):
                txt = H.template_text(t)
                if txt.strip() in ("{}", "{ }") and not [p for p in t["pieces"] if "lit" not in p]:
                    shortcuts.append((n, list(guards)))
        for v in n.values():
            if isinstance(v, (dict, list)):
                scan(v, guards)

    for fname_, hf_ in sorted(cli.hir.items()):
        scan(hf_["body"], [])
    for i, (n, guards) in enumerate(shortcuts):
        ok = False
        for g in guards:
            conj = [g]
            # flatten conjunction
            parts = []
            while conj:
                x = H.strip(conj.pop())
                if H.kind(x) == "Binary" and x["op"] == "And":
                    conj += [x["l"], x["r"]]
                else:
                    parts.append(x)
            for p_ in parts:
                if H.kind(p_) == "MethodCall" and p_["name"] == "is_none" and "Option<" in p_.get("recv_ty", "") and "alloc::string::String" in p_.get("recv_ty", ""):
                    ok = True
                if isinstance(p_, dict) and p_.get("k") == "NoneArm":
                    ok = True   # `match output_path { None if .. => println!("{}") .. }`
        if not ok:
            # guarded by something this rule cannot read (an arm of a match on something else, a helper's answer, a flag)? then no verdict;
            # conditions it can read in full (is_empty / len / comparisons) and that do not test the output path are a definite finding
            readable = True
            for g in guards:
                for y in H.walk(g):
                    if isinstance(y, dict) and y.get("k") == "OtherArm":
                        readable = False
                    if H.kind(y) == "Call" or (H.kind(y) == "MethodCall" and y["name"] not in ("is_empty", "is_none", "is_some", "len", "as_ref", "as_deref")):
                        readable = False
                    if H.kind(y) == "Path" and (y.get("ty") or "") == "bool" and y["res"].get("local") is not None:
                        readable = False
            if guards and not readable:
                ok = None
        ctx.inst("C19.R1", "main#empty-object-shortcut[%d]" % i, ok, "println!(\"{}\") of an empty outputs object is guarded by output_path.is_none(): %s" % ok, H.loc(n))

    # ---------------- R2 declaration order containers
    # the portability check that decides between exit 0 and "[output error]" for a function-valued output is the capture analysis
    ctx.rule("C19.R7", "validate_portable_value reports a function as unportable exactly when it reads a name it has not captured: the free-variable analysis it shares with closure creation visits every expression child and treats the names a do-block or an inner function binds as bound for exactly their scope (a local reported as unbound turns a successful run into exit 1; a missed name emits a different function)", floor=8)
    from rules import c04 as c04_
    c04_.free_variable_rule(ctx, "C19.R7", core)

    ctx.rule("C19.R2", "outputs are collected in an IndexMap (declaration order) all the way to serde_json::to_string", floor=3)
    hes = cli.hir_fn("blots::evaluate_source")
    ctx.inst("C19.R2", "evaluate_source#outputs-type", any(t.startswith("&mut indexmap::map::IndexMap<alloc::string::String, blots_core::values::SerializableValue") for t in hes["inputs"]), "parameter types %s" % hes["inputs"], H.loc(hes["body"]))
    wo = cli.hir_fn("blots::write_outputs")
    ctx.inst("C19.R2", "write_outputs#outputs-type", wo["inputs"][0].startswith("&indexmap::map::IndexMap<"), wo["inputs"][0], H.loc(wo["body"]))
    wom = M.Fn(cli.mir_fn("blots::write_outputs"), "blots::write_outputs")
    for b in wom.calls_matching(lambda d: d.startswith("serde_json::ser::to_string")):
        ctx.inst("C19.R2", "write_outputs#serialized-type", wom.term(b)["argtys"][0].lstrip("&").startswith("indexmap::map::IndexMap<"), wom.term(b)["argtys"][0], wom.loc(b))
    # every serialiser call of write_outputs is handed the IndexMap itself (to_string, to_writer, to_vec ..); a serde_json::Value / Map built
    # from it on the way is key-sorted unless serde_json has preserve_order
    feats2 = set().union(*[set(fs_) for fs_ in (c06.serde_json_features(ctx.metadata) or {}).values()] or [set()])
    n_ser = 0
    for b in wom.call_blocks():
        c_ = wom.callee(b) or ""
        if re.match(r"^serde_json::ser::to_(string|writer|vec)(_pretty)?", c_):
            n_ser += 1
            aty = (wom.term(b).get("argtys") or [""])[-1 if "to_writer" in c_ else 0]
            ctx.inst("C19.R2", "write_outputs#%s-type" % H.last(c_.split("::<")[0]), aty.lstrip("&").startswith("indexmap::map::IndexMap<"), "%s is handed %s" % (c_.split("::<")[0], aty), wom.loc(b))
        if re.search(r"FromIterator<.*> for serde_json::(value::Value|map::Map)", c_) or re.search(r"serde_json::(value::Value|map::Map<.*>) as core::iter::traits::collect::(FromIterator|Extend)", c_) or re.search(r"^serde_json::value::to_value", c_) or "serde_json::map::Map" in c_ and c_.endswith("::insert"):
            ctx.inst("C19.R2", "write_outputs#through-json-map", "preserve_order" in feats2, "the outputs pass through a serde_json map (%s): it is ordered by key unless serde_json is built with preserve_order (features: %s)" % (c_[:90], sorted(feats2)), wom.loc(b))
    ctx.inst("C19.R2", "write_outputs#serialiser-calls", True if n_ser >= 1 else None, "%d serialiser call(s) in write_outputs" % n_ser, None)
    # an output is recorded only after its value was validated: validate_portable_value dominates every outputs.insert of the statement loop
    for name_, f_ in sorted(cli.mir.items()):
        if not (name_ == "blots::evaluate_source" or name_.startswith("blots::evaluate_source::{closure")):
            continue
        fnv = M.Fn(f_, name_)
        vals_ = fnv.calls_to("blots_core::expressions::validate_portable_value")
        k_ = 0
        for b in fnv.call_blocks():
            c_ = fnv.callee(b) or ""
            if c_.endswith("::insert") and "IndexMap" in c_ and "SerializableValue" in " ".join(fnv.term(b).get("argtys") or []):
                dom = any(fnv.dominates(v_, b) for v_ in vals_)
                ctx.inst("C19.R2", "%s#insert-after-validation[%d]" % (name_.replace("blots::", ""), k_), dom if vals_ else None, "an output is inserted at %s; validate_portable_value dominates it: %s" % (fnv.loc(b), dom), fnv.loc(b))
                k_ += 1
    # the end-of-line comment slot of `statement` follows every kind of statement
    from lib.peg import Grammar as G19
    g19 = G19(ctx.grammar)
    st19 = g19.seq(g19.expr("statement"))
    firsts = {x["v"] for x in g19.walk(st19[0]) if x["k"] == "ident"} if st19 else set()
    ok19 = len(st19) == 2 and st19[1]["k"] == "opt" and {"output_declaration", "expression"} <= firsts
    ctx.inst("C19.R2", "grammar#statement-comment-slot", ok19, "statement = (%s) ~ comment?: %s (an `output` line that ends in a comment must parse like any other line)" % (sorted(firsts), ok19), "blots-core/src/grammar.pest")
    # outputs.insert happens in declaration order: inside the statement loop, no sorting of outputs anywhere in the cli
    sorts = [n for n, f in cli.mir.items() for b in M.Fn(f, n).calls_matching(lambda d: "IndexMap" in d and ("sort" in d or "reverse" in d or "swap" in d or "shift_remove" in d or "swap_remove" in d))]
    ctx.inst("C19.R2", "cli#no-reordering-of-outputs", not sorts, "IndexMap reordering calls in the CLI: %s" % sorts, None)

    # ---------------- R3 merge order
    ctx.rule("C19.R3", "stdin inputs are parsed before the --input flags; flags are merged in order with unconditional insert (later wins); one shared counter names non-object values value_N", floor=5)
    # object or not is a property of the JSON document: decided on serde_json's value, before any conversion (a converted value no
    # longer tells an object from the reserved function-object form)
    hpj_ = cli.hir_fn("blots::parse_json_inputs")
    member_loops = []
    for lp_ in H.walk(hpj_["body"]):
        if H.kind(lp_) in ("For",) and any(H.kind(x) == "MethodCall" and x["name"] == "insert" for x in H.walk(lp_["body"])):
            member_loops.append(lp_)
    sel = []
    for n_, e_, g_ in __import__('lib.scope', fromlist=['sites']).sites(hpj_["body"], lambda z: any(z is lp_ for lp_ in member_loops)):
        for gg in g_:
            pat = gg[1]["pat"] if gg[0] == "arm" else (next((c_["pat"] for c_ in H.walk(gg[1]) if H.kind(c_) == "LetExpr"), None) if gg[0] == "if" and gg[2] is True else None)
            if pat is not None:
                sel += [v_ for v_ in H.pat_variants(pat) if "Object" in v_ or "Record" in v_]
    v_sel = None if not sel else all("serde_json" in v_ for v_ in sel)
    ctx.inst("C19.R3", "parse_json_inputs#object-test-on-json", v_sel, "the member loop runs under the pattern(s) %s (must be serde_json's Object, tested before conversion)" % (sorted(set(sel)) or "none found"), H.loc(hpj_["body"]))
    # script or file: decided by whether the path exists, not by which error reading it gives (a long inline script is not a
    # readable path either: ENAMETOOLONG)
    hm_ = cli.hir_fn("blots::main")
    by_kind = [H.loc(a_["guard"]) for m_ in H.walk(hm_["body"]) if H.kind(m_) == "Match" and any(H.kind(x) in ("Call", "MethodCall") and H.last(x.get("def") or "") in ("read_to_string", "read") for x in H.walk(m_["scrut"]))
               for a_ in m_["arms"] if a_.get("guard") is not None and any(H.kind(x) == "MethodCall" and x["name"] == "kind" for x in H.walk(a_["guard"]))]
    ctx.inst("C19.R3", "main#inline-or-file-by-existence", not by_kind, "places where the kind of a read error decides between inline source and file: %s" % (by_kind or "none"), H.loc(hm_["body"]))
    pj_calls = [n for n in H.walk(hm["body"]) if H.kind(n) == "Call" and n.get("def") == "blots::parse_json_inputs"]
    stdin_calls = [n for n in pj_calls if any(H.lit(a_) is not None and H.lit(a_)["v"] == "stdin" for a_ in n["args"])]
    loops = [n for n in H.walk(hm["body"]) if H.kind(n) == "For" and any(H.kind(x) == "Call" and x.get("def") == "blots::parse_json_inputs" for x in H.walk(n["body"]))]
    ctx.inst("C19.R3", "main#stdin-first", len(stdin_calls) == 1 and len(loops) == 1 and stdin_calls[0]["sp"][3] < loops[0]["sp"][3],
             "stdin parsed at %s, --input loop at %s" % ([H.loc(x) for x in stdin_calls], [H.loc(x) for x in loops]), H.loc(hm["body"]))
    # piped stdin that holds only layout (an `echo` with nothing, a trailing newline from a here-doc) is "no inputs", not a malformed document
    if stdin_calls:
        ifs_ = [n for n in H.walk(hm["body"]) if H.kind(n) == "If" and any(x is stdin_calls[0] for x in H.walk(n["then"]))
                and any(H.kind(x) == "MethodCall" and x["name"] == "is_empty" for x in H.walk(n["cond"]))]
        if not ifs_:
            ctx.inst("C19.R3", "main#blank-stdin-is-no-input", None, "no emptiness test found around the stdin parse", H.loc(stdin_calls[0]))
        else:
            g_ = ifs_[-1]
            ie_ = [x for x in H.walk(g_["cond"]) if H.kind(x) == "MethodCall" and x["name"] == "is_empty"]
            lets_ = {s_["pat"]["name"]: s_["init"] for s_ in H.walk(hm["body"]) if isinstance(s_, dict) and s_.get("k") == "Let" and H.kind(s_.get("pat")) == "Bind" and s_.get("init") is not None}

            def trims(e_, depth=0):
                if any(H.kind(y) == "MethodCall" and y["name"] in ("trim", "trim_start", "trim_end", "trim_ascii", "split_whitespace", "all") for y in H.walk(e_)):
                    return True
                l_ = H.path_local(H.strip(e_))
                return depth < 4 and l_ in lets_ and trims(lets_[l_], depth + 1)
            trimmed = all(trims(x["recv"]) for x in ie_)
            ctx.inst("C19.R3", "main#blank-stdin-is-no-input", True if trimmed else False, "the stdin document is handed to the JSON parser unless it is empty %s" % ("after trimming" if trimmed else "as raw bytes: a lone newline on stdin is a JSON error and the run fails"), H.loc(g_))
    if loops:
        lp = loops[0]
        it = lp["iter"]
        names = [x["name"] for x in H.walk(it) if H.kind(x) == "MethodCall"]
        fld = [x["name"] for x in H.walk(it) if H.kind(x) == "Field"]
        ctx.inst("C19.R3", "main#flags-in-order", "input" in fld and set(names) <= {"iter", "enumerate", "deref"} and "rev" not in names, "iterates ARGS.%s via %s" % (fld, names), H.loc(lp))
        inner = [n for n in H.walk(lp["body"]) if H.kind(n) == "For"]
        okm = None
        if inner:
            ins = [x for x in H.walk(inner[0]["body"]) if H.kind(x) == "MethodCall" and x["name"] == "insert"]
            conds = [x for x in H.walk(inner[0]["body"]) if H.kind(x) in ("If", "Match", "Continue", "Break")]
            okm = len(ins) == 1 and not conds and set(H.pat_binds(inner[0]["pat"])) == {H.path_local(a) for a in ins[0]["args"]}
        else:
            # `merged.extend(map)`: IndexMap::extend inserts every pair in order, a later key replacing the earlier value
            ext = [x for x in H.walk(lp["body"]) if H.kind(x) == "MethodCall" and x["name"] == "extend" and "IndexMap" in (x.get("recv_ty") or x["recv"].get("ty") or "")]
            first_wins = [x for x in H.walk(lp["body"]) if H.kind(x) == "MethodCall" and x["name"] in ("or_insert", "or_insert_with", "entry", "contains_key", "get")]
            if ext and not first_wins:
                okm = True
            elif first_wins:
                okm = False
        ctx.inst("C19.R3", "main#merge-later-wins", okm, "every (key, value) of each flag's map is inserted unconditionally into the merged map: %s" % okm, H.loc(lp))
    pj_in = cli.hir_fn("blots::parse_json_inputs").get("inputs", [])
    ctr_idx = next((i_ for i_, t_ in enumerate(pj_in) if t_.replace(" ", "") == "&mutusize"), None)   # the shared counter, wherever it sits in the parameter list
    ctr = set()
    for n in pj_calls:
        if ctr_idx is None or ctr_idx >= len(n["args"]):
            ctr.add(None)
            continue
        a = H.strip(n["args"][ctr_idx])
        ctr.add(H.path_local(a))
    ctx.inst("C19.R3", "main#one-counter", len(ctr) == 1 and None not in ctr and len(pj_calls) >= 2, "parse_json_inputs calls share the counter %s (%d calls)" % (sorted(map(str, ctr)), len(pj_calls)), H.loc(hm["body"]))
    pj = cli.hir_fn("blots::parse_json_inputs")
    cname = H.pat_binds(pj["params"][ctr_idx])[0] if ctr_idx is not None else None
    incs = [n for n in H.walk(pj["body"]) if H.kind(n) == "AssignOp" and H.contains_local(n["l"], cname)]
    keys = [n for n in H.walk(pj["body"]) if H.kind(n) == "Macro" and n["name"] == "format" and any(H.template_text(t).startswith("value_") for t in H.macro_templates(cli, n))]
    okc = False
    d = "increments: %d, value_N keys: %d" % (len(incs), len(keys))
    if len(incs) == 1 and len(keys) == 1 and incs[0]["op"] in ("Add", "AddAssign") and H.lit(incs[0]["r"]) and H.lit(incs[0]["r"])["v"] == "1":
        arg = keys[0]["args"][0] if keys[0]["args"] else None
        plus1 = arg is not None and H.kind(H.strip(arg)) == "Binary" and H.strip(arg)["op"] == "Add" and H.contains_local(arg, cname) and H.lit(H.strip(arg)["r"]) and H.lit(H.strip(arg)["r"])["v"] == "1"
        before = keys[0]["sp"][3] < incs[0]["sp"][3]
        okc = (plus1 and before) or (not plus1 and not before and arg is not None and H.contains_local(arg, cname))
        # and both sit in the non-object branch
        other_regions = []
        for n in H.walk(pj["body"]):
            if H.kind(n) == "If" and H.kind(H.strip(n["cond"])) == "LetExpr" and any((v or "").endswith("Value::Object") for v in H.pat_variants(H.strip(n["cond"])["pat"])):
                if n.get("else") is not None:
                    other_regions.append(n["else"])
            elif H.kind(n) == "Match" and any((v or "").endswith("Value::Object") for a in n["arms"] for v in H.pat_variants(a["pat"])):
                other_regions += [a["body"] for a in n["arms"] if not any((v or "").endswith("Value::Object") for v in H.pat_variants(a["pat"]))]
        if not other_regions:
            in_else = None
        else:
            in_else = any(any(x is incs[0] for x in H.walk(r_)) and any(x is keys[0] for x in H.walk(r_)) for r_ in other_regions)
        okc = (okc and in_else) if in_else is not None else (None if okc else False)
        d += "; key uses counter+1 before the increment: %s; both in the non-object branch: %s" % (plus1 and before, in_else)
    ctx.inst("C19.R3", "parse_json_inputs#value_N", okc, d, H.loc(pj["body"]))

    # every member of an input object is bound (shared with C06.R4): a skipped member would not override an earlier one
    from rules import c06
    c06.member_insert_rule(ctx, cli, "C19.R3")

    # ---------------- R9 the number under an input key is the number in the document
    ctx.rule("C19.R9", "the value bound to an input key is the value in the JSON document: serde_json is resolved with float_roundtrip (correctly rounded numbers), so `output v = #v` re-exports what was fed in and `blots a | blots b` is lossless", floor=1)
    feats_ = c06.serde_json_features(ctx.metadata)
    if not feats_:
        ctx.inst("C19.R9", "serde_json@features", None, "serde_json not found in the resolved dependency graph", None)
    for ver_, fs_ in sorted((feats_ or {}).items()):
        ctx.inst("C19.R9", "serde_json@features", "float_roundtrip" in fs_, "resolved features of serde_json %s: %s" % (ver_, sorted(fs_)), "blots/Cargo.toml")
    # ---------------- R10 only `output` declares an output
    ctx.rule("C19.R10", "the keyword of an output declaration is the whole word `output` followed by mandatory layout: a name that merely starts with it (`outputs = 1`, `output_dir = ..`) is an ordinary assignment and adds nothing to the outputs object", floor=1)
    from rules import c10 as c10_
    from lib.peg import Grammar as G10_
    ok10, d10 = c10_.keyword_guarded(G10_(ctx.grammar), "output_declaration")
    ctx.inst("C19.R10", "keyword-rule=output_declaration", ok10, d10, "blots-core/src/grammar.pest")

    # ---------------- R6 `#name` admits every name `inputs.name` admits
    ctx.rule("C19.R6", "the grammar reads `#name` for every name that `.name` reads: input_reference is `#` followed by the character sequence of identifier (digits and underscores included), without the reserved-word exclusion", floor=1)
    from lib.peg import Grammar
    Gr = Grammar(ctx.grammar)
    try:
        ident = Gr.seq(Gr.expr("identifier"))
        iref = Gr.seq(Gr.expr("input_reference"))
        def expand(e, d=0):
            if isinstance(e, dict):
                if e.get("k") == "ident" and e.get("v") in Gr.rules and Gr.ty(e["v"]) == "silent" and d < 4 and e["v"] not in ("reserved_word",):
                    return expand(Gr.expr(e["v"]), d + 1)
                return {k_: expand(v_, d) for k_, v_ in e.items()}
            if isinstance(e, list):
                return [expand(x, d) for x in e]
            return e
        ident_chars = [expand(e) for e in ident if e["k"] != "neg"]
        iref_x = [expand(e) for e in iref]
        ok6 = len(iref_x) >= 1 and iref_x[0] == {"k": "str", "v": "#"} and iref_x[1:] == ident_chars
        ctx.inst("C19.R6", "grammar#input_reference", ok6, "input_reference = %s; identifier characters = %s" % ([e.get("v") or e["k"] for e in iref], [e.get("v") or e["k"] for e in ident_chars]), "blots-core/src/grammar.pest")
    except Exception as ex:
        ctx.inst("C19.R6", "grammar#input_reference", None, "could not compare the two rules: %s" % ex, "blots-core/src/grammar.pest")

    # ---------------- R4 #name == inputs.name
    ctx.rule("C19.R4", "#name and inputs.name resolve through the same lookup: Environment::get(\"inputs\") then IndexMap::get(field).copied().unwrap_or(Null)", floor=3)
    # ... also inside functions: every call frame carries `inputs`, so neither spelling is diverted by a parameter or local of that name
    hfc_ = core.hir_fn("blots_core::functions::FunctionDef::call")
    ins_ = [x for x in H.walk(hfc_["body"]) if H.kind(x) == "MethodCall" and x["name"] == "insert" and x.get("args") and "inputs" in H.str_lits(x["args"][0], core)]
    ctx.inst("C19.R4", "FunctionDef::call#inputs-in-frame", bool(ins_), "the call frame re-binds `inputs` (%d insert(s) under the key \"inputs\"): without it `#x` is looked up through the caller's chain while a function defined elsewhere sees its own" % len(ins_), H.loc(hfc_["body"]))
    hev = core.hir_fn("blots_core::expressions::evaluate_ast")
    m = [x_ for x_ in [H.main_match(hev["body"], "ast::Expr")] if x_ is not None]
    arms = {}
    for a in m[0]["arms"]:
        for v in H.pat_variants(a["pat"]):
            arms[H.last(v)] = a

    def lookup_sig(arm, fieldvar):
        sigs = []
        for n in H.walk(arm["body"]):
            if H.kind(n) == "MethodCall" and n["name"] == "unwrap_or":
                chain = [n["name"]]
                x = H.strip(n["recv"])
                while H.kind(x) == "MethodCall":
                    chain.append(x["name"])
                    last = x
                    x = H.strip(x["recv"])
                dflt = H.path_def(n["args"][0])
                key_ok = H.kind(last) == "MethodCall" and last["name"] == "get" and H.path_local(last["args"][0]) == fieldvar and "IndexMap" in last.get("recv_ty", "")
                sigs.append((tuple(chain), H.last(dflt) if dflt else None, key_ok))
        return sigs

    ir, da = arms.get("InputReference"), arms.get("DotAccess")
    if ir is None or da is None:
        raise CheckerError("InputReference / DotAccess arm missing")
    irf = H.pat_binds(ir["pat"])[0]
    daf = [b for b in H.pat_binds(da["pat"]) if b == "field"]
    s1 = lookup_sig(ir, irf)
    s2 = lookup_sig(da, daf[0] if daf else "field")
    want = (("unwrap_or", "copied", "get"), "Null", True)
    ctx.inst("C19.R4", "InputReference#lookup", want in s1, "lookup chains %s" % s1, H.loc(ir["body"]))
    ctx.inst("C19.R4", "DotAccess#lookup", want in s2, "lookup chains %s" % s2, H.loc(da["body"]))
    gets = [n for n in H.walk(ir["body"]) if H.kind(n) == "MethodCall" and n["name"] == "get" and "Environment" in n.get("recv_ty", "")]
    okg = len(gets) == 1 and H.lit(gets[0]["args"][0]) is not None and H.lit(gets[0]["args"][0])["v"] == "inputs"
    ctx.inst("C19.R4", "InputReference#source", okg, "reads the binding named %s" % ([H.lit(g["args"][0])["v"] if H.lit(g["args"][0]) else "?" for g in gets]), H.loc(ir["body"]))
    # the AST builder strips exactly the leading '#'
    builder = core.hir_fn("blots_core::expressions::pairs_to_expr_inner")["body"]
    from rules.c10 import closure_of, rule_match
    import rules.c10 as _c10
    _c10.CRATE[0] = core
    mprim = rule_match(closure_of(builder, "map_primary"))
    for a in mprim["arms"]:
        if any(H.last(v) == "input_reference" for v in H.pat_variants(a["pat"])):
            idx = [n for n in H.walk(a["body"]) if H.kind(n) == "Index"]
            ok = False
            if idx:
                rng = H.strip(idx[0]["i"])
                lits = [x["v"] for x in H.walk(rng) if H.kind(x) == "Lit"]
                ok = lits == ["1"]
            ctx.inst("C19.R4", "builder#strip-hash", ok, "field name = text[1..]: %s" % ok, H.loc(a["body"]))


def evaluation_errors_are_fatal(ctx, rid, cli):
    """in the CLI's statement loop every Err of evaluate_pairs / validate_portable_value ends the run with a non-zero status (shared
    with C11: an element operation that fails must fail the program, also inside an `output` declaration)"""
    is_sink = lambda d: d == "blots::write_outputs"
    for name, f in sorted(cli.mir.items()):
        if not (name == "blots::evaluate_source" or name.startswith("blots::evaluate_source::{closure")):
            continue
        fn = M.Fn(f, name)
        k = 0
        for b in fn.call_blocks():
            c = fn.callee(b) or ""
            if c in ("blots_core::expressions::evaluate_pairs", "blots_core::expressions::validate_portable_value"):
                ok, d = err_must_exit(fn, b, is_sink)
                ctx.inst(rid, "%s#%s[%d]" % (name.replace("blots::", ""), H.last(c), k), ok, d, fn.loc(b))
                k += 1
