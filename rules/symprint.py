"""Printer rules decided on the symbolic output of each printer arm (lib/symstr: abstract interpretation of the
string-building code): construct shape (tokens and children in grammar order, each child once), line-break gaps
admitted by the grammar, parenthesisation guards of tight operand positions, comment emission order."""
from lib import hir as H
from lib import symstr as Y
from lib.peg import Grammar
from lib.facts import CheckerError
from rules import printers as P

CORE = "blots_core::"


def C(name):
    return ("C", name)


def I(name, tag=None):
    return ("I", name, tag)


def L(name):
    return ("L", name)


# Expected emission skeleton per AST variant: the tokens the grammar reads for the construct and its children in
# grammar order (written from grammar.pest: conditional, assignment, output_declaration, lambda, call_list, access,
# dot_access, expression/infix_usage, prefix_usage, postfix_op, spread_expression, list, record, do_block, input_reference).
SKEL = {
    "Conditional": ["if", C("condition"), "then", C("then_expr"), "else", C("else_expr")],
    "Assignment": [I("ident"), "=", C("value")],
    "Output": ["output", C("expr")],
    "Lambda": [L("args"), "=>", C("body")],
    "Call": [C("func"), "(", L("args"), ")"],
    "Access": [C("expr"), "[", C("index"), "]"],
    "DotAccess": [C("expr"), ".", I("field")],
    "BinaryOp": [C("left"), C("op"), C("right")],
    "UnaryOp": [C("op"), C("expr")],
    "PostfixOp": [C("expr"), C("op")],
    "Spread": ["...", C("expr")],
    "List": ["[", L("items"), "]"],
    "Record": ["{", L("entries"), "}"],
    "DoBlock": ["do", "{", L("statements"), L("return_expr"), "return", C("return_expr"), "}"],
    "InputReference": ["#", I("field")],
}
# record entries
SKEL_KEY = {
    "Static": [I("key", "record-key"), ":", C("entry")],
    "Dynamic": ["[", C("key_expr"), "]", ":", C("entry")],
    "Shorthand": [I("name")],
    "Spread": [C("expr")],
}

# child kinds that cannot be re-read without parentheses in a tight position (derived from the grammar: conditional, lambda and
# assignment are `term`s that swallow a whole `expression` to their right; binary and prefix operators bind looser than postfix
# operators; a negative number literal re-reads as prefix minus)
NEED_POSTFIX = {"BinaryOp", "UnaryOp", "Conditional", "Lambda", "Assignment", "Number<0", "Spread"}
NEED_PREFIX = {"BinaryOp", "Conditional", "Lambda", "Assignment"}
NEED_BINARY = {"Conditional", "Lambda", "Assignment"}
TIGHT = {
    ("UnaryOp", "expr"): NEED_PREFIX,
    ("PostfixOp", "expr"): NEED_POSTFIX,
    ("Call", "func"): NEED_POSTFIX,
    ("Access", "expr"): NEED_POSTFIX,
    ("DotAccess", "expr"): NEED_POSTFIX,
    ("BinaryOp", "left"): NEED_BINARY,
    ("BinaryOp", "right"): NEED_BINARY,
}


def is_buffer_printer(f):
    """a printer that writes into a buffer it is handed instead of returning its text (not modelled by lib/symstr)"""
    return any("&mut alloc::string::String" in t or "&mut dyn core::fmt::Write" in t or "core::fmt::Formatter" in t for t in f.get("inputs", [])) and \
        f.get("output", "") in ("()", "core::result::Result<(), core::fmt::Error>")


UNK_BUFFER = [(("unk", "the printer writes into a buffer parameter (not modelled)"),)]


def interp(core):
    pf = P.printer_fns(core)
    I_ = Y.Interp(core, set(pf.keys()), lambda n: H.macro_templates(core, n))
    try:
        I_.variant_helpers = set(dispatch_map(core, pf).keys())
    except Exception:
        I_.variant_helpers = set()
    return I_, pf


def dispatch_map(core, pf):
    """helper fn -> (variant, {param name: field name}) from the arms that forward a variant's fields to a helper"""
    out = {}
    for name, f in pf.items():
        for m in H.matches_on(f["body"], "ast::Expr"):
            for a in m["arms"]:
                vs = [H.last(v) for v in H.pat_variants(a["pat"])]
                if len(vs) != 1:
                    continue
                binds = H.pat_binds(a["pat"])
                body = H.final_expr(a["body"])
                if H.kind(body) in ("Call", "MethodCall") and (body.get("def") or "") in pf and body["def"] != name:
                    callee = pf[body["def"]]
                    params = [H.pat_binds(p)[0] if H.pat_binds(p) else None for p in callee["params"]]
                    if H.kind(body) == "MethodCall":
                        params = params[1:]   # `self.call(func, args)`: the receiver carries the layout state, not a part of the node
                    ren = {}
                    for p, arg in zip(params, body["args"]):
                        l = H.path_local(arg)
                        if l in binds:
                            ren[p] = l
                    if ren and body["def"] not in out:
                        out[body["def"]] = (vs[0], ren)
        # if-let forwarding: `if let Expr::Lambda { args, body } = &expr.node { return format_lambda(args, body, ..) }`
        for n in H.walk(f["body"]):
            if H.kind(n) == "If" and H.kind(H.strip(n["cond"])) == "LetExpr":
                c = H.strip(n["cond"])
                vs = [H.last(v) for v in H.pat_variants(c["pat"]) if "ast::Expr::" in v]
                if len(vs) != 1:
                    continue
                binds = H.pat_binds(c["pat"])
                for x in H.walk(n["then"]):
                    if H.kind(x) in ("Call", "MethodCall") and (x.get("def") or "") in pf and x["def"] != name and x["def"] not in out:
                        callee = pf[x["def"]]
                        params = [H.pat_binds(p)[0] if H.pat_binds(p) else None for p in callee["params"]]
                        if H.kind(x) == "MethodCall":
                            params = params[1:]
                        ren = {p: H.path_local(arg) for p, arg in zip(params, x["args"]) if H.path_local(arg) in binds}
                        if ren:
                            out[x["def"]] = (vs[0], ren)
    return out


def general_printer(core, pf, tag):
    """is `tag` (a def path or a bare function name) a printer with an arm per node kind, or a thin entry point of one"""
    c = general_printer.__dict__.setdefault("cache", {})
    key = (id(core), tag)
    if key in c:
        return c[key]
    names = [tag] if tag in pf else [k for k in pf if k.endswith("::" + str(tag))]
    ok = False if names else True   # not a printer of the modules at all (e.g. prerendered): not judged here
    for nm in names:
        f = pf[nm]
        body = f.get("body") or {}
        if any(len(m["arms"]) >= 5 for m in H.matches_on(body, "ast::Expr")) or any(len(m["arms"]) >= 4 for m in H.matches_on(body, "values::SerializableValue")):
            ok = True
        elif sum(1 for x in H.walk(body) if H.kind(x) in ("Call", "MethodCall")) <= 12 and any(H.kind(x) == "Call" and (x.get("def") or "") in pf and any(len(m["arms"]) >= 5 for m in H.matches_on(pf[x["def"]].get("body") or {}, "ast::Expr")) for x in H.walk(body)):
            ok = True   # a thin wrapper around a general printer (format_expr_impl -> format_single_line / format_multiline)
        elif "LambdaArg" in " ".join(f.get("inputs", [])) or "RecordKey" in " ".join(f.get("inputs", [])) or "BinaryOp" in " ".join(f.get("inputs", [])) or "UnaryOp" in " ".join(f.get("inputs", [])) or "PostfixOp" in " ".join(f.get("inputs", [])):
            ok = True   # printers of operators / parameters / keys: their own kinds
    c[key] = ok
    return ok


def strip_layout(flat):
    return [x for x in flat if x[0] not in ("sp", "nl", "ws") and not (x[0] == "child" and x[2] == "make_indent")]


OPERATOR_TOKEN = __import__("re").compile(r"^([-+*/%^!~<>=.&|?]+|and|or|not|via|into|where)$")


def match_skeleton(flat, skel, rename):
    """compare one flattened alternative with the skeleton (a small backtracking matcher). Parentheses directly around a
    child or around a member loop are optional; member loops (L) may be empty; an operator child may be an inline token."""
    items = strip_layout(flat)

    def fld(it):
        f_ = it[1][0] if it[0] in ("child", "ident", "rewritten", "loop", "opt") and it[1] else None
        return rename.get(f_, f_)

    fail = []

    def rec(i, j):
        if j == len(skel):
            if i == len(items):
                return True
            fail.append("extra output after the construct: %s" % (items[i][:3],))
            return False
        want = skel[j]
        got = items[i] if i < len(items) else None
        if isinstance(want, str):
            if got is not None and got[0] == "tok" and got[1] == want:
                return rec(i + 1, j + 1)
            fail.append("expected token %r, found %s" % (want, got[:3] if got else "end of output"))
            return False
        kind, name = want[0], want[1]
        if kind == "C":
            if got is not None and got[0] == "child" and (fld(got) == name or (name == "<value>" and got[2] == "serializable_value_to_source")):
                if rec(i + 1, j + 1):
                    return True
            if got == ("tok", "(") and i + 2 < len(items) and items[i + 1][0] == "child" and (fld(items[i + 1]) == name) and items[i + 2] == ("tok", ")"):
                if rec(i + 3, j + 1):
                    return True
            if name == "op" and got is not None and got[0] == "tok" and OPERATOR_TOKEN.match(got[1]):
                if rec(i + 1, j + 1):
                    return True
            fail.append("expected child %s, found %s" % (name, got[:3] if got else "end of output"))
            return False
        if kind == "I":
            if got is not None and got[0] in ("ident", "rewritten") and fld(got) == name:
                if want[2] and not (got[0] == "ident" and got[2] == want[2]):
                    fail.append("%s is emitted raw, not through %s" % (name, want[2]))
                    return False
                return rec(i + 1, j + 1)
            fail.append("expected the text of %s, found %s" % (name, got[:3] if got else "end of output"))
            return False
        if kind == "L":
            # ( loop ) | loop | single member | nothing
            if got == ("tok", "(") and i + 2 < len(items) and items[i + 1][0] == "loop" and fld(items[i + 1]) == name and items[i + 2] == ("tok", ")"):
                if rec(i + 3, j + 1):
                    return True
            if got is not None and got[0] in ("loop", "child", "ident") and fld(got) == name:
                # consecutive loops over the same collection (leading comments, members) are one member list
                k_ = i + 1
                # ... and so are a loop over all members but the last followed by the last member itself (`[leading @ .., last]`),
                # with the separators the loop body would have put between them
                while k_ < len(items) and ((items[k_][0] in ("loop", "opt", "child") and fld(items[k_]) == name) or
                                           (items[k_][0] == "tok" and items[k_][1] in (",", ", ") and k_ + 1 < len(items) and items[k_ + 1][0] in ("loop", "child") and fld(items[k_ + 1]) == name)):
                    k_ += 1
                if rec(k_, j + 1):
                    return True
            if rec(i, j + 1):
                return True
            return False
        return False

    ok = rec(0, 0)
    return ok, ("ok" if ok else (fail[-1] if fail else "no match"))


def arms_of(core, I_, pf):
    """yield (printer fn, variant, alternatives, rename, loc) for every Expr arm and forwarded helper"""
    dm = dispatch_map(core, pf)
    for name, f in sorted(pf.items()):
        ms = [m for m in H.matches_on(f["body"], "ast::Expr") if len(m["arms"]) >= 5]
        if any("&mut alloc::string::String" in t or "&mut dyn core::fmt::Write" in t or "core::fmt::Formatter" in t for t in f.get("inputs", [])) and f.get("output", "") in ("()", "core::result::Result<(), core::fmt::Error>"):
            # a printer that writes into a buffer it is handed: the symbolic interpreter models printers that RETURN their text
            for m in ms:
                for a in m["arms"]:
                    vs = [H.last(v) for v in H.pat_variants(a["pat"])]
                    if len(vs) == 1 and vs[0] in SKEL:
                        yield name, vs[0], [(("unk", "the printer writes into a buffer parameter (not modelled)"),)], {}, H.loc(a["body"])
            continue
        env = {}
        for p in f["params"]:
            for bn in H.pat_binds(p):
                env[bn] = Y.Val("path", (bn,))
        for m in ms:
            for a in m["arms"]:
                vs = [H.last(v) for v in H.pat_variants(a["pat"])]
                if len(vs) != 1 or vs[0] not in SKEL:
                    continue
                body = H.final_expr(a["body"])
                if H.kind(body) in ("Call", "MethodCall") and (body.get("def") or "") in dm and dm[body["def"]][0] == vs[0]:
                    continue  # forwarded to a helper, analysed there
                alts = I_.arm(a, m["scrut"], env)
                yield name, vs[0], alts, {}, H.loc(a["body"])
        if name in dm:
            v, ren = dm[name]
            if v in SKEL:
                alts = UNK_BUFFER if is_buffer_printer(f) else I_.function(f)
                yield name, v, alts, ren, H.loc(f["body"])


def gap_table(G):
    """(variant, after-token) -> may a line break follow; derived from the grammar"""
    t = {}

    def gaps_of(rule, variant):
        s = G.seq(G.expr(rule))
        last_tok = None
        for e in s:
            g = G.is_ws_gap(e)
            if g is not None and last_tok is not None:
                t[(variant, last_tok)] = "nl" in g[0]
                continue
            if e["k"] == "str":
                last_tok = e["v"]
            elif e["k"] == "ident":
                last_tok = "<" + e["v"] + ">"
    gaps_of("conditional", "Conditional")
    gaps_of("output_declaration", "Output")
    gaps_of("return_statement", "DoBlock")
    gaps_of("lambda", "Lambda")
    # assignment is a non-atomic rule written with bare `~`: only implicit WHITESPACE (space / tab) between its tokens
    t[("Assignment", "=")] = False
    t[("Assignment", "<identifier>")] = False
    # natural infix operators must be followed by WHITESPACE+ (no line break)
    nat = G.alts(G.expr("infix_usage"))[0]
    s = G.seq(nat)
    after = G.is_ws_gap(s[-1])
    t[("BinaryOp", "<op>")] = after is not None and "nl" in after[0]
    # a line break BEFORE a binary operator (the formatter's continuation layout `left\n  + right`) is re-read by the leading gap of
    # every alternative of infix_usage and, inside a lambda body, of lambda_infix_usage: all of them must admit a line break
    before = True
    for rule in ("infix_usage", "lambda_infix_usage"):
        if rule not in G.rules:
            continue
        for alt in G.alts(G.expr(rule)):
            g0 = G.is_ws_gap(G.seq(alt)[0])
            before = before and g0 is not None and "nl" in g0[0]
    t[("BinaryOp", "<left>")] = before
    return t


def shape_rules(ctx, rid, core, G, scope_fns):
    ctx.rule(rid, "every printer arm emits the construct's tokens and children in grammar order, each child exactly once on every path, static record keys through format_record_key, and puts line breaks only in gaps where the grammar admits them", floor=25)
    I_, pf = interp(core)
    gt = gap_table(G)
    n = 0
    for name, variant, alts, ren, loc in arms_of(core, I_, pf):
        if not any(("::%s::" % s) in name for s in scope_fns):
            continue
        short = name.replace(CORE, "")
        bad = []
        unk = False
        names_ = {w[1] for w in SKEL[variant] if isinstance(w, tuple)} | {"<value>"}
        for alt in alts:
            flat = Y.flatten(alt)
            if any(x[0] == "unk" for x in flat):
                unk = True
                continue
            ok, why = match_skeleton(flat, SKEL[variant], ren)
            if not ok:
                # a mismatch counts only when the output is made of this construct's own parts: text that comes from something else
                # (a pre-rendered child handed in as a String parameter, a helper's own locals) means the representation was not understood
                foreign = [x for x in strip_layout(flat) if x[0] in ("child", "ident", "rewritten", "loop", "opt") and x[1] and ren.get(x[1][0], x[1][0]) not in names_]
                # a loop over a collection the interpreter could not trace to a field of the node (a sub-slice bound by a slice pattern),
                # or a printed value that is not a part of the node where the construct has no such slot
                skel_names = {w[1] for w in SKEL[variant] if isinstance(w, tuple)}
                foreign += [x for x in strip_layout(flat) if (x[0] in ("loop", "opt") and not x[1]) or (x[0] == "child" and x[1] == ("<value>",) and "<value>" not in skel_names)]
                # a whole member list handed to one helper call (`format_collection(entries, ..)`): the construct is printed there
                lists_ = {w[1] for w in SKEL[variant] if isinstance(w, tuple) and w[0] == "L"}
                delegated = [x for x in strip_layout(flat) if x[0] == "child" and x[1] and len(x[1]) == 1 and ren.get(x[1][0], x[1][0]) in lists_]
                # a child printed by a helper that is not one of the general printers (those with an arm per node kind): the helper may
                # contribute tokens of this construct itself (`format_else_part` prints the `else`)
                partial = [x for x in strip_layout(flat) if x[0] == "child" and x[2] and not general_printer(core, pf, x[2])]
                # a forwarded helper that is also handed already rendered children as text parameters: which child a given text
                # parameter stands for is not tracked, so a mismatch is not a finding
                prerendered = bool(ren) and name in pf and any(t_.lstrip("&") in ("alloc::string::String", "str") or "Vec<alloc::string::String>" in t_ for t_ in pf[name].get("inputs", []))
                if foreign or delegated or partial or prerendered:
                    unk = True
                    continue
                bad.append(why)
        n += 1
        if bad and unk:
            # some output paths of this arm contain pieces the interpreter does not model: its reading of the other paths is not reliable either
            ctx.inst(rid, "%s[%s]#shape" % (short, variant), None, "%d of %d output paths could not be matched, but other paths of the arm contain unmodelled pieces: not decided (%s)" % (len(bad), len(alts), sorted(set(bad))[:2]), loc)
        elif bad:
            ctx.inst(rid, "%s[%s]#shape" % (short, variant), False, "%d of %d output paths do not follow the grammar's shape for %s: %s" % (len(bad), len(alts), variant, sorted(set(bad))[:3]), loc)
        else:
            ctx.inst(rid, "%s[%s]#shape" % (short, variant), None if unk else True, "%d output path(s) follow %s%s" % (len(alts), SKEL[variant], " (some paths contain opaque pieces)" if unk else ""), loc)
        # line-break gaps
        viol = set()
        for alt in alts:
            flat = Y.flatten(alt)
            prev = None
            for x in flat:
                if x[0] == "tok":
                    prev = x[1]
                elif x[0] == "child" and x[2] != "make_indent":
                    fld = ren.get(x[1][0], x[1][0]) if x[1] else None
                    prev = "<op>" if fld == "op" else "<%s>" % fld
                elif x[0] == "ident":
                    prev = "<identifier>"
                elif x[0] == "nl" and prev is not None:
                    allowed = gt.get((variant, prev))
                    if allowed is False:
                        viol.add(prev)
                elif x[0] not in ("nl", "sp", "ws", "when", "case"):
                    prev = None   # text the interpreter does not model: what precedes the next line break is unknown
        ctx.inst(rid, "%s[%s]#line-breaks" % (short, variant), not viol,
                 "line break emitted after %s, where the grammar admits only spaces" % sorted(viol) if viol else "every emitted line break sits in a gap the grammar admits", loc)
    # record entries
    for name, f in sorted(pf.items()):
        if not any(("::%s::" % s) in name for s in scope_fns):
            continue
        ms = H.matches_on(f["body"], "ast::RecordKey")
        env = {}
        for p in f["params"]:
            for bn in H.pat_binds(p):
                env[bn] = Y.Val("path", (bn,))
        for m in ms:
            if len(m["arms"]) < 3:
                continue
            for a in m["arms"]:
                vs = [H.last(v) for v in H.pat_variants(a["pat"])]
                if len(vs) != 1 or vs[0] not in SKEL_KEY:
                    continue
                alts = UNK_BUFFER if is_buffer_printer(f) else I_.arm(a, m["scrut"], env)
                bad = []
                for alt in alts:
                    flat = Y.flatten(alt)
                    if any(x[0] == "unk" for x in flat):
                        continue
                    # entry.value is the child named `entry`
                    ok, why = match_skeleton(flat, SKEL_KEY[vs[0]], {})
                    if not ok and vs[0] == "Shorthand":
                        # with a captured value the shorthand is expanded to `name: <value>`
                        ok, why = match_skeleton(flat, [I("name"), ":", C("<value>")], {})
                    if not ok:
                        names_k = {w[1] for w in SKEL_KEY[vs[0]] if isinstance(w, tuple)} | {"<value>", "name", "key", "entry"}
                        # the entry printer written inside the record arm of a general printer: the entry is then a loop / closure variable
                        # the interpreter does not tie to `entry` (its value shows up as a value that is not part of the node)
                        if vs[0] != "Shorthand" and any(x[0] == "child" and x[1] == ("<value>",) for x in strip_layout(flat)):
                            continue
                        if [x for x in strip_layout(flat) if x[0] in ("child", "ident", "rewritten", "loop", "opt") and x[1] and x[1][0] not in names_k]:
                            continue  # text from something that is not part of the entry: representation not understood
                        bad.append(why)
                all_unk = bool(alts) and not bad and all(any(x[0] == "unk" for x in Y.flatten(alt)) or not match_skeleton(Y.flatten(alt), SKEL_KEY[vs[0]], {})[0] for alt in alts)
                ctx.inst(rid, "%s[RecordKey::%s]#shape" % (name.replace(CORE, ""), vs[0]), None if all_unk else (not bad), "record entry printed as %s: %s" % (SKEL_KEY[vs[0]], "not modelled" if all_unk else (sorted(set(bad))[:2] if bad else "ok")), H.loc(a["body"]))
    ctx.units["printer_arms_interpreted"] = n


def L2_guards(ctx, rid, core, G, scope_fns):
    ctx.rule(rid, "a child printed in a tight position (operand of a prefix/postfix operator, callee, index or field base, operand of a binary operator) is parenthesised for every child kind the grammar cannot re-read bare there", floor=10)
    I_, pf = interp(core)
    for name, variant, alts, ren, loc in arms_of(core, I_, pf):
        if not any(("::%s::" % s) in name for s in scope_fns):
            continue
        for (v, child), need in sorted(TIGHT.items()):
            if v != variant:
                continue
            # kinds under which the child is wrapped in parentheses
            wrapped = set()
            seen_child = False
            for alt in alts:
                conds = [x for x in alt if x[0] in ("when", "case")]
                flat = strip_layout(Y.flatten(alt))
                for i, x in enumerate(flat):
                    if x[0] == "child" and x[1] and ren.get(x[1][0], x[1][0]) == child:
                        seen_child = True
                        paren = i > 0 and flat[i - 1][0] == "tok" and flat[i - 1][1].endswith("(") and i + 1 < len(flat) and flat[i + 1][0] == "tok" and flat[i + 1][1].startswith(")")
                        if not paren:
                            continue
                        for c in conds:
                            if c[0] == "case" and any(p[0] == "path" and p[1] and ren.get(p[1][0], p[1][0]) == child for p in c[1]):
                                wrapped |= set(c[2].split("|"))
                            if c[0] == "when" and c[2] is True and any(p[0] == "needs_parens_in_binop" and p[1] and ren.get(p[1][0], p[1][0]) == child for p in c[1]):
                                wrapped.add("BinaryOp")
                            # `if matches!(child.node, A | B)` / `if let A = child.node` (possibly handed to a wrapping helper as a flag)
                            if c[0] == "when" and len(c) > 3:
                                for fct in c[3] or ():
                                    if fct[0] == "kind" and fct[3] is True and fct[1] and ren.get(fct[1][0], fct[1][0]) == child:
                                        wrapped |= set(fct[2].split("|"))
            if not seen_child:
                continue
            missing = sorted(need - wrapped)
            ctx.inst(rid, "%s[%s]#%s:unguarded=%s" % (name.replace(CORE, ""), variant, child, ",".join(missing) or "-"), not missing,
                     "child `%s` of %s is parenthesised for kinds %s; the grammar needs parentheses also for %s" % (child, variant, sorted(wrapped) or "none", missing) if missing else "child `%s` is parenthesised for every kind that needs it (%s)" % (child, sorted(wrapped)), loc)


def lambda_head(ctx, rid, core, G, scope_fns):
    """A function literal printed as a list item or call argument is read by `spreadable_expression`, which tries
    `spread_expression` (the spread token, then an expression) first. A lone rest parameter written without parentheses makes the
    printed lambda begin with the spread token: it re-reads as a spread of a different lambda."""
    ctx.rule(rid, "a printed function literal never begins with the spread token: the parameter list is written without parentheses only for parameter kinds whose text does not begin with it (list items and call arguments try spread_expression first)", floor=2)
    try:
        spread_first = (G.alt_names("spreadable_expression") or [None])[0] == "spread_expression"
        tok = G.literal_of("spread_operator") or "..."
    except CheckerError:
        spread_first, tok = True, "..."
    I_, pf = interp(core)
    LARG = "values::LambdaArg"

    def first_input(f):
        return (f.get("inputs") or [""])[0]
    single = {n_: f for n_, f in pf.items() if LARG in first_input(f) and "[" not in first_input(f) and "Vec<" not in first_input(f) and f.get("output") == "alloc::string::String"}
    dotted = {}
    for n_, f in single.items():
        d_ = set()
        seen_ = set()
        for alt in I_.function(f):
            cs = [x for x in alt if x[0] == "case"]
            flat = strip_layout(Y.flatten(alt))
            if not cs or not flat:
                d_ = None
                break
            seen_ |= set(cs[0][2].split("|"))
            if flat[0][0] == "tok" and flat[0][1].startswith(tok):
                d_ |= set(cs[0][2].split("|"))
            elif flat[0][0] not in ("tok", "ident"):
                d_ = None
                break
        dotted[n_] = d_

    def heads(alt, facts, depth):
        """[(verdict, why)] for one alternative of a lambda's text"""
        facts = facts + tuple(f_ for x in alt if x[0] == "when" and len(x) > 3 for f_ in x[3])
        flat = [x for x in strip_layout(Y.flatten(alt)) if x[0] not in ("when", "case")]
        if not flat:
            return [(None, "empty")]
        h = flat[0]
        if h[0] == "tok":
            return [(not h[1].startswith(tok), "begins with %r" % h[1])]
        if h[0] == "child":
            callee = h[2] if h[2] in pf else next((k for k in pf if k.endswith("::" + str(h[2]))), None)
            if callee in single:
                if dotted.get(callee) is None:
                    return [(None, "the parameter printer %s was not modelled" % h[2])]
                allowed = None
                for f_ in facts:
                    if f_[0] == "kind" and f_[3] is True and set(f_[2].split("|")) <= {"Required", "Optional", "Rest"}:
                        allowed = set(f_[2].split("|")) if allowed is None else allowed & set(f_[2].split("|"))
                    if f_[0] == "kind" and f_[3] is False and set(f_[2].split("|")) <= {"Required", "Optional", "Rest"}:
                        allowed = ({"Required", "Optional", "Rest"} if allowed is None else allowed) - set(f_[2].split("|"))
                bad = dotted[callee] if allowed is None else dotted[callee] & allowed
                return [(not bad, "a parameter is written without parentheses for kinds %s; kinds whose text begins with %r: %s" % (sorted(allowed) if allowed is not None else "any", tok, sorted(dotted[callee])))]
            if callee is not None and LARG in first_input(pf[callee]) and depth < 3 and not is_buffer_printer(pf[callee]):
                out = []
                for a2 in I_.function(pf[callee]):
                    out += heads(a2, facts, depth + 1)
                return out or [(None, "helper %s yields nothing" % h[2])]
            return [(None, "begins with text from %s" % (h[2],))]
        return [(None, "begins with %s" % (h[0],))]

    n = 0
    for name, variant, alts, ren, loc in arms_of(core, I_, pf):
        if variant != "Lambda" or not any(("::%s::" % s_) in name for s_ in scope_fns):
            continue
        res = []
        for alt in alts:
            if any(x[0] == "unk" for x in Y.flatten(alt)[:1]):
                res.append((None, "not modelled"))
                continue
            res += heads(alt, (), 0)
        n += 1
        if not spread_first:
            ctx.inst(rid, "%s[Lambda]#head" % name.replace(CORE, ""), True, "the grammar does not try a spread before an expression in item positions", loc)
            continue
        bad = [w for v, w in res if v is False]
        unk = [w for v, w in res if v is None]
        ctx.inst(rid, "%s[Lambda]#head" % name.replace(CORE, ""), False if bad else (None if unk else True), "%d alternative head(s): %s" % (len(res), sorted(set(bad or unk or [w for _, w in res]))[:3]), loc)
    if n == 0:
        ctx.inst(rid, "Lambda#head", None, "no printer arm for Expr::Lambda was found", None)


def param_markers(ctx, rid, core, scope_fns, declare=True):
    """a parameter is printed with the marker of its kind - `name`, `name?`, `...name` - wherever a function's parameter list is
    printed (shared by C04 / C05 / C07: a reloaded or reformatted function accepts the argument counts the original accepted)"""
    if declare:
        ctx.rule(rid, "every printer of a function's parameter list writes each parameter with the marker of its kind (`name`, `name?`, `...name`): the per-parameter printers have exactly these three templates, and no parameter list is printed from the bare names", floor=4)
    want = {"Required": "{}", "Optional": "{}?", "Rest": "...{}"}
    pf = {k: f for k, f in core.hir.items() if any(("::%s::" % s_) in k for s_ in scope_fns) and "::tests::" not in k and f.get("body") is not None}
    n_single = 0
    for name, f in sorted(pf.items()):
        ins = f.get("inputs") or []
        if not (len(ins) == 1 and "values::LambdaArg" in ins[0] and "[" not in ins[0] and "Vec<" not in ins[0] and f.get("output") == "alloc::string::String"):
            continue
        n_single += 1
        ms = H.matches_on(f["body"], "values::LambdaArg")
        if len(ms) != 1:
            for k_ in sorted(want):
                ctx.inst(rid, "%s[%s]" % (name.replace(CORE, ""), k_), None, "the printer is not a single match on the parameter kind", H.loc(f["body"]))
            continue
        covered = {}
        for a in ms[0]["arms"]:
            vs = [H.last(v) for v in H.pat_variants(a["pat"])]
            ks = [v for v in vs if v in want] or ([k_ for k_ in want if k_ not in covered] if H.kind(a["pat"]) in ("Wild", "Bind") else [])
            b = H.strip(a["body"])
            while H.kind(b) == "Block" and not b["stmts"] and b.get("expr") is not None:
                b = H.strip(b["expr"])
            tpl = None
            if H.kind(b) == "Macro" and b.get("name") == "format":
                ts = H.macro_templates(core, b)
                tpl = H.template_text(ts[0]) if len(ts) == 1 else None
            elif H.kind(b) == "MethodCall" and b["name"] in ("clone", "to_string", "to_owned", "into"):
                r = H.strip(b["recv"])
                if H.path_local(r) is not None or (H.kind(r) == "MethodCall" and r["name"] == "get_name"):
                    tpl = "{}"
            for k_ in ks:
                covered.setdefault(k_, (tpl, a))
        for k_ in sorted(want):
            tpl, a = covered.get(k_, (None, None))
            ctx.inst(rid, "%s[%s]" % (name.replace(CORE, ""), k_), None if tpl is None else tpl == want[k_],
                     "a %s parameter is printed as %r (the grammar reads %r)" % (k_, tpl, want[k_]), H.loc(a["body"]) if a else H.loc(f["body"]))
    ctx.inst(rid, "parameter-printers#found", True if n_single >= 1 else None, "%d per-parameter printer(s) found (functions from one LambdaArg to its text; a printer that writes into a buffer is not modelled)" % n_single, None)
    # a parameter list assembled from get_name() has lost the markers
    n_bare = 0
    for name, f in sorted(pf.items()):
        if (f.get("output") or "") != "alloc::string::String":
            continue
        for x in H.walk(f["body"]):
            if H.kind(x) == "MethodCall" and x["name"] == "map" and x.get("args") and H.kind(H.strip(x["args"][0])) == "Closure":
                clo = H.strip(x["args"][0])
                gets = [y for y in H.walk(clo["body"]) if H.kind(y) == "MethodCall" and y["name"] == "get_name" and "LambdaArg" in (y.get("recv_ty") or H.strip(y["recv"]).get("ty") or "")]
                if gets and (H.strip(clo["body"]).get("ty") or "").lstrip("&") in ("alloc::string::String", "str", "'static str"):
                    n_bare += 1
                    ctx.inst(rid, "%s#parameters-by-bare-name" % name.replace(CORE, ""), False, "a parameter list is built from get_name() alone (%s): optional and rest parameters are emitted as required ones" % H.loc(gets[0]), H.loc(x))
    ctx.inst(rid, "parameters-by-bare-name#none", n_bare == 0, "parameter lists printed from bare names: %d" % n_bare, None)


def comment_order(ctx, rid, core, G):
    ctx.rule(rid, "for every member of a list, record or do-block the formatter emits the leading comments, then the member, then its trailing comment, in that order", floor=3)
    I_, pf = interp(core)
    for name, f in sorted(pf.items()):
        if not name.startswith(CORE + "formatter::"):
            continue
        alts = UNK_BUFFER if is_buffer_printer(f) else I_.function(f)
        k = 0
        for alt in alts:
            for it in alt:
                if it[0] == "loop" and it[1] is not None:
                    for body in it[2]:
                        flat = Y.flatten(body)
                        lead = [i for i, x in enumerate(flat) if x[0] == "loop" and x[1] and x[1][-1] == "leading"]
                        node = [i for i, x in enumerate(flat) if x[0] == "child" and x[1] and "node" in x[1]]
                        trail = [i for i, x in enumerate(flat) if x[0] == "opt" and x[1] and x[1][-1] == "trailing"]
                        if not node or not (lead or trail):
                            continue
                        ok = len(lead) == 1 and len(node) == 1 and len(trail) == 1 and lead[0] < node[0] < trail[0]
                        if not ok:
                            # out of order is a finding only when all three were found; a field emitted in a way the interpreter does not
                            # follow (`result.extend(c.leading.iter().flat_map(..))`) is not "missing" (dropped fields: C09.R1)
                            complete = len(lead) == 1 and len(node) == 1 and len(trail) == 1
                            if not complete:
                                ok = None
                        # a comment runs to the end of its line: whatever the loop emits after the trailing comment (a separator, a bracket)
                        # on the same line becomes part of the comment's text
                        if ok:
                            after = [x for x in flat[trail[0] + 1:] if x[0] not in ("sp", "when", "case")]
                            if after and after[0][0] in ("tok", "child", "ident"):
                                ok = False
                        ctx.inst(rid, "%s#members(%s)[%d]" % (name.replace(CORE, ""), ".".join(it[1]), k), ok, "emission order inside the member loop: leading@%s node@%s trailing@%s" % (lead, node, trail), H.loc(f["body"]))
                        k += 1


def scope_threading(ctx, rid, core):
    """the inlining printer (the one that carries the captured scope) prints every expression child with a scope-carrying printer:
    a child printed by the scope-less printer keeps its captured names unsubstituted, i.e. unbound in the emitted function"""
    ctx.rule(rid, "in the inlining printer every expression child is printed by a scope-carrying printer, so captured values are substituted at every position (a child handed to the scope-less printer keeps unbound names)", floor=10)
    I_, pf = interp(core)
    SCOPE_TY = "IndexMap<alloc::string::String, blots_core::values::SerializableValue"

    def carries_scope(fname):
        f = pf.get(fname) or core.hir.get(fname)
        return f is not None and any(SCOPE_TY in t for t in f.get("inputs", []))

    def prints_expr(fname):
        f = pf.get(fname) or core.hir.get(fname)
        return f is not None and bool(f.get("inputs")) and "ast::Spanned<blots_core::ast::Expr>" in f["inputs"][0]

    n = 0
    for name, variant, alts, ren, loc in arms_of(core, I_, pf):
        if not carries_scope(name):
            continue
        bad = set()
        kids = 0
        for alt in alts:
            for x in Y.flatten(alt):
                if x[0] == "child" and x[2]:
                    callee = x[2] if x[2] in pf or x[2] in core.hir else next((k for k in pf if k.endswith("::" + x[2])), None)
                    if callee is None or not prints_expr(callee):
                        continue
                    if "alloc::string::String" in (pf.get(callee) or core.hir.get(callee) or {}).get("inputs", []):
                        continue  # decorates text the caller has already rendered (it looks at the child, it does not print it)
                    kids += 1
                    if not carries_scope(callee):
                        bad.add("%s via %s" % (".".join(map(str, x[1])), callee.replace(CORE, "")))
        n += 1
        ctx.inst(rid, "%s[%s]" % (name.replace(CORE, ""), variant), not bad,
                 "%d expression child emission(s); printed without the scope: %s" % (kids, sorted(bad) or "none"), loc)
    if n == 0:
        ctx.inst(rid, "inliner", None, "no printer carrying the captured scope was found", None)
