"""C15 — aggregates equal their mathematical definitions in both calling conventions (DESIGN §4 C15).
Decided clauses: (R1) one list vs separate arguments feed one vector of numbers; (R2) min/max mirror pair;
(R3) the reduction written in each arm is the documented formula (shape oracle, not a numerical proof)."""
import re
from lib import hir as H
from lib import sig as S
from lib import binop as B
from lib.facts import CheckerError

NEED = ("dev",)
BCALL = "blots_core::functions::BuiltInFunction::call"
AGG = ["Min", "Max", "Avg", "Sum", "Prod", "Median"]
ARGS = ("param", "args")
A0 = ("index", ARGS, ("lit", "0"))
CLO = ("closure", ("call", "as_number", ("cp", 0)))
# the one vector: list elements when called with one list, the single number, or all arguments
NUMS_ORACLE = ("if", ("bin", "Eq", ("call", "len", ARGS), ("lit", "1")),
               ("match", A0, ((("List",), ("try", ("call", "collect", ("call", "map", ("try", ("call", "as_list", A0)), CLO)))),
                              (("_",), ("vec", ("try", ("call", "as_number", A0)))))),
               ("try", ("call", "collect", ("call", "map", ARGS, CLO))))
N = ("nums",)
LEN = ("call", "len", N)
SORT = ("call", "sort_by", N, ("closure", ("call", "total_cmp", ("cp", 0), ("cp", 1))))
SORT_P = ("call", "sort_by", N, ("closure", ("call", "unwrap", ("call", "partial_cmp", ("cp", 0), ("cp", 1)))))
REDUCTION = {
    "Min": [("ctor", "Number", ("call", "fold", N, ("path", "core::f64::<impl f64>::INFINITY"), ("path", "core::f64::<impl f64>::min")))],
    "Max": [("ctor", "Number", ("call", "fold", N, ("path", "core::f64::<impl f64>::NEG_INFINITY"), ("path", "core::f64::<impl f64>::max")))],
    "Sum": [("ctor", "Number", ("call", "sum", N))],
    "Prod": [("ctor", "Number", ("call", "product", N))],
    "Avg": [("ctor", "Number", ("bin", "Div", ("call", "sum", N), ("cast", "f64", LEN)))],
    "Median": [SORT, ("if", ("bin", "Eq", ("bin", "Rem", LEN, ("lit", "2")), ("lit", "0")),
                      ("ctor", "Number", ("bin", "Div", ("bin", "Add", ("index", N, ("bin", "Sub", ("bin", "Div", LEN, ("lit", "2")), ("lit", "1"))), ("index", N, ("bin", "Div", LEN, ("lit", "2")))), ("lit", "2.0"))),
                      ("ctor", "Number", ("index", N, ("bin", "Div", LEN, ("lit", "2")))))],
}


ARGS_NAME = ["args"]


def arm_parts(arm):
    """(nums init term, [value terms after it], error guards) of an aggregate arm"""
    blk = H.strip(arm["body"])
    if H.kind(blk) != "Block":
        return None
    env = S.Env(roles={ARGS_NAME[0]: ARGS})
    nums_init = None
    e2 = env.child()
    rest = []
    for s in blk["stmts"]:
        if s["k"] == "Let" and H.kind(s["pat"]) == "Bind" and s.get("init") is not None:
            if nums_init is None and s["pat"].get("ty", "").endswith("Vec<f64>"):
                nums_init = (s["pat"]["name"], S.norm(s["init"], e2))
                e2.roles[s["pat"]["name"]] = N
                # an extracted helper may already contain the emptiness guard: statements of the inlined helper bodies count as well
                for blk_ in H.walk(s["init"]):
                    if H.kind(blk_) == "Block" and blk_.get("inlined_from"):
                        e3 = S.Env()
                        inner_ = blk_.get("expr") if H.kind(blk_.get("expr")) == "Block" else blk_
                        for st_ in inner_["stmts"]:
                            if st_["k"] == "Let" and H.kind(st_["pat"]) == "Bind" and st_["pat"].get("ty", "").endswith("Vec<f64>"):
                                e3.roles[st_["pat"]["name"]] = N
                            elif st_["k"] in ("Expr", "Semi"):
                                sub_ = []
                                B.leaves(st_["e"], e3, sub_)
                                rest += [x_ for x_ in sub_ if x_[0] == "when"]
                continue
            ce = e2.child()
            e2.roles.pop(s["pat"]["name"], None)
            e2.inline[s["pat"]["name"]] = (s["init"], ce)
        elif s["k"] in ("Expr", "Semi"):
            out = []
            B.leaves(s["e"], e2, out)
            rest += out
    if blk.get("expr") is not None:
        out = []
        B.leaves(blk["expr"], e2, out)
        rest += out
    return nums_init, rest


def uses_args(t):
    return S.contains(t, ARGS)


def run(ctx):
    core = ctx.core
    S.TEMPLATES = None
    # look through helpers extracted from the arms (free functions of blots-core called by path)
    S.INLINE = S.default_inline(core)
    ctx.not_decided += ["the numerical laws themselves (rounding, permutation invariance up to rounding, monotonicity of percentile): runtime quantities", "that f64::min/max/sum behave as documented (std)"]
    f = core.hir_fn(BCALL)
    ARGS_NAME[0] = H.param_by_type(f, "Vec<blots_core::values::Value>", "args")
    m = H.main_match(f["body"], "functions::BuiltInFunction")
    arms = {}
    for a in m["arms"]:
        for v in H.pat_variants(a["pat"]):
            arms[H.last(v)] = a

    ctx.rule("C15.R1", "in each of min max avg sum prod median the result depends on the arguments only through one Vec<f64>: the list's elements when called with one list, the single number, or all arguments - the same construction in all six", floor=12)
    ctx.rule("C15.R3", "the reduction applied to that vector is the documented one (min/max fold from the right infinity, sum, product, sum/len, middle order statistic(s) of the ascending sort, percentile's nearest-rank index into the ascending sort)", floor=7)
    parts = {}
    for name in AGG:
        a = arms.get(name)
        if a is None:
            raise CheckerError("no %s arm in BuiltInFunction::call" % name)
        p = arm_parts(a)
        if p is None or p[0] is None:
            ctx.inst("C15.R1", "%s#vector" % name, None, "no `let nums: Vec<f64>` found in the arm", H.loc(a["body"]))
            continue
        (nm, init), rest = p
        parts[name] = (init, rest)
        ctx.inst("C15.R1", "%s#vector" % name, S.verdict(init, NUMS_ORACLE), "nums = %s" % S.show(init)[:300], H.loc(a["body"]))
        vals = [x for x in rest if x[0] in ("value", "return", "push")]
        leak = [x for x in rest if uses_args(x)]
        ctx.inst("C15.R1", "%s#only-through-vector" % name, not leak, "after building the vector the arguments are referenced again: %s" % bool(leak), H.loc(a["body"]))
        # empty guard: error when no numbers
        guards = [x for x in rest if x[0] == "when" and x[1] == ("call", "is_empty", N) and x[2][0] == "return" and x[2][1][0] == "ctor" and x[2][1][1] == "Err"]
        def push_ctor(t_):
            # `Number(if c { a } else { b })` is `if c { Number(a) } else { Number(b) }`
            if isinstance(t_, tuple) and len(t_) == 3 and t_[0] == "ctor" and isinstance(t_[2], tuple) and t_[2] and t_[2][0] == "if" and len(t_[2]) >= 4:
                i_ = t_[2]
                return ("if", i_[1], push_ctor(("ctor", t_[1], i_[2])), push_ctor(("ctor", t_[1], i_[3])))
            return t_
        got = [push_ctor(x[1]) for x in vals]
        ctx.inst("C15.R3", "%s#reduction" % name, S.verdict(tuple(got), tuple(REDUCTION[name])), "computes %s; documented %s" % ([S.show(v) for v in got], [S.show(v) for v in REDUCTION[name]]), H.loc(a["body"]))
        ctx.inst("C15.R3", "%s#empty-is-error" % name, len(guards) == 1, "`if nums.is_empty() { return Err }` before the reduction: %s" % (len(guards) == 1), H.loc(a["body"]))
    # ---- R10 order statistics are read from the sorted numbers; the result is what the arm computed; nothing is kept between calls
    ctx.rule("C15.R10", "median and percentile index the numbers only after sorting them (an element read before the sort is whatever the caller wrote there: percentile(l, 0) must be the minimum for every order of l); the value an aggregate arm computed is the value the call returns (FunctionDef::call applies nothing but error context to a built-in's result); and no aggregate arm keeps state between calls (no static / thread-local buffer)", floor=4)
    for name in ("Median", "Percentile"):
        a = arms.get(name)
        if a is None:
            ctx.inst("C15.R10", "%s#sorted-before-indexed" % name, None, "no arm", None)
            continue
        sorts = [x for x in H.walk(a["body"]) if H.kind(x) == "MethodCall" and x["name"].startswith("sort") or (H.kind(x) == "MethodCall" and x["name"] in ("select_nth_unstable", "select_nth_unstable_by"))]
        idx = [x for x in H.walk(a["body"]) if H.kind(x) == "Index" and "f64" in (H.strip(x["e"]).get("ty") or "")]
        idx += [x for x in H.walk(a["body"]) if H.kind(x) == "MethodCall" and x["name"] in ("first", "last", "get") and "f64" in (x.get("recv_ty") or H.strip(x["recv"]).get("ty") or "")]
        if not sorts:
            ctx.inst("C15.R10", "%s#sorted-before-indexed" % name, None, "no sort found in the arm (a helper?)", H.loc(a["body"]))
            continue
        first_sort = min(x["sp"][3] for x in sorts)
        early = [H.loc(x) for x in idx if x["sp"][3] < first_sort]
        ctx.inst("C15.R10", "%s#sorted-before-indexed" % name, not early, "elements of the numbers read before the sort: %s" % (early or "none"), H.loc(a["body"]))
        # a partial selection (`select_nth_unstable*`(k)) puts an order statistic at position k only: every other position of
        # the vector holds an arbitrary element of its side, so the vector itself may afterwards be read at k and nowhere else
        sels = [x for x in sorts if x["name"].startswith("select_nth")]
        full = [x for x in sorts if not x["name"].startswith("select_nth")]
        if sels and not full:
            blk_ = H.strip(a["body"])
            env_ = S.Env(roles={ARGS_NAME[0]: ARGS})
            for s_ in (blk_.get("stmts") or []) if H.kind(blk_) == "Block" else []:
                if s_["k"] == "Let" and H.kind(s_["pat"]) == "Bind" and s_.get("init") is not None:
                    if s_["pat"].get("ty", "").endswith("Vec<f64>"):
                        env_.roles[s_["pat"]["name"]] = N
                    else:
                        env_.inline[s_["pat"]["name"]] = (s_["init"], env_.child())
            ks = [S.norm(x["args"][0], env_) for x in sels if x.get("args")]
            off = [H.loc(x) for x in idx if H.kind(x) == "Index" and x["sp"][3] > first_sort and not S.has_unknown(S.norm(x["i"], env_)) and all(S.norm(x["i"], env_) != k_ for k_ in ks)]
            unk = [x for x in idx if H.kind(x) == "Index" and x["sp"][3] > first_sort and S.has_unknown(S.norm(x["i"], env_))]
            ctx.inst("C15.R10", "%s#partial-selection-read-at-selected-rank-only" % name, False if (off and ks) else (None if (unk or not ks) else True),
                     "after a partial selection at %s the vector is indexed at another position: %s (only the selected position is an order statistic)" % ([S.show(k_) for k_ in ks], off or "none"), H.loc(a["body"]))
    # percentile(l, p) is an element of l: what the arm returns is one indexed element, never arithmetic on several
    pa = arms.get("Percentile")
    if pa is not None:
        mixes = [H.loc(x) for x in H.walk(pa["body"]) if H.kind(x) == "Binary" and x["op"] in ("Add", "Sub", "Mul", "Div")
                 and sum(1 for y in H.walk(x) if H.kind(y) == "Index" and "f64" in (H.strip(y["e"]).get("ty") or "")) >= 2]
        ctx.inst("C15.R10", "Percentile#an-element", not mixes, "arithmetic that combines two elements of the numbers: %s (the result is then not an element of the list)" % (mixes or "none"), H.loc(pa["body"]))
    # `[...a, ...b, x]` lists every element once, in order: the vector under construction is only appended to
    hev10 = core.hir_fn("blots_core::expressions::evaluate_ast")
    mev10 = H.main_match(hev10["body"], "ast::Expr")
    la10 = next((a_ for a_ in (mev10["arms"] if mev10 else []) if any(H.last(v_) == "List" for v_ in H.pat_variants(a_["pat"]))), None)
    if la10 is not None:
        grown = {H.path_local(x["recv"]) for x in H.walk(la10["body"]) if H.kind(x) == "MethodCall" and x["name"] in ("push", "extend", "append") and "Vec<blots_core::values::Value>" in (x.get("recv_ty") or "")} - {None}
        over = [H.loc(x) for lp_ in H.walk(la10["body"]) if H.kind(lp_) in ("For", "While", "Loop") for x in H.walk(lp_.get("body") or {}) if H.kind(x) == "Assign" and H.path_local(H.strip(x["l"])) in grown]
        ctx.inst("C15.R10", "List#append-only", (not over) if grown else None, "assignments that replace the element vector inside a loop: %s" % (over or "none"), H.loc(la10["body"]))
    hfc10 = core.hir_fn("blots_core::functions::FunctionDef::call")
    bcalls = [x for x in H.walk(hfc10["body"]) if H.kind(x) == "MethodCall" and x.get("def") == BCALL]
    if len(bcalls) != 1:
        ctx.inst("C15.R10", "FunctionDef::call#builtin-result-as-computed", None, "%d calls of BuiltInFunction::call in FunctionDef::call" % len(bcalls), H.loc(hfc10["body"]))
    else:
        chain = []
        for x in H.walk(hfc10["body"]):
            if H.kind(x) == "MethodCall" and x is not bcalls[0] and any(y is bcalls[0] for y in H.walk(x["recv"])):
                chain.append(x["name"])
        touch = sorted(set(chain) - {"map_err", "with_function_context", "with_call_site", "clone", "as_ref"})
        ctx.inst("C15.R10", "FunctionDef::call#builtin-result-as-computed", not touch, "adapters applied to the result of BuiltInFunction::call: %s%s" % (sorted(set(chain)) or "none", "" if not touch else " - %s can replace the value the built-in computed" % touch), H.loc(bcalls[0]))
    from lib import mir as M10
    cg10 = M10.CallGraph([core])
    BA10 = M10.BuiltinArms(core, cg10)
    for name in AGG + ["Percentile"]:
        fr = BA10.region(name)
        if fr is None:
            continue
        fn10, region = fr
        stat = set()
        for b_ in region:
            c_ = fn10.callee(b_) if fn10.term(b_)["k"] == "call" else None
            if c_ and re.search(r"thread::local::LocalKey|LazyLock|OnceLock|Mutex|RwLock", c_):
                stat.add(c_.split("::<")[0])
            for s_ in fn10.stmts(b_):
                if s_["k"] == "assign":
                    stat |= set(re.findall(r"'static': '([^']+)'", str(s_["rv"])))
        ctx.inst("C15.R10", "%s#stateless" % name, not stat, "statics / thread-locals the arm touches: %s" % (sorted(stat) or "none"), fn10.loc())

    # ---- R5 hand-written accumulation keeps infinities
    ctx.rule("C15.R5", "where sum / avg / prod accumulate in a hand-written loop or fold, the running value is never subtracted from or divided by something derived from itself (inf - inf and inf / inf are NaN: a list containing an infinity would no longer sum to that infinity), and the loop visits every element (no break / early return: a later sign or zero still counts)", floor=3)
    for name in ("Sum", "Avg", "Prod"):
        a = arms.get(name)
        if a is None:
            continue
        bad, loops = [], 0
        for lp in H.walk(a["body"]):
            if H.kind(lp) == "For":
                body_ = lp["body"]
            elif H.kind(lp) == "MethodCall" and lp["name"] in ("fold", "try_fold", "reduce") and lp.get("args") and H.kind(H.strip(lp["args"][-1])) == "Closure":
                body_ = H.strip(lp["args"][-1])
            else:
                continue
            loops += 1
            tainted = {H.path_local(x.get("l")) for x in H.walk(body_) if H.kind(x) in ("Assign", "AssignOp")} - {None}
            if H.kind(body_) == "Closure" and body_.get("params"):
                tainted |= set(H.pat_binds(body_["params"][0]))   # the accumulator parameter of a fold
            for _ in range(6):
                for st_ in H.walk(body_):
                    if isinstance(st_, dict) and st_.get("k") == "Let" and st_.get("init") is not None:
                        if any(H.path_local(y) in tainted for y in H.walk(st_["init"]) if H.kind(y) == "Path"):
                            tainted |= set(H.pat_binds(st_["pat"]))
            for x in H.walk(body_):
                if H.kind(x) in ("Break", "Ret") or (H.kind(x) == "MethodCall" and x["name"] in ("take_while", "skip_while", "take", "skip", "step_by")):
                    bad.append("%s at %s (the accumulation stops before the last element)" % (H.kind(x) if H.kind(x) != "MethodCall" else x["name"], H.loc(x)))
                if (H.kind(x) == "Binary" and x["op"] in ("Sub", "Div")) or (H.kind(x) == "AssignOp" and x["op"] in ("Sub", "Div", "SubAssign", "DivAssign")):
                    ls = [x.get("l"), x.get("r")]
                    dep = [any(H.path_local(y) in tainted for y in H.walk(o) if H.kind(y) == "Path") for o in ls if o is not None]
                    if len(dep) == 2 and dep[1]:
                        bad.append("%s at %s" % (x["op"], H.loc(x)))
        ctx.inst("C15.R5", "%s#accumulation" % name, not bad, "%d hand-written accumulation(s); differences / quotients of running values: %s" % (loops, bad or "none"), H.loc(a["body"]))

    # ---- R6 `f(...xs)` inside a function sees the same xs as `f(xs)`
    ctx.rule("C15.R6", "inside a function, the spread form `sum(...xs)` reads the same xs as `sum(xs)`: the capture analysis visits the operand of a spread and every call argument", floor=2)
    from rules import c04 as c04_
    c04_.free_variable_rule(ctx, "C15.R6", core, only=lambda k: k.startswith("recurses-into=Expr::Spread") or k.startswith("recurses-into=Expr::Call"))

    # ---- R7 numbers supplied as JSON inputs are the numbers the aggregates see
    ctx.rule("C15.R7", "an aggregate over numbers that arrive as JSON inputs works on exactly those numbers (min / max / median / percentile return one of them): serde_json is built with float_roundtrip, so input text is correctly rounded", floor=1)
    from rules import c06 as c06_
    feats_ = c06_.serde_json_features(ctx.metadata)
    if not feats_:
        ctx.inst("C15.R7", "serde_json@features", None, "serde_json not found in the resolved dependency graph", None)
    for ver_, fs_ in sorted((feats_ or {}).items()):
        ctx.inst("C15.R7", "serde_json@features", "float_roundtrip" in fs_, "resolved features of serde_json %s: %s" % (ver_, sorted(fs_)), "blots/Cargo.toml")

    c06_.to_json_number_rule(ctx, "C15.R7", core)
    c06_.from_json_number_rule(ctx, "C15.R7", core)
    # ---- R9 a helper that splits the numbers covers all of them
    ctx.rule("C15.R9", "when the numbers are split into a front and a back part (blocked or pairwise accumulation, selection around a pivot), the parts tile the slice: `x[..a]` and `x[b..]` on the same slice in one function have a == b, otherwise an element is dropped or counted twice", floor=1)
    n_pairs, n_fn = 0, 0
    for d_, f_ in sorted(core.hir.items()):
        if f_.get("body") is None or "::tests::" in d_ or not (d_.startswith("blots_core::functions::") or d_.startswith("blots_core::stats::") or d_.startswith("blots_core::values::")):
            continue
        n_fn += 1
        tos, froms = {}, {}
        for x in H.walk(f_["body"]):
            if H.kind(x) != "Index":
                continue
            i_ = H.strip(x["i"])
            base = H.path_local(H.strip(x["e"])) or (H.path_local(H.strip(H.strip(x["e"]).get("e") or {})) if H.kind(H.strip(x["e"])) in ("AddrOf", "Unary") else None)
            if base is None or H.kind(i_) != "Struct":
                continue
            rd = (i_["res"].get("def") or "")
            flds = {fl["name"]: fl["e"] for fl in i_["fields"]}
            if rd.endswith("range::RangeTo") and "end" in flds:
                tos.setdefault(base, []).append(flds["end"])
            if rd.endswith("range::RangeFrom") and "start" in flds:
                froms.setdefault(base, []).append(flds["start"])
        for b_ in sorted(set(tos) & set(froms)):
            ta = {S.show(S.norm(e_, S.Env())) for e_ in tos[b_]}
            fa = {S.show(S.norm(e_, S.Env())) for e_ in froms[b_]}
            if len(ta) == 1 and len(fa) == 1:
                n_pairs += 1
                # the two parts are accumulated together (`f(front) + f(back)`): then every element must be in one of them. Parts taken
                # around a pivot that is handled separately are a different algorithm (no verdict)
                def has_part(e_, which):
                    return any(H.kind(y) == "Index" and H.kind(H.strip(y["i"])) == "Struct" and (H.strip(y["i"])["res"].get("def") or "").endswith(which) for y in H.walk(e_))
                combined = any(H.kind(x) == "Binary" and x["op"] in ("Add", "Mul") and ((has_part(x["l"], "RangeTo") and has_part(x["r"], "RangeFrom")) or (has_part(x["l"], "RangeFrom") and has_part(x["r"], "RangeTo"))) for x in H.walk(f_["body"]))
                ctx.inst("C15.R9", "%s#split[%s]" % (d_.replace("blots_core::", ""), b_), True if ta == fa else (False if combined else None), "front part ends at %s, back part starts at %s" % (sorted(ta), sorted(fa)), H.loc(f_["body"]))
    ctx.inst("C15.R9", "split-helpers#scanned", True, "%d functions of functions.rs / values.rs scanned; front/back splits of one slice found: %d" % (n_fn, n_pairs), None)
    # ---- R8 every argument reaches the aggregate, as the number it is
    ctx.rule("C15.R8", "`sum(a, ...xs, b)` hands every argument to the built-in: the loop that flattens spread arguments of a call never ends early; and inside sum / avg / prod / min / max no element passes through an integer type (a cast saturates at 2^63)", floor=4)
    hev = core.hir_fn("blots_core::expressions::evaluate_ast")
    mev = H.main_match(hev["body"], "ast::Expr")
    call_arm = next((a_ for a_ in (mev["arms"] if mev else []) if any(H.last(v_) == "Call" for v_ in H.pat_variants(a_["pat"]))), None)
    if call_arm is None:
        ctx.inst("C15.R8", "Call#all-arguments", None, "no Call arm found in the evaluator", None)
    else:
        early = []
        for lp in H.walk(call_arm["body"]):
            if H.kind(lp) == "For":
                early += ["%s at %s" % (H.kind(x), H.loc(x)) for x in H.walk(lp["body"]) if H.kind(x) == "Break"]
        cut = ["%s at %s" % (x["name"], H.loc(x)) for x in H.walk(call_arm["body"]) if H.kind(x) == "MethodCall" and x["name"] in ("take_while", "take", "skip", "skip_while", "step_by", "map_while") and "Value" in (x.get("ty") or "")]
        ctx.inst("C15.R8", "Call#all-arguments", not early and not cut, "loops over the call's arguments that can end early: %s" % ((early + cut) or "none"), H.loc(call_arm["body"]))
    from rules import c04 as c04__
    c04__.call_arguments_in_order(ctx, "C15.R8", core)
    INTS = ("i8", "i16", "i32", "i64", "i128", "isize", "u8", "u16", "u32", "u64", "u128")
    for name in ("Sum", "Avg", "Prod", "Min", "Max"):
        a = arms.get(name)
        if a is None:
            continue
        casts = []
        for x in H.walk(a["body"]):
            if H.kind(x) == "Cast" and (x.get("ty") or "") in INTS and (H.strip(x["e"]).get("ty") or "").lstrip("&") == "f64":
                casts.append("as %s at %s" % (x.get("ty"), H.loc(x)))
        ctx.inst("C15.R8", "%s#no-integer-detour" % name, not casts, "elements cast to an integer type: %s" % (casts or "none"), H.loc(a["body"]))

    # ---- R4 both calling conventions are admitted by the arity table
    ctx.rule("C15.R4", "the arity table admits both calling conventions for each of min max avg sum prod median: any number of arguments >= 1 (one list, one number, or several numbers)", floor=6)
    from rules import c01
    ar = c01.arity_table(core)
    for name in AGG:
        row = ar.get(name)
        ctx.inst("C15.R4", "arity[%s]" % name, row == ("AtLeast", 1, None), "arity row %s (a narrower row rejects `%s(a, b, c)` or `%s(...list)` before the arm runs)" % (row, name.lower(), name.lower()), None)

    # ---- R2 mirror pair
    ctx.rule("C15.R2", "min and max are mirror images: same shape with (INFINITY, f64::min) <-> (NEG_INFINITY, f64::max)", floor=1)
    if "Min" in parts and "Max" in parts:
        mn = [x for x in parts["Min"][1]]
        mx = [x for x in parts["Max"][1]]
        sw = {("path", "core::f64::<impl f64>::INFINITY"): ("path", "core::f64::<impl f64>::NEG_INFINITY"), ("path", "core::f64::<impl f64>::min"): ("path", "core::f64::<impl f64>::max")}
        mirrored = [S.subst(x, sw) for x in mn if x[0] != "when" or x[2][0] != "return"]
        target = [x for x in mx if x[0] != "when" or x[2][0] != "return"]
        ctx.inst("C15.R2", "Min~Max", mirrored == target and parts["Min"][0] == parts["Max"][0], "min with the mirror substitution equals max: %s" % (mirrored == target), H.loc(arms["Max"]["body"]))
    # ---- percentile
    pa = arms.get("Percentile")
    if pa is None:
        raise CheckerError("no Percentile arm")
    env = S.Env(roles={ARGS_NAME[0]: ARGS})
    out = []
    blk = H.strip(pa["body"])
    e2 = env.child()
    nums_seen = False
    rest = []
    for s in blk["stmts"]:
        if s["k"] == "Let" and H.kind(s["pat"]) == "Bind" and s.get("init") is not None:
            if s["pat"].get("ty", "").endswith("Vec<f64>"):
                init = S.norm(s["init"], e2)
                e2.roles[s["pat"]["name"]] = N
                nums_seen = init
                continue
            ce = e2.child()
            e2.roles.pop(s["pat"]["name"], None)
            e2.inline[s["pat"]["name"]] = (s["init"], ce)
        elif s["k"] in ("Expr", "Semi"):
            B.leaves(s["e"], e2, rest)
    if blk.get("expr") is not None:
        B.leaves(blk["expr"], e2, rest)
    P = ("try", ("call", "as_number", ("index", ARGS, ("lit", "1"))))
    want_nums = ("try", ("call", "collect", ("call", "map", ("try", ("call", "as_list", A0)), CLO)))
    want_idx = ("cast", "usize", ("call", "round", ("bin", "Mul", ("bin", "Div", P, ("lit", "100.0")), ("cast", "f64", ("bin", "Sub", LEN, ("lit", "1"))))))
    vals = [x[1] for x in rest if x[0] == "value"]
    ok = S.verdict((nums_seen, tuple(vals)), (want_nums, (SORT, ("ctor", "Number", ("index", N, S.resort(want_idx))))))
    ctx.inst("C15.R3", "Percentile#reduction", ok, "numbers %s; computes %s" % (S.show(nums_seen)[:120] if nums_seen else None, [S.show(v)[:200] for v in vals]), H.loc(pa["body"]))
    guards = [x for x in rest if x[0] == "when" and x[2][0] == "return"]
    rng = [g for g in guards if S.contains(g[1], ("lit", "0.0")) and S.contains(g[1], ("lit", "100.0"))]
    emp = [g for g in guards if g[1] == ("call", "is_empty", N)]
    ctx.inst("C15.R3", "Percentile#guards", len(rng) == 1 and len(emp) == 1, "range guard 0..=100: %d, empty guard: %d" % (len(rng), len(emp)), H.loc(pa["body"]))
