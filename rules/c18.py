"""C18 — runaway recursion ends in a call-depth error, never in a crash (DESIGN §4 C18)."""
import os
import re
from lib import hir as H
from lib import mir as M
from lib.facts import CheckerError

NEED = ("dev",)
NEED_THOROUGH = ("stack",)

CORE = "blots_core::"
EVAL = CORE + "expressions::evaluate_ast"
FCALL = CORE + "functions::FunctionDef::call"
BCALL = CORE + "functions::BuiltInFunction::call"


def depth_param_index(crates, name):
    """1-based MIR index of the parameter named call_depth (type usize) of a function, or None"""
    for cr in crates:
        hf = cr.hir.get(name)
        if hf is None:
            continue
        for i, p in enumerate(hf["params"]):
            bs = H.pat_binds(p)
            if bs and bs[0] == "call_depth" and hf["inputs"][i] == "usize":
                return i + 1
    return None


def depth_expr(fn, op, dparam):
    """classify a depth argument: ('param', k) = own depth + k ; ('const', n) ; ('other', text)"""
    if "const" in op:
        m = re.match(r"(?:const )?(\d+)_usize", op["const"])
        return ("const", int(m.group(1))) if m else ("other", op["const"])
    pl = fn.op_place(op)
    if pl is None:
        return ("other", str(op)[:40])
    l, proj = pl["l"], pl["p"]
    k = 0
    for _ in range(12):
        if l == dparam and not [p for p in proj if p != "*"]:
            return ("param", k)
        ds = fn.full_defs(l)
        if len(ds) != 1 or ds[0][0] != "assign":
            return ("other", "local _%d" % l)
        rv = ds[0][3]["rv"]
        if rv["k"] == "use":
            p2 = fn.op_place(rv["op"])
            if p2 is None:
                return depth_expr(fn, rv["op"], dparam)
            l, proj = p2["l"], p2["p"]
            continue
        if rv["k"] == "binop" and rv["op"] in ("Add", "AddWithOverflow", "AddUnchecked"):
            a, b = rv["a"], rv["b"]
            if "const" in b:
                m = re.match(r"(?:const )?(\d+)_usize", b["const"])
                if m and fn.op_place(a) is not None:
                    k += int(m.group(1))
                    l, proj = fn.op_place(a)["l"], fn.op_place(a)["p"]
                    continue
            return ("other", "addition of non-constant")
        if rv["k"] == "binop":
            return ("other", "binop %s" % rv["op"])
        return ("other", rv["k"])
    return ("other", "too deep")


def run(ctx):
    core, cli, wasm = ctx.core, ctx.cli, ctx.wasm
    crates = [core, cli, wasm]
    cg = M.CallGraph(crates)
    ctx.not_decided += ["indirect calls on the recursion cycle (none today)", "exact frames of the pinned 1.89 toolchain (nightly frames are used; thorough tier)", "parser recursion depth"]

    # ---------------- R1 every Blots-level call passes the guard
    ctx.rule("C18.R1", "a lambda body is evaluated only by FunctionDef::call, and there the `call_depth > LIMIT` test with error exit dominates the body evaluation and the built-in dispatch", floor=4)
    fc = M.Fn(core.mir_fn(FCALL), FCALL)
    dparam = depth_param_index(crates, FCALL)
    if dparam is None:
        raise CheckerError("FunctionDef::call has no call_depth: usize parameter")
    # who evaluates a function body
    names = who_evaluates_bodies(cg)
    ctx.inst("C18.R1", "who-evaluates(LambdaDef.body)", names == [FCALL], "functions passing a function body (LambdaDef.body, or the body of a function literal) to evaluate_ast: %s" % names, None)
    # the guard
    guards = []
    for bi, b in enumerate(fc.blocks):
        for s in b["s"]:
            if s["k"] == "assign" and s["rv"]["k"] == "binop" and s["rv"]["op"] in ("Gt", "Ge") and s["rv"]["aty"] == "usize":
                a = depth_expr(fc, s["rv"]["a"], dparam)
                c = s["rv"]["b"]
                if a == ("param", 0) and "const" in c:
                    m = re.match(r"(?:const )?(\d+)_usize", c["const"])
                    val = int(c["int"]) if "int" in c else (int(m.group(1)) if m else None)
                    if val is not None and b["t"]["k"] == "switch":
                        lim = val + (0 if s["rv"]["op"] == "Gt" else -1)
                        guards.append((bi, lim, b["t"]))
    if len(guards) != 1:
        ctx.inst("C18.R1", "guard#present", False, "expected one `call_depth > const` test in FunctionDef::call, found %d" % len(guards), fc.loc())
        limit = None
    else:
        gb, limit, sw = guards[0]
        ctx.units["depth_limit"] = limit
        zero = [x[1] for x in sw["targets"] if x[0] == "0"]
        over, under = sw["otherwise"], zero[0] if zero else None
        body_calls = fc.calls_to(EVAL)
        bi_calls = fc.calls_to(BCALL)
        ctx.inst("C18.R1", "guard#present", True, "call_depth > %d at %s" % (limit, fc.loc(gb)), fc.loc(gb))
        for kind, calls in (("body", body_calls), ("builtin", bi_calls)):
            if not calls:
                ctx.inst("C18.R1", "guard#dominates-%s" % kind, False, "no %s call found in FunctionDef::call" % kind, fc.loc())
            for b in calls:
                dom = fc.dominates(gb, b)
                leak = b in fc.reachable(over)
                ctx.inst("C18.R1", "guard#dominates-%s" % kind, dom and not leak and under is not None and b in fc.reachable(under),
                         "guard dominates the %s call: %s; reachable from the over-limit edge: %s" % (kind, dom, leak), fc.loc(b))
        # over-limit edge returns an error: reaches a return without any call into the evaluator
        ev_calls = [x for x in fc.reachable(over) if fc.term(x)["k"] == "call" and (fc.callee(x) in (EVAL, BCALL))]
        ctx.inst("C18.R1", "guard#error-exit", not ev_calls, "over-limit edge reaches evaluator calls: %s" % ev_calls, fc.loc(gb))
        ctx.inst("C18.R1", "guard#limit", limit == 1000, "limit is %s (the property states 1000 nested calls)" % limit, fc.loc(gb))

    # ---------------- R2 the counter is monotone
    ctx.rule("C18.R2", "every call between depth-carrying functions passes its own call_depth + k (k >= 0, constant); FunctionDef::call passes k >= 1 to the body; only drivers pass constants", floor=40)
    ctx.rule("C18.R4", "depth is consumed by calls only: every edge between the evaluator's own functions passes call_depth unchanged and FunctionDef::call evaluates the body at call_depth + 1 exactly (the limit of 1000 then means 1000 nested calls)", floor=20)
    edge_cost = {}
    carriers = {}
    for name in cg.fns:
        i = depth_param_index(crates, name)
        if i is not None:
            carriers[name] = i
    ctx.units["depth_carrying_functions"] = sorted(carriers)
    n = 0
    for name, f in sorted(cg.fns.items()):
        callees = [c for c in cg.out.get(name, ()) if c in carriers]
        if not callees:
            continue
        fn = M.Fn(f, name)
        # closures use the depth captured from their parent: resolve through the parent's parameter
        own = carriers.get(name)
        k = 0
        for b in fn.call_blocks():
            c = fn.callee(b)
            if c not in carriers:
                continue
            n += 1
            op = fn.term(b)["args"][carriers[c] - 1]
            if own is not None:
                d = depth_expr(fn, op, own)
            else:
                d = closure_depth(fn, op, f, cg, carriers, crates)
            key = "%s->%s[%d]" % (name.replace(CORE, ""), H.last(c) if not c.endswith("::call") else c.replace(CORE, "").replace("functions::", ""), k)
            k += 1
            in_core_cycle = name.startswith(CORE) and (own is not None or f.get("parent") in carriers)
            if d[0] == "param":
                edge_cost.setdefault((f.get("parent") or name, c), []).append(d[1])
                # FunctionDef::call is the one place where a Blots-level call is counted: the body and the built-in dispatch both run one
                # level down (a built-in's own native frames - and those of the callbacks it makes - are part of the per-level stack budget)
                need = 1 if (name == FCALL and c in (EVAL, BCALL)) else 0
                ctx.inst("C18.R2", key, d[1] >= need, "passes call_depth + %d (needs >= %d)" % (d[1], need), fn.loc(b))
                # the converse clause: only Blots-level calls consume depth. Edges between the evaluator's own functions (sub-expressions,
                # operators, do-blocks) are not calls and must pass the depth on unchanged; the body edge adds exactly one.
                par = f.get("parent") or name
                internal = lambda x: x.startswith(CORE + "expressions::")
                if internal(par) and internal(c):
                    ctx.inst("C18.R4", key, d[1] == 0, "passes call_depth + %d between evaluator functions (a sub-expression, operator or do-block is not a call: recursion a few hundred deep would hit the limit early)" % d[1], fn.loc(b))
                elif name == FCALL and c == EVAL:
                    ctx.inst("C18.R4", key, d[1] == 1, "the body of a called function is evaluated at call_depth + %d (one per call)" % d[1], fn.loc(b))
            elif d[0] == "const":
                ctx.inst("C18.R2", key, not in_core_cycle, "passes the constant %d: %s" % (d[1], "driver entry" if not in_core_cycle else "resets the counter inside the evaluator"), fn.loc(b))
            else:
                ctx.inst("C18.R2", key, None if not in_core_cycle else False, "depth argument is %s" % (d[1],), fn.loc(b))
    ctx.units["depth_passing_call_sites"] = n
    # what one level of recursion through a callback of a higher-order built-in costs: FunctionDef::call -> BuiltInFunction::call (+1),
    # the built-in -> (helpers) -> FunctionDef::call of the callback, the callback's body (+1). "A few hundred calls deep completes" needs
    # the whole round to stay at 3 units (1000 / 3 = 333 levels); every extra unit on the way from the built-in to the callback's call
    # costs a quarter of the reachable depth (4 units: 250 levels)
    def max_cost(src, dst, seen=()):
        best = None
        for (a_, b_), ks in edge_cost.items():
            if a_ != src or b_ in seen:
                continue
            k_ = max(ks)
            if b_ == dst:
                best = k_ if best is None else max(best, k_)
            elif b_.startswith(CORE + "functions::") and b_ not in (FCALL, BCALL) and len(seen) < 3:
                sub = max_cost(b_, dst, seen + (b_,))
                if sub is not None:
                    best = k_ + sub if best is None else max(best, k_ + sub)
        return best
    cb = max_cost(BCALL, FCALL)
    ctx.inst("C18.R4", "callback-round#depth-cost", None if cb is None else cb <= 1, "from a higher-order built-in to the call of its callback the depth grows by %s (1 at the pinned tree: a recursion through map costs 3 units per level, so ~330 levels fit under the limit of 1000)" % cb, None)

    # ---------------- R3 (quick part): where the evaluator runs
    # ---------------- R5 the depth error's text survives the way out
    ctx.rule("C18.R5", "what the over-limit exit says is what the user reads: the exit's message names the call depth, and no carrier of a RuntimeError (the constructors, with_call_site, with_function_context, the conversions, Display) shortens the message it carries", floor=6)
    SHRINK = re.compile(r"String::(truncate|drain|clear|pop|remove|retain|split_off|replace_range)$|core::str::<impl str>::(split_at|split|get|trim_end_matches|char_indices|chars)|Index<|SliceIndex|core::iter::traits::iterator::Iterator::take")
    carriers = [n for n in core.mir if "error::RuntimeError" in n and "closure" not in n and not n.endswith("core::fmt::Debug>::fmt")]
    for n in sorted(carriers):
        g = M.Fn(core.mir_fn(n), n)
        cut = set()
        for b in g.call_blocks():
            c_ = g.callee(b) or ""
            if not SHRINK.search(c_):
                continue
            if "String::" in c_:
                cut.add(c_)   # the only owned strings a carrier handles are messages
                continue
            args_ = g.term(b).get("args") or []
            roots_ = g.trace(args_[0]) if args_ else []
            if any("message" in (r[2] if r[0] in ("param", "local") else r[3] if r[0] in ("call", "agg") else []) for r in roots_) or any(r[0] == "call" and "fmt::format" in str(r[1]) for r in roots_):
                cut.add(c_)
        cut = sorted(cut)
        ctx.inst("C18.R5", "carrier:" + n.replace(CORE, ""), not cut, "operations that can drop part of the message: %s" % (cut or "none"), g.loc())
    # ... and no place that prints an error cuts it with a format precision (`{:.200}` truncates a Display string)
    n_ph = 0
    for cr in crates:
        for fname, f_ in cr.hir.items():
            if f_.get("body") is None or "::tests::" in fname:
                continue
            cut_ = []
            seen_ = 0
            for mnode in H.walk(f_["body"]):
                if H.kind(mnode) != "Macro":
                    continue
                for ph, arg in H.placeholder_args(cr, mnode):
                    ty_ = (arg or {}).get("ty") or ""
                    if "RuntimeError" in ty_ or "anyhow::Error" in ty_:
                        seen_ += 1
                        if ph.get("precision") is not None:
                            cut_.append("%s! prints it with precision %s at %s" % (mnode["name"], ph.get("precision"), H.loc(mnode)))
            if seen_:
                n_ph += seen_
                ctx.inst("C18.R5", "prints:" + fname.replace(CORE, ""), not cut_, "%d placeholder(s) print an evaluation error; truncating: %s" % (seen_, cut_ or "none"), H.loc(f_["body"]))
    ctx.units["error_print_placeholders"] = n_ph
    lits = []
    hf = core.hir_fn(FCALL)
    for mnode in H.walk(hf["body"]):
        if H.kind(mnode) == "Macro":
            lits += [H.template_text(t) for t in H.macro_templates(core, mnode)]
    lits += H.str_lits(hf["body"], core)
    says = [t for t in lits if re.search(r"maximum call depth", t)]
    ctx.inst("C18.R5", "exit#message", True if says else None, "messages built in FunctionDef::call that name the call depth: %s" % (says or "none found (the text may be built elsewhere)"), fc.loc())

    # ---------------- R6 one machine frame per counted level
    ctx.rule("C18.R6", "no function on the evaluation cycle (evaluate_ast <-> FunctionDef::call and what lies between) is force-inlined: `#[inline(always)]` merges a callee's frame into every caller, so the stack consumed per counted call grows with each operator level and the 1000-call budget no longer fits the stack", floor=5)
    fwd = cg.reachable_from([EVAL])
    cyc = sorted(n_ for n_ in fwd if n_ in cg.fns and n_.startswith(CORE) and EVAL in cg.reachable_from([n_]) and "closure" not in n_)
    forced = []
    for n_ in cyc:
        hf_ = core.hir.get(n_)
        inl = (hf_ or {}).get("inline")
        if hf_ is None or inl is None:
            continue
        ctx.inst("C18.R6", "cycle:" + n_.replace(CORE, ""), inl != "Always", "inline attribute: %s" % inl, H.loc(hf_["body"]) if hf_.get("body") else None)
    ctx.units["functions_on_the_evaluation_cycle"] = len(cyc)

    # ---------------- R7 name lookup has no depth of its own
    ctx.rule("C18.R7", "looking a name up walks the whole scope chain: Environment::get / contains_key have no iteration bound of their own (each call adds two or three scopes, so a bound near the call-depth limit makes globals unreachable a few hundred calls deep and turns the depth error into 'unknown identifier')", floor=2)
    for fname_ in sorted(core.hir):
        if not fname_.startswith(CORE + "environment::Environment::") or H.last(fname_) not in ("get", "contains_key") or core.hir[fname_].get("body") is None:
            continue
        fb_ = core.hir_fn(fname_)
        bounded = []
        for lp_ in H.walk(fb_["body"]):
            if H.kind(lp_) == "For":
                it_ = H.strip(lp_["iter"])
                if H.kind(it_) == "Struct" and "ops::range::Range" in ((it_.get("res") or {}).get("def") or ""):
                    bounded.append(H.loc(lp_))
                elif H.kind(it_) == "MethodCall" and it_["name"] in ("take", "take_while"):
                    bounded.append(H.loc(lp_))
        ctx.inst("C18.R7", fname_.replace(CORE, "") + "#unbounded-walk", not bounded, "loops with an iteration bound in the scope-chain walk: %s" % (bounded or "none"), H.loc(fb_["body"]))

    # ---------------- R8 a recursion through a callback is not ended by a borrow panic
    ctx.rule("C18.R8", "no RefCell guard of the heap is live while a callback runs (via / where / into and the higher-order built-ins): the next level of a recursion through the callback allocates, and `already borrowed` is a panic - the process dies instead of reaching the call-depth error", floor=8)
    from rules import c01 as c01_
    for fn_, k_, live_, loc_ in c01_.callback_guard_sites(core):
        ctx.inst("C18.R8", "%s#callback%d" % (fn_.replace("blots_core::", ""), k_), not live_, "heap guards that may be live during the callback: %s" % (live_ or "none"), loc_)
    # ---------------- R9 the error is what the run ends with
    ctx.rule("C18.R9", "the call-depth error ends the run: in the CLI's statement loop every Err of evaluate_pairs leads to a non-zero exit through a handler that reports it - also when the failing statement is an `output` declaration", floor=2)
    from rules import c19 as c19_
    c19_.evaluation_errors_are_fatal(ctx, "C18.R9", ctx.cli)

    # ---------------- R10 the optimised build is optimised
    ctx.rule("C18.R10", "the optimised profiles the CLI ships as (release, and dist which inherits it) keep cargo's opt-level 3: the frames of the evaluator's recursive functions are several times larger unoptimised, and 1000 nested calls no longer fit the stack (the thorough tier measures the frames of whatever the profile builds)", floor=1)
    import tomllib
    from lib import facts as F_
    try:
        man = tomllib.load(open(os.path.join(F_.REPO, "Cargo.toml"), "rb"))
    except Exception as ex_:
        man = None
        ctx.inst("C18.R10", "profile.release#opt-level", None, "workspace manifest not read: %s" % ex_, "Cargo.toml")
    if man is not None:
        profs = man.get("profile", {})
        for pn in sorted(set(profs) | {"release"}):
            pr = profs.get(pn, {})
            if pn not in ("release",) and pr.get("inherits") != "release":
                continue
            ol = pr.get("opt-level", 3)
            per_pkg = {k_: v_.get("opt-level") for k_, v_ in (pr.get("package") or {}).items() if isinstance(v_, dict) and "opt-level" in v_ and (k_ in ("blots-core", "blots", "*"))}
            vals = [ol] + list(per_pkg.values())
            bad = [v_ for v_ in vals if v_ in (0, 1, "0", "1")]
            unsure = [v_ for v_ in vals if v_ not in (3, "3") and v_ not in bad]
            ctx.inst("C18.R10", "profile.%s#opt-level" % pn, False if bad else (None if unsure else True), "opt-level %s%s" % (ol, "; per-package overrides %s" % per_pkg if per_pkg else ""), "Cargo.toml")

    # ---------------- R11 an evaluation error ends the evaluation at once, and grows by a constant per frame
    ctx.rule("C18.R11", "the call-depth error travels straight up: inside the evaluator every result of evaluate_ast / evaluate_binary_op_ast / evaluate_do_block_expr / FunctionDef::call / BuiltInFunction::call is propagated with `?` or returned before anything else is evaluated (an error kept in a variable while the sibling operand is evaluated makes the error path of a tree recursion exponential; an error assigned to `_` is lost), and no frame rebuilds the message from the whole error (a message that contains the previous error's own rendering doubles per frame)", floor=30)
    from rules.c02 import parents as parents_
    EVS = {EVAL, CORE + "expressions::evaluate_binary_op_ast", CORE + "expressions::evaluate_do_block_expr", FCALL, BCALL}
    for d_ in sorted(EVS):
        f_ = core.hir.get(d_)
        if f_ is None or f_.get("body") is None:
            continue
        P_ = parents_(f_["body"])

        def up(n_):
            p_ = P_.get(id(n_))
            while isinstance(p_, list):
                p_ = P_.get(id(p_))
            return p_
        k11 = {}
        for x in H.walk(f_["body"]):
            if not (H.kind(x) in ("Call", "MethodCall") and x.get("def") in EVS):
                continue
            cur, par = x, up(x)
            while isinstance(par, dict) and par.get("k") == "MethodCall" and any(y is cur for y in H.walk(par["recv"])):
                cur, par = par, up(par)
            kind = par.get("k") if isinstance(par, dict) else None
            verdict, why = None, "consumed by %s" % kind
            if kind == "Try":
                verdict, why = True, "propagated with `?`"
            elif kind in ("Ret",) or (kind == "Block" and par.get("expr") is cur) or kind in ("Closure", "Arm"):
                verdict, why = True, "returned as it is"
            elif kind == "Let" and par.get("init") is cur:
                blk = up(par)
                later = []
                if isinstance(blk, dict) and blk.get("k") == "Block":
                    i_ = next((j for j, st_ in enumerate(blk["stmts"]) if st_ is par), None)
                    rest = (blk["stmts"][i_ + 1:] if i_ is not None else []) + ([blk["expr"]] if blk.get("expr") is not None else [])
                    later = [H.loc(y) for st_ in rest for y in H.walk(st_) if H.kind(y) in ("Call", "MethodCall") and y.get("def") in EVS]
                if H.kind(par["pat"]) == "Wild":
                    verdict, why = False, "the result is assigned to `_`: an error raised in there is dropped and the evaluation goes on"
                elif later:
                    # inside a comparator closure (sort_by's key evaluations) an error cannot be returned at all: the two key results are
                    # matched together and a failure counts as Equal. Recursion through sort_by keys is not one of the forms the
                    # property lists; recorded, not judged (DESIGN.md, C18: observation)
                    anc, in_cmp = up(par), False
                    while isinstance(anc, dict):
                        if anc.get("k") == "Closure":
                            m_ = up(anc)
                            in_cmp = isinstance(m_, dict) and m_.get("k") == "MethodCall" and m_.get("name", "").startswith("sort")
                            break
                        anc = up(anc)
                    if in_cmp:
                        verdict, why = None, "a key evaluation inside a sort comparator: its error cannot be propagated from there and is mapped to Equal (recursion through sort_by keys is outside the forms the property lists)"
                    else:
                        verdict, why = False, "the result is kept in a variable while the evaluation continues (%s): after a failure the other branch is still evaluated in full" % later[:2]
                else:
                    verdict, why = True, "bound, nothing else is evaluated before it is returned"
            elif kind in ("Semi", "Expr") or (kind == "Block" and par.get("expr") is not cur):
                verdict, why = False, "the result is discarded"
            elif kind == "Match" and par.get("scrut") is cur:
                # `match evaluate(..) { Ok(v) => v, Err(e) => return Err(e) }` is `?` written out; an Err arm that answers with a value
                # swallows the error (the call-depth error with it)
                err_arms = [a_ for a_ in par["arms"] if any(H.last(v_) == "Err" for v_ in H.pat_variants(a_["pat"]))]
                swallow = [H.loc(a_["body"]) for a_ in err_arms if not any(H.kind(y) == "Ret" or (H.kind(y) == "Call" and H.last((H.strip(y["f"]).get("res") or {}).get("def") or "") == "Err") for y in H.walk(a_["body"]))]
                if err_arms and swallow:
                    verdict, why = False, "an `Err` arm answers with a value (%s): an evaluation error - the call-depth error included - is replaced by a result" % swallow[0]
                elif err_arms:
                    verdict, why = True, "matched; every `Err` arm returns an error"
            lab = H.last(x["def"])
            i_ = k11.get(lab, 0)
            k11[lab] = i_ + 1
            ctx.inst("C18.R11", "%s->%s[%d]" % (d_.replace(CORE, ""), lab, i_), verdict, why, H.loc(x))
    n_self = 0
    for d_, f_ in sorted(core.hir.items()):
        if f_.get("body") is None or "::tests::" in d_ or not d_.startswith(CORE):
            continue
        for x in H.walk(f_["body"]):
            if H.kind(x) == "Struct" and (x["res"].get("def") or "").endswith("error::RuntimeError"):
                for fld in x.get("fields", []):
                    if fld["name"] == "message":
                        for m_ in H.walk(fld["e"]):
                            if H.kind(m_) == "Macro" and m_.get("name") == "format" and any("error::RuntimeError" in (H.strip(a_).get("ty") or "") for a_ in m_.get("args", [])):
                                n_self += 1
                                ctx.inst("C18.R11", "%s#message-from-whole-error" % d_.replace(CORE, ""), False, "a RuntimeError's message is formatted from a whole RuntimeError: each frame that does this includes the previous rendering (message, context, source excerpt) once more", H.loc(m_))
    ctx.inst("C18.R11", "message-from-whole-error#none", n_self == 0, "RuntimeError messages built from a whole RuntimeError: %d" % n_self, None)

    # ---------------- R12 how deep a written chain of operators nests
    ctx.rule("C18.R12", "a body of ordinary nesting is read with ordinary nesting: the parser's binding levels and associativities are the documented ones, so a flat chain `a ?? b ?? c ?? f(n + 1)` nests to the left (the recursive call one operator level deep) - merged into a right-associative level it nests once per operator, and every level is a native evaluate_binary_op_ast frame per call", floor=20)
    from rules import c10 as c10_
    c10_.CRATE[0] = core
    try:
        c10_.binding_levels_rule(ctx, "C18.R12", core, c10_.precedence_rows(core))
    except CheckerError as ex_:
        ctx.inst("C18.R12", "levels#count", None, "binding levels not read: %s" % ex_, "blots-core/src/precedence.rs")

    ctx.rule("C18.R3s", "the evaluator runs on the main thread (8 MiB default) or on a thread whose explicit stack size is at least that; recorded for the stack budget", floor=1)
    sizes = []
    for name, f in cg.fns.items():
        if not (name.startswith("blots::") or name.startswith("blots_wasm::")):
            continue
        fn = M.Fn(f, name)
        for b in fn.calls_matching(lambda d: d.endswith("thread::Builder::stack_size") or d.endswith("thread::builder::Builder::stack_size")):
            op = fn.term(b)["args"][1]
            m = re.match(r"(?:const )?(\d+)_usize", op.get("const", ""))
            sizes.append((name, int(m.group(1)) if m else None, fn.loc(b)))
    spawns = [n for n in cg.fns if (n.startswith("blots::")) and any(c.startswith("std::thread::") and ("spawn" in c) for c in cg.out.get(n, ()))]
    if not sizes and not spawns:
        ctx.inst("C18.R3s", "cli#stack", True, "no thread is spawned by the CLI: the evaluator runs on the main thread (8 MiB default stack assumed)", None)
        ctx.units["evaluator_stack_bytes"] = 8 * 1024 * 1024
    else:
        for name, sz, loc in sizes:
            ok = sz is not None and sz >= 8 * 1024 * 1024
            ctx.inst("C18.R3s", "cli#stack@%s" % name, ok, "thread stack size %s bytes (needs >= 8 MiB for the budget the property assumes)" % sz, loc)
        if spawns and not sizes:
            ctx.inst("C18.R3s", "cli#stack", False, "CLI spawns threads (%s) with the default 2 MiB stack" % spawns, None)
        ctx.units["evaluator_stack_bytes"] = min([s for _, s, _ in sizes if s] or [2 * 1024 * 1024])


def closure_depth(fn, op, f, cg, carriers, crates):
    """depth passed from inside a closure: an upvar capturing the parent's call_depth (+k)"""
    pl = fn.op_place(op)
    if "const" in op:
        m = re.match(r"(?:const )?(\d+)_usize", op["const"])
        return ("const", int(m.group(1))) if m else ("other", op["const"])
    if pl is None:
        return ("other", "?")
    l, k = pl["l"], 0
    for _ in range(12):
        ds = fn.full_defs(l)
        if not ds:
            break
        if len(ds) != 1 or ds[0][0] != "assign":
            return ("other", "local _%d" % l)
        rv = ds[0][3]["rv"]
        if rv["k"] == "use":
            p2 = fn.op_place(rv["op"])
            if p2 is None:
                return ("other", "const in closure")
            if p2["l"] == 1:
                # field of the closure environment: an upvar; trust its name from debug info
                names = [n for n, plc in f.get("debug", []) if plc["l"] == 1 and plc["p"] and plc["p"][-1] == p2["p"][-1] or plc == p2]
                nm = [n for n, plc in f.get("debug", []) if plc["l"] == 1 and [x for x in plc["p"] if x != "*"] == [x for x in p2["p"] if x != "*"]]
                if "call_depth" in nm:
                    return ("param", k)
                return ("other", "upvar %s" % nm)
            l = p2["l"]
            continue
        if rv["k"] == "binop" and rv["op"] in ("Add", "AddWithOverflow", "AddUnchecked") and "const" in rv["b"]:
            m = re.match(r"(?:const )?(\d+)_usize", rv["b"]["const"])
            if m and fn.op_place(rv["a"]) is not None:
                k += int(m.group(1))
                l = fn.op_place(rv["a"])["l"]
                continue
        return ("other", rv["k"])
    return ("other", "unresolved")


# ---------------------------------------------------------------- thorough: machine-frame stack budget (Engine D)
def run_thorough(ctx):
    import heapq, json, os
    from lib import facts as F
    st = json.load(open(os.path.join(ctx.fdir, "stack.json")))
    sizes, edges = st["sizes"], st["edges"]
    ctx.units["machine_functions_with_frame_sizes"] = len(sizes)
    ctx.trusted = ["LLVM .stack_sizes section of the nightly release object (fixed frame sizes)", "relocation-resolved direct call edges from llvm-objdump", "rustc nightly 1.97 front end"]
    ctx.assumptions = ["frames are those of the nightly release build (the shipped binary is built with the pinned 1.89; frames differ by a few percent)",
                       "only fixed frames on the cheapest direct recursion cycle are summed: a lower bound on real stack use, so a failed obligation is a definite overflow and a passed one is 'the direct cycle fits'",
                       "main-thread stack of 8 MiB unless the CLI sets an explicit thread stack size (R3s)"]

    def find(suffix):
        c = [k for k in sizes if k == suffix or k.endswith(suffix)]
        c = [k for k in c if "{closure" not in k and "::<" not in k.replace(suffix, "")]
        if len(c) != 1:
            raise F.CheckerError("stack facts: cannot identify %s among machine functions (%d candidates)" % (suffix, len(c)))
        return c[0]

    EA = find("blots_core::expressions::evaluate_ast")
    FC = find("<blots_core::functions::FunctionDef>::call")
    w = lambda f: sizes.get(f, 0) + 8  # frame + return address

    def dist(src, dst, avoid=()):
        """cheapest sum of frames on a call path src -> dst, counting src and every intermediate node, not dst"""
        pq = [(w(src), src)]
        best = {src: w(src)}
        while pq:
            c, x = heapq.heappop(pq)
            if c > best.get(x, 1e18):
                continue
            for y in edges.get(x, ()):
                if y == dst:
                    return c, x
                if y in avoid or y not in sizes:
                    continue
                nc = c + w(y)
                if nc < best.get(y, 1e18):
                    best[y] = nc
                    heapq.heappush(pq, (nc, y))
        return None, None

    BO = find("blots_core::expressions::evaluate_binary_op_ast")
    a, _ = dist(EA, FC)
    b, _ = dist(FC, EA)
    s1, via = dist(EA, EA, avoid=(FC,))
    ab, _ = dist(EA, BO, avoid=(FC,))
    bb, _ = dist(BO, EA, avoid=(FC,))
    ctx.rule("C18.R3", "stack budget from machine frames: (limit+1) x (S0 + d x S1) fits the evaluator's stack for bodies of nesting d, and 300 x (S0 + d x S1) likewise; S0 = frames retained on the cheapest call cycle through FunctionDef::call, S1 = frames retained per nesting level (generic: cheapest evaluate_ast cycle without a Blots call; binary: the cycle through evaluate_binary_op_ast); tail calls release their frame and are not cycle edges", floor=20)
    if a is None or b is None or s1 is None or ab is None or bb is None:
        ctx.inst("C18.R3", "cycles", False, "recursion cycles not found in the machine call graph (S0: %s+%s, S1: %s, binary: %s+%s)" % (a, b, s1, ab, bb), None)
        return
    S0, S1, S1B = a + b, s1, ab + bb
    ctx.units["S0_bytes_per_blots_call"] = S0
    ctx.units["S1_bytes_per_generic_nesting_level"] = S1
    ctx.units["S1_bytes_per_binary_operator_level"] = S1B
    limit = ctx.units.get("depth_limit", 1000)
    stack = ctx.units.get("evaluator_stack_bytes", 8 * 1024 * 1024)
    ctx.inst("C18.R3", "cycles", True, "S0 = %d B per Blots call, S1 = %d B per generic nesting level (via %s), %d B per binary-operator level; frames: evaluate_ast %d, evaluate_binary_op_ast %d, FunctionDef::call %d" % (S0, S1, via.split("::")[-1], S1B, sizes[EA], sizes[BO], sizes[FC]), None)
    # The frames are nightly's; the shipped binary is built by the pinned toolchain. Verdicts are given only outside a +-25 % band.
    TOL = 0.25

    def verdict(need):
        if need > stack * (1 + TOL):
            return False
        if need < stack * (1 - TOL):
            return True
        return None

    for kind, per in (("generic", S1), ("binary", S1B)):
        for d in (0, 1, 2, 3, 4, 8, 16, 32):
            need = (limit + 1) * (S0 + d * per)
            ctx.inst("C18.R3", "runaway#%s:d=%d" % (kind, d), verdict(need), "runaway recursion with %d nested %s level(s) per body retains at least %d x (%d + %d x %d) = %.1f MiB before the depth error can fire; stack %.1f MiB%s" % (
                d, "operator" if kind == "binary" else "expression", limit + 1, S0, d, per, need / 2**20, stack / 2**20, "" if verdict(need) is not None else " (inside the +-25 %% toolchain band: not decided)"), None)
            need3 = 300 * (S0 + d * per)
            ctx.inst("C18.R3", "depth300#%s:d=%d" % (kind, d), verdict(need3), "300 nested calls with %d nested %s level(s) per body retain at least %.1f MiB; stack %.1f MiB" % (d, "operator" if kind == "binary" else "expression", need3 / 2**20, stack / 2**20), None)


def read_limit(core, crates):
    """the constant N of the one `call_depth > N` test in FunctionDef::call (None if it is not of that form)"""
    fc = M.Fn(core.mir_fn(FCALL), FCALL)
    dparam = depth_param_index(crates, FCALL)
    if dparam is None:
        return None
    found = []
    for b in fc.blocks:
        for s_ in b["s"]:
            if s_["k"] == "assign" and s_["rv"]["k"] == "binop" and s_["rv"]["op"] in ("Gt", "Ge") and s_["rv"]["aty"] == "usize":
                a = depth_expr(fc, s_["rv"]["a"], dparam)
                c = s_["rv"]["b"]
                if a == ("param", 0) and "const" in c:
                    m = re.match(r"(?:const )?(\d+)_usize", c["const"])
                    val = int(c["int"]) if "int" in c else (int(m.group(1)) if m else None)
                    if val is not None:
                        found.append(val + (0 if s_["rv"]["op"] == "Gt" else -1))
    return found[0] if len(found) == 1 else None


def who_evaluates_bodies(cg):
    """functions that hand a function body to evaluate_ast: the body field of a LambdaDef, or the body of an `Expr::Lambda` literal
    (an immediately-invoked literal evaluated in place bypasses the call protocol: arity check, spread flattening, depth count)"""
    evaluators = set()
    for name, f in cg.fns.items():
        if EVAL not in cg.out.get(name, ()):
            continue
        fn = M.Fn(f, name)
        for b in fn.calls_to(EVAL):
            roots = fn.trace(fn.term(b)["args"][0])
            for r in roots:
                proj = r[2] if r[0] in ("param", "local") else r[3] if r[0] in ("call", "agg") else []
                if "body" in proj:
                    evaluators.add(name)
    return sorted(evaluators)
