"""C05 — function outputs are portable: emitted source reloads to an equivalent function (DESIGN §4 C05).
Decided: the printer inverts the parser construct by construct (necessary for the emitted source to parse and to
denote the same tree), outputs are validated before they are emitted, binders agree between capture and inlining."""
from lib.facts import CheckerError
from lib import hir as H
from lib.peg import Grammar
from rules import printers as P
from rules import c06

NEED = ("dev",)


def run(ctx):
    core, cli = ctx.core, ctx.cli
    G = Grammar(ctx.grammar)
    ctx.not_decided += ["behavioural equivalence of the reloaded function on all argument tuples", "validate_portable_value accepting late-bound names (outside the statement's premise)"]
    P.L1_tokens(ctx, "C05.L1", core, G)
    P.L3_levels(ctx, "C05.L3", core, G)
    from rules import c10 as c10_
    ctx.rule("C05.L12", "the parser that reloads an emitted function binds as the documented table says (levels, members, associativity): the emitter parenthesises against that table, so a parser that merges or reorders levels reads unparenthesised output as another tree", floor=30)
    c10_.CRATE[0] = core
    c10_.binding_levels_rule(ctx, "C05.L12", core, c10_.precedence_rows(core))
    from rules import c02 as c02_
    ctx.rule("C05.R14", "what a function does does not depend on how a value was written: the emitter writes captured values as literals, so the operator evaluator must not treat a literal operand differently from a variable holding the same value; and the parser that reloads emitted source has no call budget (a captured table is one large literal)", floor=2)
    c02_.operand_syntax_rule(ctx, "C05.R14", core)
    c02_.process_wide_setters(ctx, "C05.R14", [core, cli, ctx.wasm])
    P.L4_strings(ctx, "C05.L4", core, G)
    P.L5_nonfinite(ctx, "C05.L5", core)
    P.L6_reserved(ctx, "C05.L6", core, G)
    P.L7_builtins(ctx, "C05.L7", core)
    from rules import symprint
    symprint.L2_guards(ctx, "C05.L2", core, G, scope_fns=("ast_to_source",))
    symprint.param_markers(ctx, "C05.L13", core, scope_fns=("ast_to_source",))
    symprint.shape_rules(ctx, "C05.L9", core, G, scope_fns=("ast_to_source",))
    symprint.lambda_head(ctx, "C05.L11", core, G, scope_fns=("ast_to_source",))
    symprint.scope_threading(ctx, "C05.R10", core)
    # captured and literal numbers are emitted exactly (shared with C16.R1)
    from rules import c16
    ctx.rule("C05.L10", "numbers in emitted function source are printed exactly: f64 Display without precision, or precision 0 dominated by fract() == 0", floor=6)
    c16.decimal_literals_are_floats(ctx, "C05.L10", core)
    pf = P.printer_fns(core)
    for pn in sorted(pf):
        if not pn.startswith("blots_core::ast_to_source::"):
            continue
        for arm, var, vnames, vs in c16.number_arms(core, pn, pf[pn]):
            owner = "|".join(sorted({v.split("::")[-2] for v in vs}))
            key = "%s[%s::Number]" % (pn.replace("blots_core::", ""), owner)
            c16.classify_number_to_text(core, arm["body"], var, lambda k, ok, d, loc: ctx.inst("C05.L10", k, ok, d, loc), key, None)
    # the names that always resolve (inf, infinity, constants) are exactly the names the capture analysis / portability check skips:
    # the printer emits a captured infinity as `inf`, which must not count as an unbound variable when the function is reloaded
    from rules import c04
    ctx.rule("C05.R9", "the names the evaluator resolves before the environment lookup are exactly the names collect_free_variables (and with it validate_portable_value) skips", floor=3)
    c04.special_names(ctx, "C05.R9", core)
    P.R7_validate_then_emit(ctx, "C05.R7", cli)
    P.R8_binders(ctx, "C05.R8", core)
    # what the capture analysis misses is never substituted into the emitted source: the analysis is decided here as well
    from rules import c04
    ctx.rule("C05.R11", "the capture analysis finds every name the function body reads: same positions as the evaluator's reads, every expression child visited, binder arms work on a copy of the bound set (a parameter of an inner function must not hide a later free occurrence of the same name: it would stay a bare, unbound name in the emitted source)", floor=8)
    c04.free_variable_rule(ctx, "C05.R11", core)
    c04.capture_by_name(ctx, "C05.R11", core)
    # the emitted source carries no name for the function and writes calls of function literals in full: it reloads to the same function
    # only if every call, whatever the callee looks like, goes through the one calling convention and parameters win over the self name
    ctx.rule("C05.R13", "one calling convention: a function body is evaluated only by FunctionDef::call (no in-place evaluation of an immediately-invoked function literal that skips the arity check and the flattening of spread arguments), and in the call frame parameters are bound after the function's own name and `inputs`", floor=2)
    from rules import c18 as c18_
    from lib import mir as M_
    names_ = c18_.who_evaluates_bodies(M_.CallGraph([core, ctx.cli, ctx.wasm]))
    ctx.inst("C05.R13", "who-evaluates-a-function-body", names_ == [c18_.FCALL], "functions handing a function body to evaluate_ast: %s" % names_, None)
    c04.parameters_last(ctx, "C05.R13", core)
    # R12: a captured negative number is written as prefix minus applied to a literal
    ctx.rule("C05.R12", "the emitter writes a negative number (captured or literal) as a bare `-2`, which the grammar reads as prefix minus applied to 2: that is the same number in every operand position only while prefix operators bind tighter than every infix operator, i.e. build_pratt_parser registers the prefix group after all infix groups", floor=1)
    from rules import c10
    try:
        okb, whyb, tail = c10.builder_shape(core)
        pre_idx = [i for i, ch in enumerate(tail) if any(k == "prefix" and r == "negation" for k, r in ch)]
        early = [w for w in whyb if "registered before the infix groups" in w and "negation" in w]
        # a prefix registration inside the loop that registers the infix groups, ahead of the infix registration of the same pass
        inloop = []
        fb_ = core.hir_fn("blots_core::precedence::build_pratt_parser")["body"]
        for fo_ in H.walk(fb_):
            if H.kind(fo_) != "For":
                continue
            ops_ = [n_ for n_ in H.walk(fo_["body"]) if H.kind(n_) == "MethodCall" and n_["name"] == "op"]
            pre_ = [n_ for n_ in ops_ if any(k_ == "prefix" and r_ == "negation" for k_, r_ in c10.op_chain(n_["args"][0]))]
            inf_ = [n_ for n_ in ops_ if n_ not in pre_]
            if pre_ and inf_ and min(x_["sp"][4] for x_ in pre_) < max(x_["sp"][4] for x_ in inf_):
                inloop.append(H.loc(pre_[0]))
        if inloop:
            v12, d12 = False, "prefix minus is registered inside the loop over the infix groups, ahead of an infix registration (%s): the groups registered after it bind tighter than prefix minus, `-2 ^ x` re-reads as -(2 ^ x)" % inloop[0]
        elif early:
            v12, d12 = False, "prefix minus is registered before an infix group (%s): `-2 ^ x` re-reads as -(2 ^ x)" % early[0]
        elif okb and pre_idx:
            v12, d12 = True, "prefix minus is registered after every infix group (position %d of the registrations that follow the infix loop)" % pre_idx[0]
        else:
            v12, d12 = None, "registration order not read: %s" % ("; ".join(whyb) or "no prefix registration found")
        ctx.inst("C05.R12", "prefix-minus-binds-tightest", v12, d12, "blots-core/src/precedence.rs")
    except CheckerError as ex_:
        ctx.inst("C05.R12", "prefix-minus-binds-tightest", None, "not decided: %s" % ex_, None)
    # L8: the reserved function-object key
    ctx.rule("C05.L8", "the function-object key probed by from_json and inserted by to_json is one literal", floor=3)

    keys = []
    for fn in ("blots_core::values::SerializableValue::from_json", "blots_core::values::SerializableValue::to_json"):
        for v_ in H.str_lits(core.hir_fn(fn)["body"], core):
            if v_.startswith("__"):
                keys.append((H.last(fn), v_, H.loc(core.hir_fn(fn)["body"])))
    vals = {k for _, k, _ in keys}
    for i, (fn, k, loc) in enumerate(keys):
        ctx.inst("C05.L8", "%s#key[%d]" % (fn, i), len(vals) == 1 and k == "__blots_function", "literal %r" % k, loc)
