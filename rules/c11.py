"""C11 — scalar operator semantics and the broadcasting law (DESIGN §4 C11): the three hand-written copies of
each broadcasting operator (list-list, list-scalar in both orientations, scalar) compute one operation."""
from lib import hir as H
from lib import sig as S
from lib import binop as B
from lib.facts import CheckerError

NEED = ("dev",)
L, R = B.L, B.R
DOT = ["DotEqual", "DotNotEqual", "DotLess", "DotLessEq", "DotGreater", "DotGreaterEq"]
CALLBACK = ["Via", "Into", "Where"]

# the scalar operation the statement gives for each operator (oracle), in signature form
def _num(op):
    return ("ctor", "Number", ("bin", op, ("try", ("call", "as_number", L)), ("try", ("call", "as_number", R))))


def _cmp(*orders):
    return ("ctor", "Bool", ("try", ("fn", "check_ordering", ("try", ("call", "compare", L, R)), ("arr",) + tuple(("path", "core::cmp::Ordering::" + o) for o in orders),
                                     ("call", "get_type", L), ("call", "get_type", R))))


ORACLE = {
    "Subtract": [_num("Sub")], "Divide": [_num("Div")], "Modulo": [_num("Rem")],
    "Multiply": [("ctor", "Number", ("bin", "Mul") + tuple(sorted((("try", ("call", "as_number", L)), ("try", ("call", "as_number", R))), key=repr)))],
    "Power": [("ctor", "Number", ("call", "powf", ("try", ("call", "as_number", L)), ("try", ("call", "as_number", R))))],
    "Less": [_cmp("Less")], "LessEq": [_cmp("Less", "Equal")], "Greater": [_cmp("Greater")], "GreaterEq": [_cmp("Greater", "Equal")],
    "Equal": [("ctor", "Bool", ("try", ("call", "equals") + tuple(sorted((L, R), key=repr))))],
    "NotEqual": [("ctor", "Bool", ("un", "Not", ("try", ("call", "equals") + tuple(sorted((L, R), key=repr)))))],
    "And": [("ctor", "Bool", ("bin", "And", ("try", ("call", "as_bool", L)), ("try", ("call", "as_bool", R))))],
    "Or": [("ctor", "Bool", ("bin", "Or", ("try", ("call", "as_bool", L)), ("try", ("call", "as_bool", R))))],
    "Coalesce": [("if", ("bin", "Eq", L, ("path", "blots_core::values::Value::Null")), R, L)],
}
ORACLE["NaturalAnd"] = ORACLE["And"]
ORACLE["NaturalOr"] = ORACLE["Or"]


def values_of(leaves):
    """flatten leaves into the set of value terms a copy can produce (dispatch on operand types flattened away)"""
    out = []

    def flat(t):
        if not isinstance(t, tuple) or not t:
            return
        if t[0] == "match":
            for pat, body in t[2]:
                flat(body)
            return
        if t[0] in ("unit",) or (t[0] == "ret"):
            return
        if t[0] == "ctor" and t[1] == "Err":
            return
        out.append(t)

    def leaf(x):
        if x[0] in ("push", "return", "value"):
            flat(x[1])
        elif x[0] in ("when", "unless"):
            leaf(x[2])

    for x in leaves:
        leaf(x)
    return out


def unhoist(t):
    """a loop-invariant value computed before the loop is the same value; a fallible one (contains `?`) is not"""
    if not isinstance(t, tuple):
        return t
    if t and t[0] == "hoisted":
        inner = unhoist(t[1])
        if S.contains_head(inner, "try"):
            return ("hoisted-fallible", inner)
        return inner
    return tuple(unhoist(x) for x in t)


def is_result_wrapper(t):
    """`heap.insert_list(mapped_list)` and similar: the container the element results are put in"""
    return isinstance(t, tuple) and t and t[0] == "call" and t[1] == "insert_list"


def run(ctx):
    core = ctx.core
    S.TEMPLATES = lambda n: ";".join(H.template_text(t) for t in H.macro_templates(core, n)) or None
    S.INLINE = S.default_inline(core)
    C = B.Copies(core)
    ctx.not_decided += ["IEEE semantics of each primitive", "that operands are evaluated eagerly before the operator (both always are)"]
    variants = C.variants
    broadcasting = [v for v in variants if v not in DOT and v not in CALLBACK]
    ctx.units["broadcasting_operators"] = broadcasting

    def copy_leaves(copy, op, lf=None):
        arm = {"ll": C.arm_ll, "ls": C.arm_ls, "ss": C.arm_ss}[copy]
        env = C.base_env(copy, lf)
        env.op = (C.opname, op)
        flag = C.prelude(arm, env)
        if flag is not None and lf is not None:
            env.flags[flag[0]] = lf if flag[1] == C.lhs else (not lf)
        m = C.inner_op_match(arm["body"]) if copy != "ss" else H.final_expr(arm["body"])
        if H.kind(m) != "Match":
            raise CheckerError("copy %s has no match on the operator" % copy)
        a = C.op_arm(m, op)
        if a is None:
            return None, None, flag
        out = []
        B.leaves(a["body"], env, out, op, C.opname)
        return out, a, flag

    # ---------------- R5 the 17
    ctx.rule("C11.R5", "the operators that reach the broadcasting copies are exactly BinaryOp minus the six dot operators minus via/into/where, and every copy has a value-producing arm for each", floor=17)
    ctx.inst("C11.R5", "count", len(broadcasting) == 17, "%d broadcasting operators: %s" % (len(broadcasting), broadcasting), None)

    # ---------------- R1 / R2 three copies, one operation; operand order
    ctx.rule("C11.R1", "for each broadcasting operator the element operation of the list-list copy, of the list-scalar copy (list first and scalar first) and of the scalar copy is the operation the statement gives, with operands in order (element, other) resp. (other, element)", floor=60)
    for op in broadcasting:
        want = ORACLE.get(op)
        ss_leaves, ss_arm, _ = copy_leaves("ss", op)
        ss_vals = [unhoist(v) for v in values_of(ss_leaves or [])]

        def split_if(vs):
            # `+` dispatches on the operand type: `if a.is_string() { concat } else { add }` written as one expression is the two values
            out_ = []
            for v_ in vs:
                if op == "Add" and isinstance(v_, tuple) and v_ and v_[0] == "if" and len(v_) >= 4 and S.contains_call(v_[1], "is_string"):
                    out_ += [v_[2], v_[3]]
                else:
                    out_.append(v_)
            return out_
        ss_vals = split_if(ss_vals)
        loc = H.loc(ss_arm["body"]) if ss_arm else None
        if op == "Add":
            # two operations by operand type: concatenation and number addition; the scalar copy is the reference
            want = sorted(ss_vals, key=repr)
            ok = len(ss_vals) == 2 and any(S.contains_head(v, "macro") for v in ss_vals) and any(v == ("ctor", "Number", ("bin", "Add", ("try", ("call", "as_number", L)), ("try", ("call", "as_number", R)))) for v in ss_vals)
            fm = [v for v in ss_vals if S.contains_head(v, "macro")]
            ok = ok and fm and S.find_head(fm[0], "macro")[2] == "{}{}" and S.find_head(fm[0], "macro")[3] == (("try", ("call", "as_string", L)), ("try", ("call", "as_string", R)))
            ctx.inst("C11.R1", "%s#scalar" % op, bool(ok), "scalar copy: %s" % [S.show(v) for v in ss_vals], loc)
        else:
            ok = want is not None and sorted(ss_vals, key=repr) == sorted(want, key=repr)
            if not ok and (not ss_vals or any(S.has_unknown(v) for v in ss_vals)):
                ok = None
            ctx.inst("C11.R1", "%s#scalar" % op, ok, "scalar copy computes %s; the statement gives %s" % ([S.show(v) for v in ss_vals], [S.show(v) for v in want or []]), loc)
        ref = sorted(want, key=repr) if want else []
        for copy, lf, label, mapping in (
                ("ll", None, "list-list", {("elem", "L"): L, ("elem", "R"): R}),
                ("ls", True, "list-scalar", {("elem", "E"): L, ("role", "O"): R}),
                ("ls", False, "scalar-list", {("elem", "E"): R, ("role", "O"): L})):
            lv, arm, flag = copy_leaves(copy, op, lf)
            if lv is None:
                ctx.inst("C11.R5", "%s#%s" % (op, label), False, "no arm for %s in the %s copy" % (op, label), None)
                continue
            vals = split_if([unhoist(S.subst(v, mapping)) for v in values_of(lv) if not is_result_wrapper(v)])
            # commutative / symmetric forms were sorted before substitution: re-normalise
            vals = [S.resort(v) for v in vals]
            refn = [S.resort(v) for v in ref]
            ctx.inst("C11.R5", "%s#%s" % (op, label), True if vals else None, "value-producing arm present: %s%s" % (bool(vals), "" if vals else " (no value recognised: the arm's loop may be written as an iterator chain or delegated - not modelled)"), H.loc(arm["body"]))
            # a value whose operands could not be tied to the element variables (the whole list handed to a helper closure) or no value at
            # all: the copy was restructured beyond what is modelled
            unknown = any(S.has_unknown(v) for v in vals) or not vals or any(S.contains_head(v, "wholelist") for v in vals)
            same = sorted(set(map(repr, vals))) == sorted(set(map(repr, refn)))
            ctx.inst("C11.R1", "%s#%s" % (op, label), True if same else (None if unknown else False),
                     "%s copy computes %s; reference %s" % (label, [S.show(v) for v in vals], [S.show(v) for v in refn]), H.loc(arm["body"]))
            # whatever the shape of the arm: an adapter that can drop elements, and a fallible conversion of the scalar operand made once
            # in front of the element walk (it then fails - or is skipped - for the empty list, where no element operation runs)
            droppers = sorted({x["name"] for x in H.walk(arm["body"]) if H.kind(x) == "MethodCall" and x["name"] in ("flat_map", "filter_map", "flatten", "map_while", "take_while", "skip_while", "skip", "step_by", "take")
                               and "Value" in (x.get("ty") or x.get("recv_ty") or "")})
            if droppers:
                ctx.inst("C11.R1", "%s#%s#every-element" % (op, label), False, "the element walk goes through %s: elements (a failing element operation is an `Err` item) can be dropped from the result" % droppers, H.loc(arm["body"]))
            if copy == "ls":
                envb = C.base_env(copy, lf)
                scal = {n_ for n_, r_ in envb.roles.items() if r_ == ("role", "O")}
                blk_ = H.strip(arm["body"])
                hoisted = []
                if H.kind(blk_) == "Block":
                    for st_ in blk_["stmts"]:
                        if st_.get("k") == "Let" and st_.get("init") is not None:
                            for y in H.walk(st_["init"]):
                                if H.kind(y) in ("For", "Closure", "Loop", "While"):
                                    break
                                if H.kind(y) == "Try" and H.kind(H.strip(y["e"])) == "MethodCall" and H.strip(y["e"])["name"].startswith("as_") and H.path_local(H.strip(H.strip(y["e"])["recv"])) in scal:
                                    hoisted.append(H.loc(y))
                if hoisted:
                    ctx.inst("C11.R1", "%s#%s#scalar-converted-per-element" % (op, label), False, "the scalar operand is converted once in front of the element walk (%s): for an empty list the conversion's error is raised although no element operation runs" % hoisted[0], H.loc(arm["body"]))
            # every element is visited once, in order: one loop over zip(L, R) / the list / 0..len
            loops = [x for x in lv if x[0] == "loop-over"]
            okl = (all(loop_ok(x[1], copy) for x in loops)) if loops else None
            ctx.inst("C11.R1", "%s#%s#iteration" % (op, label), okl, "iterates %s" % [S.show(x[1]) for x in loops], H.loc(arm["body"]))

    # ---------------- R3 dot operators return before any list inspection
    ctx.rule("C11.R3", "each dot-prefixed comparison returns from the pre-match on the operator, before the operands are inspected for lists, with the comparison the statement gives", floor=6)
    dm = C.dot_match
    if dm is None:
        raise CheckerError("no pre-match on the operator before the (lhs, rhs) match")
    dot_oracle = {"DotEqual": ORACLE["Equal"][0], "DotNotEqual": ORACLE["NotEqual"][0], "DotLess": ORACLE["Less"][0], "DotLessEq": ORACLE["LessEq"][0],
                  "DotGreater": ORACLE["Greater"][0], "DotGreaterEq": ORACLE["GreaterEq"][0]}
    for op in DOT:
        a = C.op_arm(dm, op)
        env = S.Env(roles={C.lhs: L, C.rhs: R})
        env.op = (C.opname, op)
        out = []
        if a is not None and H.kind(a["pat"]) != "Wild":
            B.leaves(a["body"], env, out, op, C.opname)
        def unwrap(t_):
            # `return Ok(v)` written through a helper that builds the Ok: the value is what counts
            while isinstance(t_, tuple) and len(t_) == 2 and t_[0] in ("resultval", "ok"):
                t_ = t_[1]
            return t_
        rets = [S.resort(unwrap(x[1])) for x in out if x[0] == "return"]
        falls = [x for x in out if x[0] == "value" and x[1] != ("unit",)]
        ok = rets == [S.resort(dot_oracle[op])] and not falls
        if not ok and (not rets or any(S.has_unknown(r_) for r_ in rets)):
            ok = None
        ctx.inst("C11.R3", op, ok, "pre-match arm returns %s" % [S.show(r) for r in rets], H.loc(a["body"]) if a else None)
    # and the broadcasting copies do not handle them (unreachable! / absent)
    # ---------------- R4 length check first
    ctx.rule("C11.R6", "the scalar primitives behind == != < <= > >= are the IEEE / std ones: Value::equals uses `==` and Value::compare uses partial_cmp on numbers, booleans and strings (so -0 == 0, NaN is unordered, strings compare by code point)", floor=6)
    from rules import c12
    S_T, S_I = S.TEMPLATES, S.INLINE
    c12.scalar_primitives(ctx, "C11.R6", core)
    c12.structural_equality(ctx, "C11.R6", core)
    S.TEMPLATES, S.INLINE = S_T, S_I
    # ---- R11 what an operand is taken as, and no answer from heap identity
    ctx.rule("C11.R11", "an operand counts as a number / boolean / string only if it is one: Value::as_number, as_bool and as_string answer Ok for their own kind alone (null read as false makes `[true, null] && true` a list instead of an error); and no comparison is answered from heap identity (a same-cell shortcut in equals makes `x .== x` true where an equal copy is not - NaN)", floor=4)
    WANT = {"as_number": {"Number"}, "as_bool": {"Bool"}, "as_string": {"String"}, "as_list": {"List"}, "as_record": {"Record"}}
    for g_, want_ in sorted(WANT.items()):
        hg = core.hir.get("blots_core::values::Value::" + g_)
        if hg is None or hg.get("body") is None:
            ctx.inst("C11.R11", "Value::%s" % g_, None, "guard not found", None)
            continue
        ok_vars, unk_ = set(), False
        for m_ in H.matches_on(hg["body"], "values::Value"):
            for a_ in m_["arms"]:
                b_ = S.norm(a_["body"], S.Env())
                is_err = S.contains(b_, "Err") or S.contains_head(b_, "macro") and not S.contains(b_, "Ok")
                gives_ok = (isinstance(b_, tuple) and b_ and b_[0] == "ctor" and b_[1] == "Ok") or S.contains_call(b_, "as_" + g_.split("_", 1)[1]) or (not is_err)
                vs_ = {H.last(v) for v in H.pat_variants(a_["pat"])}
                if not vs_ and gives_ok and not is_err:
                    unk_ = True   # a catch-all that answers Ok
                if gives_ok and not is_err:
                    ok_vars |= vs_
        extra = sorted(ok_vars - want_)
        ctx.inst("C11.R11", "Value::%s" % g_, False if (extra or unk_) else (True if ok_vars else None), "answers Ok for %s%s" % (sorted(ok_vars) or "?", "" if not (extra or unk_) else ": also for %s" % (extra or "every other kind")), H.loc(hg["body"]))
    from rules import c02 as c02_
    from lib import mir as M_
    crs_ = [core, ctx.cli, ctx.wasm]
    cg_ = M_.CallGraph(crs_)
    local_ = sorted(n_ for n_ in cg_.reachable_from(c02_.EVAL_ROOTS) if n_ in cg_.fns)
    c02_.run_identity(ctx, cg_, local_, crs_, rid="C11.R12", doc="equality and ordering of operands are answered from the values, never from heap identity: no evaluator-reachable code compares Values or heap pointers by their derived PartialEq/PartialOrd, except equality against the constant null")
    ctx.rule("C11.R7", "prefix minus is the IEEE negation of the operand (never `0 - x`), not / ! negate the operand's boolean", floor=3)
    unary_rule(ctx, "C11.R7", core)
    # the ordering the comparison operators follow on lists (and fail with): element by element through compare itself
    ctx.rule("C11.R8", "comparisons follow the value ordering on lists too: Value::compare walks both lists with compare on each pair, returns the first non-Equal answer (including 'not comparable') and breaks ties by length", floor=2)
    from rules import c12 as c12_
    c12_.list_compare_rule(ctx, "C11.R8", core)
    # "fails exactly when some element operation fails", as the user sees it: the failure of a statement - an `output` declaration
    # included - ends the run with an error
    ctx.rule("C11.R10", "a dot-prefixed comparison written directly after a number keeps its dot: a number literal never ends in a bare `.` (so `5.==[5,6]` is the non-broadcasting `.==`, not `5. == [5,6]`)", floor=1)
    from rules import c10 as c10_
    from lib.peg import Grammar as G_
    c10_.dot_needs_digit(ctx, "C11.R10", G_(ctx.grammar))
    ctx.rule("C11.R9", "an operator failure is a program failure: in the CLI's statement loop every Err of the evaluation (plain statements and `output` declarations alike) reaches the non-zero exit, none is dropped on the way", floor=2)
    from rules import c19 as c19_
    c19_.evaluation_errors_are_fatal(ctx, "C11.R9", ctx.cli)
    ctx.rule("C11.R4", "in the list-list copy the `len() != len()` test with error exit is the first thing that happens: no value is produced and no element is read before it", floor=1)
    blk = H.strip(C.arm_ll["body"])
    ok, why = False, "list-list arm is not a block"
    if H.kind(blk) == "Block" and blk["stmts"]:
        first = blk["stmts"][0]
        cands = [n for n in H.walk(first) if H.kind(n) == "If" and H.kind(H.strip(n["cond"])) == "Binary" and H.strip(n["cond"])["op"] == "Ne"]
        good = None
        for n in cands:
            c = H.strip(n["cond"])
            env = C.base_env("ll")
            # lets inside the first statement's block
            init = first.get("init") or first.get("e")
            e2 = env.child()
            b0 = H.strip(init) if init is not None else None
            if H.kind(b0) == "Block":
                for s in b0["stmts"]:
                    if s["k"] == "Let" and H.kind(s["pat"]) == "Bind" and s.get("init") is not None:
                        e2.inline[s["pat"]["name"]] = (s["init"], e2.child())
            l_, r_ = S.norm(c["l"], e2), S.norm(c["r"], e2)
            if {l_, r_} == {("call", "len", ("list", "L")), ("call", "len", ("list", "R"))} and any(H.kind(x) == "Ret" for x in H.walk(n["then"])):
                good = n
        if good is None:
            why = "first statement of the list-list arm does not test len(left) != len(right) with an error exit"
        else:
            early = [x for x in H.walk(first) if H.kind(x) == "Ret" and x["sp"][3] < good["sp"][3]]
            pushes = [x for x in H.walk(first) if H.kind(x) == "MethodCall" and x["name"] in ("push", "insert_list")]
            ok = not early and not pushes
            why = "length test at %s; returns before it: %d; values produced in the same statement: %d" % (H.loc(good), len(early), len(pushes))
    ctx.inst("C11.R4", "list-list#length-check-first", ok, why, H.loc(C.arm_ll["body"]))
    no_answer_before_dispatch(ctx, "C11.R4", C)
    both_operands_first(ctx, "C11.R4", core)
    # nothing may divert list-list operands before that arm: earlier arms of the (lhs, rhs) match must be guarded on the operator being non-broadcasting
    for g in C.guard_arms:
        gt = S.norm(g["guard"], S.Env())
        okg = gt[0] == "bin" and gt[1] == "Eq" and any(isinstance(x, tuple) and x[0] == "path" and H.last(x[1] or "") in CALLBACK for x in gt[2:])
        ctx.inst("C11.R4", "guarded-arm@%s" % H.loc(g["pat"]).split(":")[-1] if False else "guarded-arm[%d]" % C.guard_arms.index(g), okg, "guard %s only diverts a callback operator" % S.show(gt), H.loc(g["pat"]))


def loop_ok(it, copy):
    if copy == "ll":
        return it == ("zip", "L", "R") or (it[0] == "struct" and it[1].endswith("ops::range::Range") and dict(it[2]).get("start") == ("lit", "0") and dict(it[2]).get("end") in (("call", "len", ("list", "L")), ("call", "len", ("list", "R"))))
    return it == ("list", "E") or (it[0] == "struct" and it[1].endswith("ops::range::Range") and dict(it[2]).get("start") == ("lit", "0") and dict(it[2]).get("end") == ("call", "len", ("list", "E")))


def unary_rule(ctx, rid, core):
    """prefix minus is the IEEE negation of the operand's number (so -0 keeps its sign, -x never goes through 0 - x), not / ! is the
    negation of its boolean (shared with C16: a negative literal is Negate(Number))"""
    EVAL_ = "blots_core::expressions::evaluate_ast"
    hev = core.hir_fn(EVAL_)
    mm = H.main_match(hev["body"], "ast::Expr")
    arms = [a for a in (mm["arms"] if mm else []) if any(H.last(v) == "UnaryOp" for v in H.pat_variants(a["pat"]))]
    if not arms:
        ctx.inst(rid, "UnaryOp", None, "no UnaryOp arm found in evaluate_ast", None)
        return
    want = {"Negate": ("ctor", "Number", ("un", "Neg", ("try", ("call", "as_number", ("operand",))))),
            "Not": ("ctor", "Bool", ("un", "Not", ("try", ("call", "as_bool", ("operand",))))),
            "Invert": ("ctor", "Bool", ("un", "Not", ("try", ("call", "as_bool", ("operand",)))))}
    seen = set()
    for a in arms:
        # operand = the evaluation of the `expr` field
        binds = {}
        for st in H.walk(a["pat"]):
            if H.kind(st) == "Struct":
                binds = {f["name"]: f["pat"] for f in st["fields"]}
        opnames = set()
        if "op" in binds:
            opnames = {H.last(v) for v in H.pat_variants(binds["op"])}
        env = S.Env()
        blk = H.strip(a["body"])
        # the let that evaluates the operand
        for n in H.walk(a["body"]):
            if H.kind(n) == "Let" and H.kind(n.get("pat")) == "Bind" and n.get("init") is not None and any(H.kind(x) == "Call" and x.get("def") == EVAL_ for x in H.walk(n["init"])):
                env.roles[n["pat"]["name"]] = ("operand",)
        inner = [m_ for m_ in H.walk(a["body"]) if H.kind(m_) == "Match" and m_["scrut"].get("ty", "").lstrip("&").endswith("ast::UnaryOp")]
        if inner:
            for aa in inner[0]["arms"]:
                for v in [H.last(x) for x in H.pat_variants(aa["pat"])]:
                    if v in want:
                        seen.add(v)
                        t = S.norm(aa["body"], env)
                        ctx.inst(rid, "UnaryOp::%s" % v, S.verdict(t, want[v]), "computes %s; the statement gives %s" % (S.show(t)[:160], S.show(want[v])), H.loc(aa["body"]))
        elif opnames & set(want):
            # an arm dedicated to one operator (`UnaryOp { op: Negate, .. } => ..`)
            t = S.norm(a["body"], env)
            for v in sorted(opnames & set(want)):
                seen.add(v)
                vd = S.verdict(t, want[v])
                if vd is None and S.contains_head(t, "fn") and any(x in S.show(t) for x in ("evaluate_binary_op_ast", "Subtract")):
                    vd = False  # negation rewritten as a subtraction from zero: 0 - 0 is +0, -(0) is -0
                ctx.inst(rid, "UnaryOp::%s" % v, vd, "computes %s; the statement gives %s" % (S.show(t)[:200], S.show(want[v])), H.loc(a["body"]))
    for v in sorted(set(want) - seen):
        ctx.inst(rid, "UnaryOp::%s" % v, None, "no arm for this operator was recognised", None)


def both_operands_first(ctx, rid, core):
    """an operator answers only after both operands were evaluated: the only exits between the evaluation of the left and of the
    right operand are the left operand's own error (`?`). A value returned there (`false and ..`, `x ?? ..` decided by the left side)
    is never broadcast over a list on the right, and an error on the right is never raised."""
    EV = "blots_core::expressions::evaluate_ast"
    f = core.hir_fn("blots_core::expressions::evaluate_binary_op_ast")
    body = H.strip(f["body"])
    if H.kind(body) != "Block":
        ctx.inst(rid, "operands#both-before-any-answer", None, "body is not a block", H.loc(f["body"]))
        return
    idx = [i for i, st in enumerate(body["stmts"]) if st.get("k") == "Let" and st.get("init") is not None and any(H.kind(x) == "Call" and x.get("def") == EV for x in H.walk(st["init"]))]
    if len(idx) < 2:
        ctx.inst(rid, "operands#both-before-any-answer", None, "the two operand evaluations are not two `let` statements of the function's block (%d found)" % len(idx), H.loc(f["body"]))
        return
    between = body["stmts"][idx[0] + 1:idx[1]]
    early = [H.loc(x) for st in between for x in H.walk(st) if H.kind(x) == "Ret" and x.get("e") is not None and not (lambda t_: t_[0] == "ctor" and t_[1] == "Err")(S.norm(x["e"], S.Env()))]
    # ... and the right operand's evaluation is not conditional
    cond_rhs = H.kind(H.strip(body["stmts"][idx[1]]["init"])) in ("If", "Match") and H.kind(H.strip(body["stmts"][idx[1]]["init"])) != "Try"
    ctx.inst(rid, "operands#both-before-any-answer", not early and not cond_rhs, "values returned between the evaluation of the left and of the right operand: %s; right operand evaluated conditionally: %s" % (early or "none", cond_rhs), H.loc(body["stmts"][idx[0]]))


def no_answer_before_dispatch(ctx, rid, C):
    # in the list-scalar copy nothing answers before the operator is dispatched (an "empty list" shortcut would answer for via / into / where too)
    try:
        inner_ls = C.inner_op_match(C.arm_ls["body"])
        pre_rets = []
        inner_ids = {id(x) for x in H.walk(inner_ls)}
        for x in H.walk(C.arm_ls["body"]):
            if H.kind(x) == "Ret" and id(x) not in inner_ids and x.get("e") is not None:
                t_ = S.norm(x["e"], S.Env())
                if not (t_[0] == "ctor" and t_[1] == "Err"):
                    pre_rets.append(H.loc(x))
        ctx.inst(rid, "list-scalar#no-answer-before-dispatch", not pre_rets, "values returned before the `match op` of the list-scalar copy: %s" % (pre_rets or "none"), H.loc(C.arm_ls["body"]))
    except CheckerError:
        ctx.inst(rid, "list-scalar#no-answer-before-dispatch", None, "no `match op` found in the list-scalar copy", None)
