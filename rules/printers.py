"""Printer / formatter lints shared by C05 (function outputs are portable), C07 (formatter preserves meaning) and
C09 (comments are never lost). A printer must invert the parser construct by construct; these rules decide that
for tokens, precedence levels, parenthesisation guards, string content, reserved words, comment fields and the
grammar gaps where comments or line breaks may sit. Each function takes the rule-id prefix of the calling property."""
import re
from lib import hir as H
from lib import mir as M
from lib import sig as S
from lib import scope
from lib.peg import Grammar
from lib.facts import CheckerError
from rules import c10

CORE = "blots_core::"
A2S = CORE + "ast_to_source::"
FMT = CORE + "formatter::"


def printer_fns(core):
    return {k: f for k, f in core.hir.items() if (k.startswith(A2S) or k.startswith(FMT)) and "::tests::" not in k and f.get("kind") in ("Fn", "AssocFn")}


def table_of(f, enum_suffix):
    """{variant: literal string} for a fn that is a match from enum variants to string literals"""
    out = {}
    for m in H.matches_on(f["body"], enum_suffix):
        for a in m["arms"]:
            l = H.lit(a["body"])
            if l is not None and l["lk"] == "str":
                for v in H.pat_variants(a["pat"]):
                    out.setdefault(H.last(v), set()).add(l["v"])
    return out


# ------------------------------------------------------------------ L1 operator tokens
def L1_tokens(ctx, rid, core, G):
    ctx.rule(rid, "every operator is printed with the token the grammar reads for it: binary (two tables), unary (two copies), postfix; a token no grammar rule accepts is a finding", floor=30)
    rows = c10.precedence_rows(core)
    rule_of = {r["binop"]: r["rule"] for r in rows}
    pf = printer_fns(core)
    n_tables = 0
    for name, f in sorted(pf.items()):
        t = table_of(f, "ast::BinaryOp")
        if len(t) >= 20:
            n_tables += 1
            for op in sorted(rule_of):
                lit = G.literal_of(rule_of[op])
                got = t.get(op, set())
                ctx.inst(rid, "%s[%s]" % (name.replace(CORE, ""), op), got == {lit}, "prints %s, grammar rule %s reads %r" % (sorted(got), rule_of[op], lit), H.loc(f["body"]))
    # every printer that emits a binary operator takes its token from one of these tables (one table shared by all printers is fine)
    ctx.inst(rid, "binary-token-tables", n_tables >= 1, "%d BinaryOp -> token table(s) found in the printers" % n_tables, None)
    # unary: what the builder maps each grammar prefix rule to
    builder = core.hir_fn(CORE + "expressions::pairs_to_expr_inner")["body"]
    c10.CRATE[0] = core
    mp = c10.rule_match(c10.closure_of(builder, "map_prefix"))
    produced = {}
    for a in mp["arms"]:
        st = [H.last(H.path_def(fld["e"]) or "") for n in H.walk(a["body"]) if H.kind(n) == "Struct" for fld in n["fields"] if fld["name"] == "op"]
        for v in H.pat_variants(a["pat"]):
            if st:
                produced.setdefault(st[0], set()).add(H.last(v))
    k = 0
    for name, f in sorted(pf.items()):
        t = table_of(f, "ast::UnaryOp")
        if not t:
            continue
        for var, toks in sorted(t.items()):
            rules_ = produced.get(var, set())
            accept = {G.literal_of(r) for r in rules_}
            if not rules_:
                ok, d = True, "UnaryOp::%s is printed as %s; the parser never produces this variant (dead for every source text), so the token cannot reach an output" % (var, sorted(toks))
            else:
                ok = all(tk.strip() in accept for tk in toks)
                d = "prints %s; grammar reads %s for it" % (sorted(toks), sorted(accept))
            ctx.inst(rid, "%s[UnaryOp::%s]" % (name.replace(CORE, ""), var), ok, d, H.loc(f["body"]))
            k += 1
    for name, f in sorted(pf.items()):
        t = table_of(f, "ast::PostfixOp")
        for var, toks in sorted(t.items()):
            lit = G.literal_of("factorial")
            ctx.inst(rid, "%s[PostfixOp::%s]" % (name.replace(CORE, ""), var), toks == {lit}, "prints %s; grammar reads %r" % (sorted(toks), lit), H.loc(f["body"]))


# ------------------------------------------------------------------ L3 precedence levels used by the printer
def L3_levels(ctx, rid, core, G):
    ctx.rule(rid, "the (precedence, associativity) pairs the printer's parenthesisation uses separate operators exactly as the parser's binding levels do; same-level right operands of left-associative parents are parenthesised for every operator of the level; needs_parens_in_binop is called with the operand's true side and tests the parent operator", floor=10)
    rows = c10.precedence_rows(core)
    ok_b, why, tail = c10.builder_shape(core)
    levels = c10.parser_levels(rows, tail)
    lvl_of = {}
    for i, (kind, assoc, ops) in enumerate(levels):
        if kind == "infix":
            for o in ops:
                lvl_of[o] = i
    by_prec = {}
    for r in rows:
        by_prec.setdefault(r["prec"], set()).add(lvl_of.get(r["binop"]))
    for prec, ls in sorted(by_prec.items()):
        ops = sorted(r["binop"] for r in rows if r["prec"] == prec)
        ctx.inst(rid, "printer-level=%d" % prec, len(ls) == 1,
                 "operators %s share the printer's precedence number %d; the parser puts them on %d level(s)%s" % (ops, prec, len(ls), "" if len(ls) == 1 else ": a child on the tighter level is printed without the parentheses it needs (a ?? (b ^ c) -> a ?? b ^ c)"), "blots-core/src/precedence.rs")
    # needs_parens_in_binop internals
    f = core.hir_fn(A2S + "needs_parens_in_binop")
    pn = [H.pat_binds(p)[0] for p in f["params"]]
    parent, child, is_left = pn[0], pn[1], pn[2]
    ms = [n for n in H.walk(f["body"]) if H.kind(n) == "Match" and n.get("src") == "match"]
    exc = None
    for n in H.walk(f["body"]):
        if H.kind(n) == "Match" and H.path_local(n["scrut"]) is not None and n["scrut"].get("ty", "").endswith("ast::BinaryOp"):
            vs = sorted({H.last(v) for a in n["arms"] for v in H.pat_variants(a["pat"])})
            if vs:
                exc = (H.path_local(n["scrut"]), vs, n)
    if exc is None:
        ctx.inst(rid, "same-level-right#exception-list", None, "no operator list found in needs_parens_in_binop", H.loc(f["body"]))
    else:
        who, listed, node = exc
        ctx.inst(rid, "same-level-right#tests-parent", who == parent, "the same-level exception list is matched against %r (must be the parent operator)" % who, H.loc(node))
        for i, (kind, assoc, ops) in enumerate(levels):
            if kind == "infix" and assoc == "Left" and len(ops) > 1:
                missing = sorted(set(ops) - set(listed))
                ctx.inst(rid, "same-level-right#level=%s" % "|".join(sorted(ops)), not missing,
                         "left-associative level %s: a same-level right operand must be parenthesised for every parent of the level; not listed: %s (a * (b %% c) -> a * b %% c re-associates)" % (sorted(ops), missing), H.loc(node))
    # lower-precedence test and right-assoc test present
    has_lower = False
    unresolved = False
    for n, e, g in scope.sites(f["body"], lambda n: H.kind(n) == "If", S.Env(roles={parent: ("parent",), child: ("child",), is_left: ("is_left",)})):
        c = S.norm(n["cond"], e)
        if c[0] == "bin" and c[1] in ("Lt", "Gt") and c[2][0] == "proj" and c[3][0] == "proj" and c[2][1] == 0 and c[3][1] == 0 and S.contains_head(c[2], "fn") and S.contains_head(c[3], "fn"):
            lo, hi = (c[2], c[3]) if c[1] == "Lt" else (c[3], c[2])
            lhs_child = S.contains(lo, ("child",)) and not S.contains(lo, ("parent",))
            rhs_parent = S.contains(hi, ("parent",)) and not S.contains(hi, ("child",))
            rets = [x for x in H.walk(n["then"]) if H.kind(x) == "Ret" and H.lit(x["e"]) and H.lit(x["e"])["v"] == "true"]
            if lhs_child and rhs_parent and rets:
                has_lower = True
            elif S.contains_head(c, "var") or S.has_unknown(c):
                unresolved = True
    if not has_lower and not unresolved:
        # the comparison may be written another way (`child.cmp(&parent)` + a match on the Ordering, a helper): not the form modelled.
        # Positively wrong is only a function that never compares two precedences at all.
        if any((H.kind(x) == "MethodCall" and x["name"] in ("cmp", "partial_cmp", "lt", "gt", "le", "ge", "max", "min")) or (H.kind(x) == "Binary" and x["op"] in ("Lt", "Gt", "Le", "Ge")) for x in H.walk(f["body"])):
            unresolved = True
    ctx.inst(rid, "lower-precedence-child", True if has_lower else (None if unresolved else False),
             "child_prec < parent_prec -> parentheses: %s%s" % (has_lower, " (a precedence comparison exists but its operands could not be attributed to parent / child)" if unresolved and not has_lower else ""), H.loc(f["body"]))
    # call sites: (op, left, true) / (op, right, false)
    pf = printer_fns(core)
    k = 0
    for name, fn in sorted(pf.items()):
        for n in H.walk(fn["body"]):
            if H.kind(n) == "Call" and n.get("def") == A2S + "needs_parens_in_binop":
                side = H.path_local(n["args"][1])
                flag = H.lit(n["args"][2])
                ok = flag is not None and ((side == "left" and flag["v"] == "true") or (side == "right" and flag["v"] == "false"))
                ctx.inst(rid, "%s#needs_parens(%s)" % (name.replace(CORE, ""), side), ok, "needs_parens_in_binop(op, %s, %s)" % (side, flag["v"] if flag else "?"), H.loc(n))
                k += 1


# ------------------------------------------------------------------ L4 string content, L5 non-finite numbers
def string_atomic(ctx, rid, G):
    """the content of a string literal is taken verbatim: `string` and `string_value` are atomic, in every context (a non-atomic
    `string` lets pest skip implicit whitespace after the opening quote wherever the enclosing rule is not atomic, e.g. record keys)"""
    if "string_value" in G.rules:
        # what a literal cannot contain: the look-aheads in front of the consumed character. The printers write string content as
        # it is, so anything excluded besides the closing delimiter (PEEK) is a character no printed string may contain
        sv = G.expr("string_value")
        negs = []
        for x in G.walk(sv):
            if x["k"] in ("neg", "neg_pred"):
                for a in G.alts(x["e"]):
                    negs.append(a.get("v") if a["k"] in ("ident", "str") else a["k"])
        consumed = [x["v"] for x in G.walk(sv) if x["k"] == "ident" and x["v"] not in ("PEEK",)]
        extra = sorted(set(str(n) for n in negs) - {"PEEK"})
        ok_ = (not extra) if negs else None
        if consumed != ["ANY"] and ok_:
            ok_ = None
        ctx.inst(rid, "grammar#string-excludes-only-its-delimiter", ok_, "inside a string literal the grammar refuses %s before each character (consumed: %s); besides the closing quote: %s" % (negs, consumed, extra or "nothing"), "blots-core/src/grammar.pest")
    for r in ("string", "string_value"):
        if r in G.rules:
            ctx.inst(rid, "grammar#%s-atomic" % r, G.ty(r) in ("atomic", "compound"), "rule %s is %s (must be @ or $: no implicit whitespace inside a string literal)" % (r, G.ty(r)), "blots-core/src/grammar.pest")


def L4_strings(ctx, rid, core, G):
    ctx.rule(rid, "the grammar's string rule has no escape sequences and the AST builder takes the text verbatim, so a printer may not rewrite string content (replace / escape) before emitting it, and must choose a delimiter the content does not contain", floor=3)
    sv = G.expr("string_value")
    has_escape = any(x["k"] == "str" and "\\" in x["v"] for x in G.walk(sv))
    ctx.inst(rid, "grammar#string-has-no-escapes", not has_escape, "string_value = (!PEEK ~ ANY)*: no escape alternative: %s" % (not has_escape), "blots-core/src/grammar.pest")
    string_atomic(ctx, rid, G)
    # the content of a string literal ends at its closing quote and nowhere else: the printers put any text between double quotes, so a
    # content rule that also stops at a line break (or anything but the quote) rejects what they emit for a multi-line string
    try:
        stops = []
        seen_ = set()

        def content_negs(e, depth=0):
            for x in G.walk(e):
                if x["k"] == "neg":
                    stops.append(x["e"])
                if x["k"] == "ident" and x["v"] in G.rules and x["v"] not in seen_ and depth < 4 and x["v"] not in ("plain_newline", "NEWLINE", "WHITESPACE"):
                    seen_.add(x["v"])
                    content_negs(G.expr(x["v"]), depth + 1)
        content_negs(G.expr("string"))
        extra = []
        for st_ in stops:
            for y in G.walk(st_):
                if y["k"] == "ident" and y["v"] not in ("PEEK", "POP", "PUSH") or (y["k"] == "str" and y["v"] not in ("\"", "'")):
                    extra.append(y.get("v"))
        ctx.inst(rid, "grammar#string-content-ends-at-the-quote-only", not extra, "besides the closing quote a string's content also stops at: %s" % (sorted(set(map(str, extra))) or "nothing"), "blots-core/src/grammar.pest")
    except CheckerError as ex_:
        ctx.inst(rid, "grammar#string-content-ends-at-the-quote-only", None, "not read: %s" % ex_, "blots-core/src/grammar.pest")
    L4_debug_strings(ctx, rid, core)
    pf = printer_fns(core)
    helper_counts = {}
    for name, f in sorted(pf.items()):
        k = 0
        def is_rewrite(n):
            if not (H.kind(n) == "MethodCall" and n["name"] in ("replace", "replacen", "escape_default", "escape_debug") and "str" in (n.get("def") or "")):
                return False
            r = H.strip(n["recv"])
            return not (H.kind(r) == "MethodCall" and r["name"] in ("replace", "replacen"))  # one report per chain
        for n, e, g in scope.sites(f["body"], is_rewrite, S.Env()):
            # only the outermost call of a chain
            lab = None
            for gg in g:
                if gg[0] == "arm":
                    vs = [H.last(v) for v in H.pat_variants(gg[1]["pat"])]
                    if vs:
                        lab = "|".join(vs)
            lits = [H.lit(a)["v"] for a in n["args"] if H.lit(a)]
            why = "string content is rewritten (%s %s) before being emitted between quotes; the parser reads the characters verbatim, so 'say \"hi\"' comes back as 'say \\\"hi\\\"' or does not parse" % (n["name"], lits)
            owners = []
            if lab is None:
                # a quoting helper without a match of its own: the finding belongs to the printer arms that call it (one level)
                for cname, cf in sorted(pf.items()):
                    if cname == name:
                        continue
                    for cn, ce, cg_ in scope.sites(cf["body"], lambda x: H.kind(x) == "Call" and x.get("def") == name, S.Env()):
                        clab = None
                        for gg in cg_:
                            if gg[0] == "arm":
                                vs = [H.last(v) for v in H.pat_variants(gg[1]["pat"])]
                                if vs:
                                    clab = "|".join(vs)
                        if clab is not None and clab in ("String", "Static", "Dynamic", "Shorthand"):
                            owners.append((cname, clab))
            if owners and any(l_ == "String" for _, l_ in owners):
                for cname, clab in sorted(set(owners)):
                    kk = helper_counts.get((cname, clab), 0)
                    helper_counts[(cname, clab)] = kk + 1
                    ctx.inst(rid, "%s[%s]#%s%d" % (cname.replace(CORE, ""), clab, n["name"], kk), False, why + " (through %s)" % name.replace(CORE, ""), H.loc(n))
            else:
                ctx.inst(rid, "%s[%s]#%s%d" % (name.replace(CORE, ""), lab or "-", n["name"], k), False, why, H.loc(n))
                k += 1


def L4_debug_strings(ctx, rid, core):
    """Debug formatting of text escapes what the grammar reads verbatim"""
    pf = printer_fns(core)
    n = 0
    for name, f in sorted(pf.items()):
        k = 0
        for x in H.walk(f["body"]):
            if H.kind(x) == "Macro" and x.get("name") in ("format", "write", "writeln", "format_args"):
                for pc, node in H.placeholder_args(core, x):
                    if pc.get("trait") == "Debug" and node is not None and re.search(r"(^|[&\s])(alloc::string::String|str)$", (H.strip(node).get("ty") or "").replace("&mut ", "&")):
                        n += 1
                        ctx.inst(rid, "%s#debug-formatted-text%d" % (name.replace(CORE, ""), k), False, "text is emitted with `{:?}`: Debug writes line breaks, tabs and other characters as escapes (\\n, \\t, \\u{..}) that the grammar has no reading for - the re-read string holds a backslash and a letter", H.loc(x))
                        k += 1
    ctx.inst(rid, "debug-formatted-text#none", n == 0, "texts emitted through Debug formatting in the printers: %d" % n, None)


def L5_nonfinite(ctx, rid, core):
    ctx.rule(rid, "each number-to-source site tests for NaN / non-finite values before falling back to to_string() (NaN prints as an unbound identifier)", floor=3)
    pf = printer_fns(core)
    for name, f in sorted(pf.items()):
        for n in H.walk(f["body"]):
            if H.kind(n) == "Match" and n.get("src") == "match":
                for a in n["arms"]:
                    vs = H.pat_variants(a["pat"])
                    if any(H.last(v) == "Number" for v in vs) and any(b.get("ty", "").lstrip("&") == "f64" for b in H.walk(a["pat"]) if H.kind(b) == "Bind"):
                        tests = [x["name"] for x in H.walk(a["body"]) if H.kind(x) == "MethodCall" and x["name"] in ("is_nan", "is_finite", "is_infinite")]
                        owner = sorted({v.split("::")[-2] for v in vs})[0]
                        ctx.inst(rid, "%s[%s::Number]" % (name.replace(CORE, ""), owner), bool(tests),
                                 "non-finite test before printing: %s (NaN is emitted as `NaN`, which re-parses as an unknown identifier)" % (tests or "none"), H.loc(a["body"]))


# ------------------------------------------------------------------ L6 reserved words, L7 built-in names
def L6_reserved(ctx, rid, core, G):
    ctx.rule(rid, "the printer's reserved-word table (bare vs quoted record keys) equals the grammar's reserved_word literals", floor=1)
    st = core.statics.get(A2S + "RESERVED_WORDS")
    if st is None:
        raise CheckerError("RESERVED_WORDS missing")
    words = sorted(x["v"] for x in H.walk(st["body"]) if H.kind(x) == "Lit" and x["lk"] == "str")
    gw = sorted(G.literals(G.expr("reserved_word")))
    ctx.inst(rid, "RESERVED_WORDS", words == gw, "printer: %s; grammar: %s" % (words, gw), H.loc(st))
    # is_valid_identifier agrees with the grammar's identifier character classes
    f = core.hir_fn(A2S + "is_valid_identifier")
    bodies, seen_f = [f["body"]], {A2S + "is_valid_identifier"}
    for _ in range(2):
        for b_ in list(bodies):
            for n in H.walk(b_):
                d_ = n.get("def") if H.kind(n) == "Call" else ((n.get("res") or {}).get("def") if H.kind(n) == "Path" and (n.get("res") or {}).get("dk") == "Fn" else None)
                if d_ and d_.startswith(A2S) and d_ not in seen_f and d_ in core.hir and core.hir[d_].get("body") is not None:
                    seen_f.add(d_)
                    bodies.append(core.hir[d_]["body"])
    tests = sorted({n["name"] for b_ in bodies for n in H.walk(b_) if H.kind(n) == "MethodCall" and (n["name"].startswith("is_ascii") or n["name"] in ("is_alphabetic", "is_alphanumeric", "is_numeric", "is_lowercase", "is_uppercase"))})
    calls = [t for t in tests if t.startswith("is_ascii")]
    wider = [t for t in tests if not t.startswith("is_ascii")]
    v_cls = True if (calls == ["is_ascii_alphabetic", "is_ascii_alphanumeric"] and not wider) else (False if wider else None)
    ctx.inst(rid, "is_valid_identifier#classes", v_cls, "character tests %s (grammar: (ASCII_ALPHA | _)+ ~ (ASCII_ALPHA+ | ASCII_DIGIT+ | _+)*)" % calls, H.loc(f["body"]))


def L7_builtins(ctx, rid, core):
    ctx.rule(rid, "built-in functions are emitted by name() and reloaded by from_ident(): the two tables are inverse bijections over all variants and all() lists each variant once", floor=70)
    bi = core.types[CORE + "functions::BuiltInFunction"]
    variants = [v["name"] for v in bi["variants"]]
    name_t = table_of(core.hir_fn(CORE + "functions::BuiltInFunction::name"), "functions::BuiltInFunction")
    fi = core.hir_fn(CORE + "functions::BuiltInFunction::from_ident")
    from_t = {}
    for n in H.walk(fi["body"]):
        if H.kind(n) == "Match":
            for a in n["arms"]:
                lits = [x["v"] for x in H.walk(a["pat"]) if H.kind(x) == "Lit" and x["lk"] == "str"]
                tgt = [H.last(H.path_def(x) or "") for x in H.walk(a["body"]) if H.kind(x) == "Path" and (x["res"].get("def") or "").startswith(CORE + "functions::BuiltInFunction::")]
                for l in lits:
                    if tgt:
                        from_t[l] = tgt[0]
    allf = core.hir_fn(CORE + "functions::BuiltInFunction::all")
    # the list may be a literal vector in all() or a named constant table that all() copies
    bodies_ = [allf["body"]]
    for x in H.walk(allf["body"]):
        if H.kind(x) == "Path" and (x.get("res") or {}).get("dk") in ("Const", "Static", "AssocConst"):
            st_ = core.statics.get(x["res"].get("def"))
            if st_ is not None and st_.get("body") is not None:
                bodies_.append(st_["body"])
    listed = [H.last(x["res"]["def"]) for b_ in bodies_ for x in H.walk(b_) if H.kind(x) == "Path" and (x["res"].get("def") or "").startswith(CORE + "functions::BuiltInFunction::") and x["res"].get("dk") in ("Ctor", "Variant")]
    for v in variants:
        nm = sorted(name_t.get(v, []))
        ok = len(nm) == 1 and from_t.get(nm[0]) == v and listed.count(v) == 1
        if not ok and (not listed or not from_t or not name_t):
            ok = None   # a table was not read at all (restructured): nothing is known about this variant
        ctx.inst(rid, v, ok, "name() = %s, from_ident(%s) = %s, listed in all(): %d" % (nm, nm, from_t.get(nm[0]) if nm else None, listed.count(v)), None)
    extra = sorted(set(from_t.values()) - set(variants))
    dup = sorted(k for k in from_t if list(name_t.get(from_t[k], []))[:1] != [k])
    ctx.inst(rid, "from_ident#no-aliases", not dup, "identifiers that load a built-in whose name() is different: %s" % dup, None)


# ------------------------------------------------------------------ C05.R7 validate-then-emit, C05.R8 binder agreement
def R7_validate_then_emit(ctx, rid, cli):
    ctx.rule(rid, "every outputs.insert in the CLI (script mode and REPL) is reachable only through the Ok edge of validate_portable_value on that value", floor=4)
    from rules.c19 import result_switches
    for name, f in sorted(cli.mir.items()):
        fn = M.Fn(f, name)
        ins = [b for b in fn.call_blocks() if "IndexMap" in (fn.callee(b) or "") and (fn.callee(b) or "").endswith("::insert") and "SerializableValue" in fn.term(b)["argtys"][0]]
        if not ins:
            continue
        vals = fn.calls_to(CORE + "expressions::validate_portable_value")
        for k, b in enumerate(ins):
            ok, d = False, "no validate_portable_value call dominates this insert"
            for v in vals:
                if not fn.dominates(v, b):
                    continue
                sws = result_switches(fn, fn.term(v)["dest"]["l"])
                for sb, ok_t, err_t in sws:
                    if b in fn.reachable(ok_t) and b not in fn.reachable(err_t):
                        ok, d = True, "dominated by validate_portable_value at %s; unreachable from its Err edge" % fn.loc(v)
            ctx.inst(rid, "%s#outputs.insert[%d]" % (name.replace("blots::", ""), k), ok, d, fn.loc(b))


def R8_binders(ctx, rid, core):
    ctx.rule(rid, "every construct that binds names is a binder both for the capture analysis (collect_free_variables) and for the inliner (expr_to_source_with_scope), for all of its names; captured values are substituted exactly at the positions the evaluator reads (Identifier, record shorthand)", floor=4)
    cfv = core.hir_fn(CORE + "expressions::collect_free_variables")
    inl = core.hir_fn(A2S + "expr_to_source_with_scope")
    from rules.c04 import innermost_ast_arm
    def construct_arm(g):
        """the innermost arm over the node kind - except that a match on the kind of a do-block *statement* inside the do-block arm
        (`match &stmt.node { Assignment {..} => bound.insert(..) }`) does not make Assignment a binder of its own: the do-block is"""
        labs = []
        for gg in g:
            if gg[0] == "arm":
                vs = [v for v in H.pat_variants(gg[1]["pat"]) if "ast::Expr::" in v or "ast::RecordKey::" in v]
                if vs:
                    labs.append("|".join(sorted(v.replace(CORE + "ast::", "") for v in vs)))
        if not labs:
            return None
        if labs[-1] == "Expr::Assignment" and "Expr::DoBlock" in labs[:-1]:
            return "Expr::DoBlock"
        return labs[-1]
    b_cfv = set()
    for n, e, g in scope.sites(cfv["body"], lambda n: H.kind(n) == "MethodCall" and n["name"] in ("insert", "extend") and "HashSet" in n.get("recv_ty", ""), S.Env()):
        b_cfv.add(construct_arm(g))
    b_inl = {}
    # the inliner is whichever printer of the module narrows the captured scope (the function itself, or a method of a printer struct)
    inl_fns = [inl] + [core.hir_fn(nm_) for nm_ in sorted(printer_fns(core)) if nm_.startswith(A2S) and nm_ != A2S + "expr_to_source_with_scope"]
    for f_ in inl_fns:
        for n, e, g in scope.sites(f_["body"], lambda n: H.kind(n) == "MethodCall" and n["name"] in ("shift_remove", "swap_remove", "remove", "retain") and "IndexMap" in n.get("recv_ty", ""), S.Env()):
            lab = construct_arm(g)
            if lab is not None:
                b_inl.setdefault(lab, []).append((n, g))
    # a binder whose arm hands the recursive printer a scope of its own (built some other way than by removing names from a copy:
    # a filtered collect) is not known to leave the names in: only an arm that passes the very scope it received on is
    scope_params = {bn for p_, t_ in zip(inl.get("params", []), inl.get("inputs", [])) if "IndexMap<" in t_ and "SerializableValue" in t_ for bn in H.pat_binds(p_)}
    own_scope = set()
    for m_ in H.matches_on(inl["body"], "ast::Expr"):
        for a_ in m_["arms"]:
            vs_ = ["Expr::" + H.last(v) for v in H.pat_variants(a_["pat"])]
            calls_ = [x for x in H.walk(a_["body"]) if H.kind(x) == "Call" and (x.get("def") or "").startswith(A2S) and len(x.get("args", [])) >= 2]
            passed = {H.path_local(H.strip(x["args"][1]).get("e") or H.strip(x["args"][1])) if H.kind(H.strip(x["args"][1])) == "AddrOf" else H.path_local(H.strip(x["args"][1])) for x in calls_}
            if calls_ and passed and not (passed & scope_params) and None not in passed:
                own_scope |= set(vs_)
    for b in sorted(b_cfv | set(b_inl), key=str):
        if b in b_cfv and b not in b_inl and str(b) in own_scope:
            ctx.inst(rid, "binder=%s" % b, None, "binds names for the capture analysis: True; the arm prints its body with a scope of its own (%s) that is not built by removing names from a copy: not modelled" % "a local", H.loc(inl["body"]))
            continue
        ctx.inst(rid, "binder=%s" % b, b in b_cfv and b in b_inl,
                 "binds names for the capture analysis: %s; removes them from the inlining scope: %s%s" % (b in b_cfv, b in b_inl, "" if b in b_inl else " (a local that shadows a captured name is overwritten by the captured value after its own definition)"), H.loc(inl["body"]))
    # the Lambda binder removes every parameter, whatever its kind
    seen_sites = set()
    for n, g in b_inl.get("Expr::Lambda", []):
        if H.loc(n) in seen_sites:
            continue   # the same site seen through several entry points (helpers are looked through)
        seen_sites.add(H.loc(n))
        in_loop = any(x[0] == "loop" for x in g)
        loopvars = {bn for x in g if x[0] == "loop" for bn in H.pat_binds(x[1]["pat"])}
        # conditions on the parameter itself (its kind, its name): anything else (is there a scope at all?) is not about the parameter
        # the parameter list itself: the collection the loop runs over
        listvars = {H.path_local(y) for x in g if x[0] == "loop" for y in H.walk(x[1]["iter"]) if H.kind(y) == "Path"} - {None}
        conds = [x for x in g if (x[0] == "if" and any(H.path_local(y) in (loopvars | listvars) for y in H.walk(x[1]) if H.kind(y) == "Path"))
                 or (x[0] == "arm" and any("LambdaArg::" in v for v in H.pat_variants(x[1]["pat"])))]
        key = S.norm(n["args"][0], S.Env())
        okk = n["name"] == "shift_remove" and in_loop and not conds and S.contains_call(key, "get_name")
        ctx.inst(rid, "binder=Expr::Lambda#all-parameters", okk, "%s(%s) in a loop over the parameters with no condition on the parameter kind: %s" % (n["name"], S.show(key), okk), H.loc(n))
    # a captured value is inlined whatever its name: the look-up in the scope is the only condition
    for f_ in inl_fns:
        for n, e, g in scope.sites(f_["body"], lambda n: H.kind(n) == "Call" and n.get("def") == A2S + "serializable_value_to_source", S.Env()):
            if innermost_ast_arm(g) != "Expr::Identifier":
                continue
            extra = []
            for gg in g:
                if gg[0] == "arm" and gg[1].get("guard") is not None and any(H.last(v_) == "Some" for v_ in H.pat_variants(gg[1]["pat"])):
                    extra.append("arm guard at %s" % H.loc(gg[1]["guard"]))
                if gg[0] == "if" and gg[2] is True:
                    cs_ = []
                    st_ = [gg[1]]
                    while st_:
                        c_ = H.strip(st_.pop())
                        if H.kind(c_) == "Binary" and c_.get("op") == "And":
                            st_ += [c_["l"], c_["r"]]
                        else:
                            cs_.append(c_)
                    extra += ["condition at %s" % H.loc(c_) for c_ in cs_ if H.kind(c_) != "LetExpr" and any(H.kind(y) == "Lit" and y.get("lk") == "str" for y in H.walk(c_))]
            ctx.inst(rid, "substitution#unconditional@%s" % H.last(f_.get("name") or "") if False else "substitution#unconditional", not extra, "conditions on the name besides the scope look-up: %s (a captured value left symbolic is an unbound name - or somebody else's value - where the function is reloaded)" % (extra or "none"), H.loc(n))
    # substitution positions
    subst = set()
    for n, e, g in scope.sites(inl["body"], lambda n: H.kind(n) == "Call" and n.get("def") == A2S + "serializable_value_to_source", S.Env()):
        subst.add(innermost_ast_arm(g))
    # ... and in every other printer function that takes the captured scope (the record-entry helper today)
    SCOPE_TY_ = "IndexMap<alloc::string::String, blots_core::values::SerializableValue"
    for rname, rec in sorted(printer_fns(core).items()):
        if rname == A2S + "expr_to_source_with_scope" or not any(SCOPE_TY_ in t for t in rec.get("inputs", [])):
            continue
        for n, e, g in scope.sites(core.hir_fn(rname)["body"], lambda n: H.kind(n) == "Call" and n.get("def") == A2S + "serializable_value_to_source", S.Env()):
            subst.add(innermost_ast_arm(g))
    want_pos = {"Expr::Identifier", "RecordKey::Shorthand"}
    # a read position whose arm, in a printer that is handed the captured scope, never looks at that scope cannot substitute anything
    for rname, rec in sorted(printer_fns(core).items()):
        if not any(SCOPE_TY_ in t for t in rec.get("inputs", [])) or rec.get("body") is None:
            continue
        sc_names = {bn for p_, t_ in zip(rec["params"], rec["inputs"]) if SCOPE_TY_ in t_ for bn in H.pat_binds(p_)}
        for enum_, var_ in (("ast::Expr", "Identifier"), ("ast::RecordKey", "Shorthand")):
            for m_ in H.matches_on(rec["body"], enum_):
                for a_ in m_["arms"]:
                    if var_ in [H.last(v_) for v_ in H.pat_variants(a_["pat"])]:
                        uses = any(H.path_local(y) in sc_names for y in H.walk(a_["body"]) if H.kind(y) == "Path") or (a_.get("guard") is not None and any(H.path_local(y) in sc_names for y in H.walk(a_["guard"]) if H.kind(y) == "Path"))
                        ctx.inst(rid, "substitution@%s[%s]#reads-the-scope" % (rname.replace(CORE, ""), var_), uses,
                                 "the %s arm %s the captured scope%s" % (var_, "consults" if uses else "never looks at", "" if uses else ": a captured value read here is emitted as a bare name - unbound, or somebody else's value, where the function is reloaded"), H.loc(a_["body"]))
    ctx.inst(rid, "substitution-positions", True if subst == want_pos else (False if (subst - want_pos - {None}) else None),
             "captured values are inlined at %s (want exactly the positions the evaluator reads: Identifier, record shorthand)" % sorted(map(str, subst)), H.loc(inl["body"]))


# ------------------------------------------------------------------ C09 rules
def single_line_probe(ctx, rid, core):
    """format_single_line answers a commented list / record with a placeholder that contains a line break ("[\n]"): its text is a
    probe - emitted only after a test that it holds no line break (shared with C07: the placeholder parses as an empty list)"""
    ctx.rule(rid, "the single-line rendering is a probe: outside format_single_line and its entry helper, its text is bound to a local that is used only under a `contains('\\n')` test of that local - the placeholder it returns for a list or record with comments (`[\\n]`) is never part of the output", floor=1)
    SL = FMT + "format_single_line"
    hf = core.hir.get(SL)
    if hf is None:
        ctx.inst(rid, "format_single_line", None, "function not found (the probe protocol is not used)", None)
        return
    placeholder = any(H.kind(x) == "Lit" and x.get("lk") == "str" and "\n" in str(x.get("v")) for x in H.walk(hf["body"]))
    if not placeholder:
        ctx.inst(rid, "format_single_line#placeholder", True, "format_single_line returns no text with a line break: nothing to guard", H.loc(hf["body"]))
        return
    family = {SL} | {d for d in core.hir if d.startswith(FMT) and any(H.kind(x) == "Call" and x.get("def") == d for x in H.walk(hf["body"]))}
    n = 0
    for name, f in sorted(printer_fns(core).items()):
        if name in family or not name.startswith(FMT) or f.get("body") is None:
            continue
        calls = [x for x in H.walk(f["body"]) if H.kind(x) == "Call" and x.get("def") == SL]
        if not calls:
            continue
        lets = [(s_["pat"]["name"], s_["init"]) for s_ in H.walk(f["body"]) if isinstance(s_, dict) and s_.get("k") == "Let" and H.kind(s_.get("pat")) == "Bind" and s_.get("init") is not None]
        lets_all = [(s_["pat"]["name"], s_["init"], (s_["pat"].get("ty") or "")) for s_ in H.walk(f["body"]) if isinstance(s_, dict) and s_.get("k") == "Let" and H.kind(s_.get("pat")) == "Bind" and s_.get("init") is not None]
        is_text = lambda ty_: ty_.lstrip("&") in ("alloc::string::String", "str")
        probes = {nm for nm, init, ty_ in lets_all if is_text(ty_) and any(any(y is c_ for y in H.walk(init)) for c_ in calls)}
        for _ in range(3):
            probes |= {nm for nm, init, ty_ in lets_all if is_text(ty_) and any(H.path_local(y) in probes for y in H.walk(init) if H.kind(y) == "Path")}
        # booleans computed from a line-break test of a probe (`let is_one_line = !single.contains('\n');`) stand for that test
        def nl_test_of(e_):
            return {H.path_local(H.strip(y["recv"])) for y in H.walk(e_) if H.kind(y) == "MethodCall" and y["name"] == "contains" and y.get("args") and H.lit(y["args"][0]) is not None and "\n" in str(H.lit(y["args"][0])["v"])}
        testers = {nm: nl_test_of(init) & probes for nm, init, ty_ in lets_all if ty_ == "bool" and nl_test_of(init) & probes}
        for _ in range(2):
            for nm, init, ty_ in lets_all:
                if ty_ == "bool" and nm not in testers:
                    via = set().union(*[testers[H.path_local(y)] for y in H.walk(init) if H.kind(y) == "Path" and H.path_local(y) in testers] or [set()])
                    # a conjunction with a tester is still at least that test
                    if via and not any(H.kind(y) == "Binary" and y.get("op") == "Or" for y in H.walk(init)):
                        testers[nm] = via
        unbound = [H.loc(c_) for c_ in calls if not any(any(y is c_ for y in H.walk(init)) for _, init in lets)]
        # every use of a probe local sits in an `if` whose condition tests that local for a line break
        guarded_nodes = set()
        for x in H.walk(f["body"]):
            if H.kind(x) == "If":
                tested = nl_test_of(x["cond"]) | set().union(*[testers[H.path_local(y)] for y in H.walk(x["cond"]) if H.kind(y) == "Path" and H.path_local(y) in testers] or [set()])
                # a disjunction can be true without the line-break test: `matches!(..DoBlock..) || (!s.contains('\n') && fits)` is not a guard
                if any(H.kind(y) == "Binary" and y.get("op") == "Or" for y in H.walk(x["cond"])):
                    tested = set()
                if tested & probes:
                    for y in H.walk(x["cond"]):
                        guarded_nodes.add(id(y))
                    for y in H.walk(x["then"]):
                        guarded_nodes.add(id(y))
        init_ids = {id(y) for _, init in lets for y in H.walk(init)}
        loose = [H.loc(y) for y in H.walk(f["body"]) if H.kind(y) == "Path" and H.path_local(y) in probes and id(y) not in guarded_nodes and id(y) not in init_ids]
        n += 1
        ctx.inst(rid, "%s#single-line-probe" % name.replace(CORE, ""), not unbound and not loose,
                 "probe locals %s; calls whose text is used in place: %s; uses outside a line-break test: %s" % (sorted(probes), unbound or "none", loose or "none"), H.loc(calls[0]))
    ctx.inst(rid, "single-line-probe#callers", n >= 1, "%d caller(s) of format_single_line outside its own family" % n, None)


def C09_fallbacks(ctx, rid, core):
    ctx.rule(rid, "the formatter reaches the comment-unaware printers (expr_to_source family, which drops Commented.leading/.trailing of list, record and do-block members) only where no commented member can occur", floor=2)
    pf = printer_fns(core)
    unaware = {A2S + "expr_to_source", A2S + "expr_to_source_with_scope"}
    for name, f in sorted(pf.items()):
        if not name.startswith(FMT):
            continue
        k = {}
        for n, e, g in scope.sites(f["body"], lambda n: H.kind(n) in ("Call",) and n.get("def") in unaware or (H.kind(n) == "Path" and (n["res"].get("def") in unaware) and n["res"].get("dk") == "Fn"), S.Env()):
            if H.kind(n) == "Path":
                # passed as a function value (e.g. .map(expr_to_source)) or the callee path of a Call we also see: skip the latter
                continue
            lab = None
            for gg in g:
                if gg[0] == "arm":
                    vs = [H.last(v) for v in H.pat_variants(gg[1]["pat"])]
                    lab = "|".join(vs) if vs else "_"
                    if not vs and len(gg) > 5 and isinstance(gg[5], dict):
                        # a catch-all arm: the finding is about the node kinds that reach it (one more kind falling through is a new finding)
                        explicit = {H.last(v) for a_ in gg[5]["arms"] for v in H.pat_variants(a_["pat"])}
                        ety = next((v.rsplit("::", 1)[0] for a_ in gg[5]["arms"] for v in H.pat_variants(a_["pat"])), None)
                        allv = [v["name"] for v in (core.types.get(ety) or {}).get("variants", [])] if ety else []
                        if allv:
                            lab = "_=" + ",".join(sorted(set(allv) - explicit))
            i = k.get(lab, 0)
            k[lab] = i + 1
            ctx.inst(rid, "%s[%s]->expr_to_source#%d" % (name.replace(CORE, ""), lab or "-", i), False,
                     "falls back to expr_to_source for this node kind; a list / record / do-block with comments nested below it loses them (y = [1, // one\\n 2] + [3] -> y = [1, 2] + [3])", H.loc(n))
        # function values: .map(expr_to_source)
        for n in H.walk(f["body"]):
            if H.kind(n) == "MethodCall":
                for a in n["args"]:
                    a_ = H.strip(a)
                    if H.kind(a_) == "Path" and a_["res"].get("def") in unaware:
                        ctx.inst(rid, "%s->expr_to_source#as-callback" % name.replace(CORE, ""), False, "passes expr_to_source as a callback: members' comments are dropped", H.loc(n))
    ctx.inst(rid, "scan", True, "scanned %d formatter functions" % sum(1 for n in pf if n.startswith(FMT)), None)


_CLOSURE_OWNER = {}


def C09_comment_fields(ctx, rid, core):
    ctx.rule(rid, "wherever a printer unwraps a Commented<T> member (reads .node) it also emits .leading and .trailing, or is guarded by has_comments() diverting to a printer that does", floor=6)
    pf = printer_fns(core)
    cg = M.CallGraph([core])
    reach = cg.reachable_from([FMT + "format_expr"])
    for name, f in sorted(pf.items()):
        if name not in reach:
            continue  # e.g. expr_to_source_with_scope serialises function values, whose AST is built without comments
        for n, e, g in scope.sites(f["body"], lambda n: H.kind(n) in ("For", "Closure"), S.Env()):
            body = n["body"]
            # does this loop / closure run over Commented elements and read .node?
            reads = {}
            for x in H.walk(body):
                if H.kind(x) == "Field" and x["name"] in ("node", "leading", "trailing") and "ast::Commented<" in H.strip(x["e"]).get("ty", "").lstrip("&"):
                    reads.setdefault(x["name"], []).append(x)
            if "node" not in reads:
                continue
            # nested loops/closures inside this one are visited on their own: only count direct reads
            lab = None
            for gg in g:
                if gg[0] == "arm":
                    vs = [H.last(v) for v in H.pat_variants(gg[1]["pat"])]
                    if vs:
                        lab = "|".join(vs)
            # guard: an earlier statement of the same arm returns when any member has comments
            guarded = False
            for gg in g:
                if gg[0] == "arm":
                    for y in H.walk(gg[1]["body"]):
                        if H.kind(y) == "If" and any(H.kind(z) == "MethodCall" and z["name"] == "has_comments" for z in H.walk(y["cond"])) and any(H.kind(z) == "Ret" for z in H.walk(y["then"])):
                            guarded = True
            # ... or the unwrapping sits in the branch taken when no member has comments (`if has_comments { placeholder } else { .. }`)
            for gg in g:
                if gg[0] == "if" and gg[2] is False and any(H.kind(z) == "MethodCall" and z["name"] == "has_comments" for z in H.walk(gg[1])):
                    guarded = True
            own = "leading" in reads and "trailing" in reads
            # the members themselves may be handed, next to their rendered text, to a helper of the module that emits the comment
            # fields (`do_block_source(statements, rendered_statements, ..)`)
            if not own:
                coll = None
                if H.kind(n) == "For":
                    it_ = H.strip(n["iter"])
                else:
                    it_ = None
                    for gg in g:
                        pass
                    # the closure is an argument of `<collection>.iter().map(closure)`: find that call in the enclosing function
                    if id(f) not in _CLOSURE_OWNER:
                        _CLOSURE_OWNER[id(f)] = {id(H.strip(a_)): y for y in H.walk(f["body"]) if H.kind(y) == "MethodCall" for a_ in y.get("args", []) if H.kind(H.strip(a_)) == "Closure"}
                    y = _CLOSURE_OWNER[id(f)].get(id(n))
                    if y is not None:
                        it_ = H.strip(y["recv"])
                while it_ is not None and H.kind(it_) == "MethodCall":
                    it_ = H.strip(it_["recv"])
                coll = H.path_local(it_) if it_ is not None else None
                if coll is not None:
                    for y in H.walk(f["body"]):
                        if H.kind(y) == "Call" and (y.get("def") or "") in pf and y["def"] != name and any(H.path_local(H.strip(a_)) == coll for a_ in y["args"]):
                            hb = pf[y["def"]].get("body") or {}
                            flds = {z["name"] for z in H.walk(hb) if H.kind(z) == "Field" and z["name"] in ("leading", "trailing") and "ast::Commented<" in H.strip(z["e"]).get("ty", "").lstrip("&")}
                            if {"leading", "trailing"} <= flds:
                                own = True
            ok = own or guarded
            ctx.inst(rid, "%s[%s]#%s@%s" % (name.replace(CORE, ""), lab or "-", H.kind(n).lower(), "members"), ok,
                     "reads .node of Commented members; emits .leading and .trailing: %s; guarded by has_comments(): %s" % (own, guarded), H.loc(n))


def C09_single_members(ctx, rid, core):
    """members that are not list elements (a do-block's return expression): every printer reachable from format_expr that
    unwraps one must emit the comment fields that its sibling printers emit for the same AST slot"""
    pf = printer_fns(core)
    cg = M.CallGraph([core])
    reach = cg.reachable_from([FMT + "format_expr"])
    fns = {k: f for k, f in pf.items() if k in reach}

    def origins(f):
        org = {}
        for i, p in enumerate(f.get("params", [])):
            for bn in H.pat_binds(p):
                org[bn] = ("param", i)
        for n in H.walk(f["body"]):
            pats = []
            if H.kind(n) == "Match":
                pats = [a["pat"] for a in n["arms"]]
            elif H.kind(n) == "LetExpr":
                pats = [n["pat"]]
            for pat in pats:
                for st in H.walk(pat):
                    if H.kind(st) == "Struct" and "ast::Expr::" in (st["res"].get("def") or ""):
                        for fl in st["fields"]:
                            bn = H.pat_binds(fl["pat"])
                            if len(bn) == 1:
                                org[bn[0]] = ("slot", H.last(st["res"]["def"]) + "." + fl["name"])
        return org

    ORG = {k: origins(f) for k, f in fns.items()}

    _memo = {}
    _calls_of = {}
    for cname, cf in fns.items():
        for n in H.walk(cf["body"]):
            if H.kind(n) == "Call" and n.get("def") in fns:
                _calls_of.setdefault(n["def"], []).append((cname, n))

    def resolve(fname, local, depth=0):
        if (fname, local) not in _memo:
            _memo[(fname, local)] = _resolve(fname, local, depth)
        return _memo[(fname, local)]

    def _resolve(fname, local, depth=0):
        o = ORG.get(fname, {}).get(local)
        if o is None:
            return None
        if o[0] == "slot":
            return o[1]
        if depth > 3:
            return None
        # a parameter: look at the call sites in the other printers
        found = set()
        for cname, n in _calls_of.get(fname, []):
            if o[1] < len(n["args"]):
                l = H.path_local(n["args"][o[1]])
                if l is not None:
                    r = resolve(cname, l, depth + 1)
                    if r:
                        found.add(r)
        return sorted(found)[0] if len(found) == 1 else None

    reads = {}
    for fname, f in fns.items():
        for x in H.walk(f["body"]):
            if H.kind(x) == "Field" and x["name"] in ("node", "leading", "trailing") and "ast::Commented<" in H.strip(x["e"]).get("ty", "").lstrip("&").replace("alloc::boxed::Box<", ""):
                l = H.path_local(x["e"])
                if l is None:
                    continue
                slot = resolve(fname, l)
                if slot is None:
                    continue
                reads.setdefault(slot, {}).setdefault(fname, set()).add(x["name"])
    # a printer that hands the member itself on to a helper of the module emits what the helper emits for it
    for fname, f in fns.items():
        for n in H.walk(f["body"]):
            if H.kind(n) == "Call" and (n.get("def") or "") in fns and n["def"] != fname:
                for a_ in n["args"]:
                    l = H.path_local(H.strip(a_))
                    slot = resolve(fname, l) if l is not None else None
                    if slot and slot in reads and n["def"] in reads[slot] and fname in reads[slot]:
                        reads[slot][fname] = reads[slot][fname] | reads[slot][n["def"]]
    for slot, by_fn in sorted(reads.items()):
        ref = set().union(*by_fn.values())
        for fname, got in sorted(by_fn.items()):
            if "node" not in got:
                continue
            missing = sorted(ref - got)
            ctx.inst(rid, "%s#member=%s" % (fname.replace(CORE, ""), slot), not missing,
                     "prints %s reading %s; the printers of this slot together emit %s%s" % (slot, sorted(got), sorted(ref), "" if not missing else ": this one drops %s" % missing), H.loc(fns[fname]["body"]))


def C09_drivers(ctx, rid, core, cli, wasm, G):
    ctx.rule(rid, "every format driver consumes both child slots of `statement` (the statement and its end-of-line comment) and handles the same first-slot alternatives", floor=2)
    st = G.seq(G.expr("statement"))
    slots = len(st)
    ctx.inst(rid, "grammar#statement-slots", slots == 2 and st[1]["k"] == "opt", "statement = (..) ~ comment?: %d slots" % slots, "blots-core/src/grammar.pest")
    def has_driver_arm(f_):
        return any(H.kind(x) == "Call" and (x.get("def") or "").endswith("formatter::format_expr") for x in H.walk(f_["body"])) and \
            any(H.kind(x) == "Path" and (x["res"].get("def") or "").endswith("Rule::statement") for x in H.walk(f_["body"]))

    for label, crate, fname in (("cli", cli, "blots::main"), ("wasm", wasm, "blots_wasm::format_blots")):
        f = crate.hir.get(fname)
        if f is None or not has_driver_arm(f):
            # the driver may have been moved into a helper: any function of the crate that matches Rule::statement and calls format_expr
            cands = [(k_, v_) for k_, v_ in sorted(crate.hir.items()) if v_.get("body") is not None and has_driver_arm(v_)]
            if cands:
                fname, f = cands[0]
        if f is None:
            ctx.inst(rid, "%s#driver" % label, None, "driver function %s not found" % fname, None)
            continue
        # statement arms that call format_expr
        found = False
        for n in H.walk(f["body"]):
            stmt_arm = None
            if H.kind(n) == "Match":
                for a in n["arms"]:
                    if any(H.last(v) == "statement" for v in H.pat_variants(a["pat"])) and any(H.kind(x) == "Call" and (x.get("def") or "").endswith("formatter::format_expr") for x in H.walk(a["body"])):
                        stmt_arm = a["body"]
            elif H.kind(n) == "If":
                c = H.strip(n["cond"])
                if H.kind(c) == "Binary" and c["op"] == "Eq" and any((H.path_def(x) or "").endswith("Rule::statement") for x in (c["l"], c["r"])) and any(H.kind(x) == "Call" and (x.get("def") or "").endswith("formatter::format_expr") for x in H.walk(n["then"])):
                    stmt_arm = n["then"]
            if stmt_arm is None:
                continue
            found = True
            nexts = [x for x in H.walk(stmt_arm) if H.kind(x) == "MethodCall" and x["name"] == "next" and "Pairs<" in x.get("recv_ty", "")]
            loops = [x for x in H.walk(stmt_arm) if H.kind(x) == "For" and "Pairs<" in H.strip(x["iter"]).get("ty", "")]
            # the second slot must be emitted: its text flows into the output string
            cmt = [x for x in H.walk(stmt_arm) if H.kind(x) == "Path" and (x["res"].get("def") or "").endswith("Rule::comment")]
            ok = (len(nexts) >= 2 or bool(loops)) and len(cmt) >= 2
            ctx.inst(rid, "%s#consumes-both-slots" % label, ok, "inner.next() x%d, loops over the children: %d, Rule::comment handled %d time(s) (standalone + end-of-line)" % (len(nexts), len(loops), len(cmt)), H.loc(stmt_arm))
            # ... on every first-slot alternative: the second slot may not be read only inside some arms of the match on the first child
            fms = [m for m in H.walk(stmt_arm) if H.kind(m) == "Match" and any(H.last(v) in ("expression", "output_declaration") for a in m["arms"] for v in H.pat_variants(a["pat"]))]
            if fms and len(nexts) >= 2 and not loops:
                FM = fms[0]
                arm_of = {}
                for a in FM["arms"]:
                    vs = tuple(sorted(H.last(v) for v in H.pat_variants(a["pat"]))) or ("_",)
                    for x in H.walk(a["body"]):
                        arm_of[id(x)] = vs
                second = nexts[1:]
                outside = [x for x in second if id(x) not in arm_of]
                holders = {arm_of[id(x)] for x in second if id(x) in arm_of}
                need = [tuple(sorted(H.last(v) for v in H.pat_variants(a["pat"]))) for a in FM["arms"] if any(H.last(v) in ("expression", "output_declaration") for v in H.pat_variants(a["pat"]))]
                okp = bool(outside) or all(n_ in holders for n_ in need)
                ctx.inst(rid, "%s#second-slot-on-every-alternative" % label, okp,
                         "the end-of-line comment slot is read %s" % ("after the match on the first child: for every alternative" if outside else "only inside the arms %s of the match on the first child (alternatives %s)" % (sorted(holders), need)), H.loc(FM))
                # ... and unconditionally: the test that reads the second slot does not also ask which alternative the first child was
                # (directly, or through a local computed from the first child's rule)
                lets_ = {x["pat"]["name"]: x["init"] for x in H.walk(stmt_arm) if H.kind(x) == "Let" and H.kind(x.get("pat")) == "Bind" and x.get("init") is not None}
                def rule_paths(e_):
                    return sorted({H.last(H.path_def(y)) for y in H.walk(e_) if H.kind(y) == "Path" and "parser::Rule::" in (H.path_def(y) or "") and H.last(H.path_def(y)) not in ("comment", "eol_comment")})
                gated = []
                for i_ in H.walk(stmt_arm):
                    if H.kind(i_) == "If" and any(any(y is x for y in H.walk(i_["cond"])) for x in outside):
                        g_ = rule_paths(i_["cond"])
                        for y in H.walk(i_["cond"]):
                            nm_ = H.path_local(y) if H.kind(y) == "Path" else None
                            if nm_ in lets_:
                                g_ += rule_paths(lets_[nm_])
                        if g_:
                            gated.append((H.loc(i_), sorted(set(g_))))
                if outside:
                    ctx.inst(rid, "%s#second-slot-not-gated-by-first" % label, False if gated else True,
                             "the test that reads the end-of-line comment also depends on the first child's rule: %s (a comment after the other alternatives is dropped)" % (gated or "no"), H.loc(FM))
            break
        if not found:
            ctx.inst(rid, "%s#consumes-both-slots" % label, None, "no statement arm calling format_expr found in %s" % fname, None)


def C09_builder_slots(ctx, rid, core, G):
    ctx.rule(rid, "the AST builder consumes every comment-bearing child slot the grammar gives list, record, do_block and their items, and appends tail comments after the member's own trailing comment", floor=8)
    builder = core.hir_fn(CORE + "expressions::pairs_to_expr_inner")["body"]
    c10.CRATE[0] = core
    mprim = c10.rule_match(c10.closure_of(builder, "map_primary"))
    arms = {}
    for a in mprim["arms"]:
        for v in H.pat_variants(a["pat"]):
            arms[H.last(v)] = a
    for rule in ("list", "record", "do_block"):
        kids = G.children(G.expr(rule))
        a = arms.get(rule)
        if a is None:
            ctx.inst(rid, "%s#arm" % rule, False, "no builder arm", None)
            continue
        handled = set()
        for n in H.walk(a["body"]):
            if H.kind(n) == "Match" and n["scrut"].get("ty", "").endswith("parser::Rule"):
                for aa in n["arms"]:
                    for v in H.pat_variants(aa["pat"]):
                        handled.add(H.last(v))
            if H.kind(n) == "Binary" and n["op"] == "Eq":
                for x in (n["l"], n["r"]):
                    d = H.path_def(x)
                    if d and d.startswith(CORE + "parser::Rule::"):
                        handled.add(H.last(d))
        for kchild in sorted(kids):
            ctx.inst(rid, "%s#child=%s" % (rule, kchild), kchild in handled, "grammar child %s of %s has a builder arm: %s" % (kchild, rule, kchild in handled), H.loc(a["body"]))
        # comments are kept: pushes to pending_comments under preserve_comments
        # comments are kept: inside the handling of a `comment` child its text is pushed onto a list of pending comments
        pushes = []
        handed = []
        for n in H.walk(a["body"]):
            regions = []
            if H.kind(n) == "Match" and n["scrut"].get("ty", "").endswith("parser::Rule"):
                regions += [aa["body"] for aa in n["arms"] if any(H.last(v) == "comment" for v in H.pat_variants(aa["pat"]))]
            if H.kind(n) == "If" and any((H.path_def(x) or "").endswith("parser::Rule::comment") for x in H.walk(n["cond"])):
                regions.append(n["then"])
            for r_ in regions:
                pushes += [x for x in H.walk(r_) if H.kind(x) == "MethodCall" and x["name"] == "push" and "alloc::string::String" in H.strip(x["args"][0]).get("ty", "alloc::string::String")]
                # the text handed to a helper / method of the crate that keeps the bookkeeping (not followed)
                handed += [x for x in H.walk(r_) if H.kind(x) in ("Call", "MethodCall") and (x.get("def") or "").startswith(CORE) and any((H.kind(y) == "MethodCall" and y["name"] == "as_str") or (H.kind(y) == "Path" and "pest::iterators::pair::Pair" in (y.get("ty") or "")) for a_ in x.get("args", []) for y in H.walk(a_))]
        ctx.inst(rid, "%s#keeps-comments" % rule, True if len(pushes) >= 1 else (None if handed else False), "where a comment child is handled its text is pushed onto a pending list: %d site(s)" % len(pushes), H.loc(a["body"]))
        # items: second slot (eol comment) consumed
        for item_rule in {"list": ["list_item"], "record": ["record_item"], "do_block": ["do_statement"]}[rule]:
            n_slots = len(G.seq(G.expr(item_rule)))
            item_arms = [aa for n in H.walk(a["body"]) if H.kind(n) == "Match" for aa in n["arms"] if any(H.last(v) == item_rule for v in H.pat_variants(aa["pat"]))]
            if not item_arms:
                ctx.inst(rid, "%s#slots" % item_rule, False, "no arm for %s" % item_rule, None)
                continue
            nexts = [x for x in H.walk(item_arms[0]["body"]) if H.kind(x) == "MethodCall" and x["name"] == "next" and "Pairs<" in x.get("recv_ty", "")]
            delegated = [x for x in H.walk(item_arms[0]["body"]) if H.kind(x) in ("Call", "MethodCall") and (x.get("def") or "").startswith(CORE) and not (x.get("def") or "").endswith("pairs_to_expr_inner")
                         and any("pest::iterators" in ((a_.get("ty") or "")) or any("pest::iterators" in (y.get("ty") or "") for y in H.walk(a_) if isinstance(y, dict)) for a_ in x.get("args", []))]
            ctx.inst(rid, "%s#slots" % item_rule, True if len(nexts) >= n_slots else (None if delegated else False), "%s has %d child slots; the builder takes %d" % (item_rule, n_slots, len(nexts)), H.loc(item_arms[0]["body"]))
        # tail merge: format!("{}\n{}", existing trailing, pending) in that order
        for n in H.walk(a["body"]):
            if H.kind(n) == "Macro" and n["name"] == "format":
                ts = H.macro_templates(core, n)
                if ts and H.template_text(ts[0]) == "{}\n{}" and len(n["args"]) == 2:
                    first = S.norm(n["args"][0], S.Env())
                    second = S.norm(n["args"][1], S.Env())
                    OWN = ("field", "trailing", ("var", "last"))
                    # names bound from the member's own trailing comment (`match last.trailing.take() { Some(existing) => ..`, `if let Some(t) = &last.trailing`)
                    alias = set()
                    for m_ in H.walk(a["body"]):
                        if H.kind(m_) == "Match" and S.contains(S.norm(m_["scrut"], S.Env()), OWN):
                            for aa in m_["arms"]:
                                if any(y is n for y in H.walk(aa["body"])):
                                    alias |= set(H.pat_binds(aa["pat"]))
                        if H.kind(m_) == "LetExpr" and S.contains(S.norm(m_["init"], S.Env()), OWN):
                            alias |= set(H.pat_binds(m_["pat"]))
                    is_own = lambda t_: S.contains(t_, OWN) or any(S.contains(t_, ("var", al_)) for al_ in alias)
                    ok = True if (is_own(first) and not is_own(second)) else (False if (is_own(second) and not is_own(first)) else None)
                    ctx.inst(rid, "%s#tail-comments-after-own-trailing" % rule, ok, "merged as %s then %s" % (S.show(first)[:60], S.show(second)[:60]), H.loc(n))


def C09_grammar_gaps(ctx, rid, G):
    ctx.rule(rid, "no grammar rule below `statement` separates its tokens with NEWLINE, which silently swallows an end-of-line comment before it reaches the AST (inline_comment? ~ plain_newline)", floor=5)
    nl = G.seq(G.expr("NEWLINE"))
    eats = any(x["k"] == "opt" and x["e"].get("v") == "inline_comment" for x in nl)
    ctx.inst(rid, "grammar#NEWLINE-eats-comments", True, "NEWLINE = inline_comment? ~ plain_newline: %s" % eats, "blots-core/src/grammar.pest")
    if not eats:
        return
    reach = set()
    st = ["statement"]
    while st:
        r = st.pop()
        if r in reach or r not in G.rules:
            continue
        reach.add(r)
        st += G.refs(G.expr(r))
    for r in G.order:
        if r not in reach or r in ("NEWLINE",):
            continue
        uses = [x for x in G.walk_no_pred(G.expr(r)) if x["k"] == "ident" and x["v"] == "NEWLINE"]
        if uses:
            ctx.inst(rid, "rule=%s" % r, False, "rule %s admits NEWLINE (%d gap(s)): an end-of-line comment written there is consumed by the grammar and the formatter cannot reproduce it (f(1, // one\\n 2) -> f(1, 2))" % (r, len(uses)), "blots-core/src/grammar.pest")
        else:
            ctx.inst(rid, "rule=%s" % r, True, "no comment-eating gap", "blots-core/src/grammar.pest")
