"""C04 — closures capture definition-time values; calls are call-site independent (DESIGN §4 C04)."""
import re
from lib import hir as H
from lib import mir as M
from lib import sig as S
from lib import scope
from lib.facts import CheckerError

NEED = ("dev",)
CORE = "blots_core::"
EVAL = CORE + "expressions::evaluate_ast"
CFV = CORE + "expressions::collect_free_variables"
FCALL = CORE + "functions::FunctionDef::call"
ENV = CORE + "environment::Environment::"


def innermost_ast_arm(guards):
    """innermost match arm over ast::Expr / ast::RecordKey a site sits in"""
    lab = None
    for g in guards:
        if g[0] == "arm":
            vs = [v for v in H.pat_variants(g[1]["pat"]) if "ast::Expr::" in v or "ast::RecordKey::" in v]
            if vs:
                lab = "|".join(sorted(v.replace(CORE + "ast::", "") for v in vs))
    return lab


def positional(pat, env):
    k = H.kind(pat)
    while k == "Ref":
        pat = pat["pat"]
        k = H.kind(pat)
    if k in ("TupleStruct",):
        for i, p in enumerate(pat["pats"]):
            if H.kind(p) == "Bind":
                env.roles[p["name"]] = ("pb", i)


def record_entry_parts(fn_body, callee_pred, all_kinds):
    """{key kind: set of entry parts ('key' = the key's expression, 'value' = entry.value) handed to callee} inside the Record
    handling of a function; None when a condition on the key kind is not understood"""
    MARK = "ast::RecordKey::"
    out = {k: set() for k in all_kinds}
    known = True
    seen = 0
    for n, e, g in scope.sites(fn_body, callee_pred, S.Env()):
        in_record = any(gg[0] == "arm" and any(v.endswith("ast::Expr::Record") for v in H.pat_variants(gg[1]["pat"])) for gg in g)
        if not in_record:
            continue
        arg = n["args"][0] if n.get("args") else None
        if arg is None:
            continue
        part = None
        if any(H.kind(x) == "Field" and x["name"] == "value" for x in H.walk(arg)):
            part = "value"
        else:
            l = None
            for x in H.walk(arg):
                if H.kind(x) == "Path" and x["res"].get("local") is not None:
                    l = x["res"]["local"]
            for gg in g:
                if gg[0] == "arm" and l is not None and l in H.pat_binds(gg[1]["pat"]) and any(MARK in v for v in H.pat_variants(gg[1]["pat"])):
                    part = "key"
        if part is None:
            continue
        kinds = set(all_kinds)
        for gg in g:
            if gg[0] == "arm":
                vs = {H.last(v) for v in H.pat_variants(gg[1]["pat"]) if MARK in v}
                if vs:
                    kinds &= vs
                elif len(gg) > 3 and any(H.kind(x) == "Field" and x["name"] == "key" for x in H.walk(gg[3])):
                    # a catch-all arm of a match on the key: the kinds no earlier arm names
                    mm = gg[5] if len(gg) > 5 else None
                    if mm is None:
                        known = False
                    else:
                        named = set()
                        for a in mm["arms"]:
                            if a is gg[1]:
                                break
                            named |= {H.last(v) for v in H.pat_variants(a["pat"]) if MARK in v}
                        kinds -= named
            elif gg[0] == "if":
                c = H.strip(gg[1])
                neg = False
                while H.kind(c) == "Unary" and c.get("op") == "Not":
                    neg = not neg
                    c = H.strip(c["e"])
                if not any(H.kind(x) == "Field" and x["name"] == "key" for x in H.walk(c)):
                    continue
                if H.kind(c) == "Match" and len(c["arms"]) == 2:
                    yes = [a for a in c["arms"] if H.strip(a["body"]).get("v") in (True, "true")]
                    vs = {H.last(v) for a in yes for v in H.pat_variants(a["pat"]) if MARK in v}
                    if len(yes) == 1 and vs:
                        pol = gg[2] != neg
                        kinds = kinds & vs if pol else kinds - vs
                        continue
                known = False
        seen += 1
        for k in kinds:
            out[k].add(part)
    return (out if known and seen else None)


def capture_by_name(ctx, rid, core):
    """what a new function captures depends on the free names only (shared with C05: an uncaptured name stays bare in the emitted source)"""
    hev = core.hir_fn(EVAL)
    m0 = H.main_match(hev["body"], "ast::Expr")
    lam = None
    for a in (m0["arms"] if m0 else []):
        if any(H.last(v) == "Lambda" for v in H.pat_variants(a["pat"])):
            lam = a
    if lam is None:
        ctx.inst(rid, "capture#depends-on-name-only", None, "no Lambda arm found in the evaluator", None)
        return
    # what is captured depends on the name only: a looked-up value is stored whatever it is
    n_ins = 0
    for n, e, g in scope.sites(lam["body"], lambda n: H.kind(n) == "MethodCall" and n["name"] == "insert" and len(n.get("args", [])) == 2, S.Env()):
        conds = [gg for gg in g if gg[0] == "if" and gg[2] is True]
        value_locals = set()
        tests = []
        for gg in conds:
            stack = [gg[1]]
            while stack:
                c = H.strip(stack.pop())
                if H.kind(c) == "Binary" and c["op"] == "And":
                    stack += [c["l"], c["r"]]
                elif H.kind(c) == "LetExpr":
                    if any(H.kind(y) == "MethodCall" and y.get("def") == ENV + "get" for y in H.walk(c["init"])):
                        value_locals |= set(H.pat_binds(c["pat"]))
                    else:
                        tests.append(c)
                else:
                    tests.append(c)
        for gg in g:
            if gg[0] == "arm" and len(gg) > 3 and any(H.kind(y) == "MethodCall" and y.get("def") == ENV + "get" for y in H.walk(gg[3])):
                value_locals |= set(H.pat_binds(gg[1]["pat"]))
        if not value_locals or not any(H.path_local(a_) in value_locals for a_ in n["args"]):
            continue
        n_ins += 1
        on_value = [H.loc(t) for t in tests if any(H.path_local(y) in value_locals for y in H.walk(t) if H.kind(y) == "Path")]
        ctx.inst(rid, "capture#depends-on-name-only", not on_value,
                 "the looked-up value is stored under %d further condition(s); conditions that inspect the value itself (a variable bound to such a value would silently stay uncaptured): %s" % (len(tests), on_value or "none"), H.loc(n))
    if n_ins == 0:
        ctx.inst(rid, "capture#depends-on-name-only", None, "the store of a looked-up value into the captured scope was not found in this form", H.loc(lam["body"]))



def parameters_last(ctx, rid, core):
    """in the call frame the parameters are inserted after the function's own name and `inputs`, so a parameter of the same name wins (shared with C03: parameters shadow outer names inside the call)"""
    hfc = core.hir_fn(FCALL)
    inserts = [n for n in H.walk(hfc["body"]) if H.kind(n) == "MethodCall" and n["name"] == "insert" and "HashMap" in n.get("recv_ty", "")]
    loops = [n for n in H.walk(hfc["body"]) if H.kind(n) == "For"]
    param_loop = [lp for lp in loops if any(H.kind(x) == "Match" and x["scrut"].get("ty", "").endswith("values::LambdaArg") for x in H.walk(lp["body"]))]
    if len(param_loop) == 1:
        lp = param_loop[0]
        inside = [n for n in inserts if any(x is n for x in H.walk(lp["body"]))]
        outside = [n for n in inserts if n not in inside]
        ok = bool(inside) and all(o["sp"][3] < lp["sp"][3] for o in outside)
        ctx.inst(rid, "locals#parameters-last", ok, "%d non-parameter inserts (self name, inputs), all before the parameter loop: %s" % (len(outside), ok), H.loc(lp))
    else:
        ctx.inst(rid, "locals#parameters-last", None, "parameter-binding loop not identified", H.loc(hfc["body"]))


class _Only:
    """a view of ctx that records only the instances whose key matches"""

    def __init__(self, ctx, pred):
        self._ctx, self._pred = ctx, pred

    def inst(self, rule, key, ok, detail, loc, *a, **k):
        if self._pred(key):
            return self._ctx.inst(rule, key, ok, detail, loc, *a, **k)

    def rule(self, rule, doc, floor=None):
        # the rule is declared by the property that borrows the analysis; a shared analysis never overwrites that text or floor
        if rule not in self._ctx.rule_doc:
            self._ctx.rule(rule, doc, floor)

    def __getattr__(self, n):
        return getattr(self._ctx, n)


def free_variable_rule(ctx, rid, core, only=None):
    if only is not None:
        ctx = _Only(ctx, only)
    """the capture analysis against the evaluator's reads, recursion coverage, binder discipline (shared with C05: what is not captured cannot be inlined into the emitted source)"""
    hev = core.hir_fn(EVAL)
    env0 = S.Env()
    reads = set()
    for n, e, g in scope.sites(hev["body"], lambda n: H.kind(n) == "MethodCall" and n.get("def") == ENV + "get", env0):
        a = H.strip(n["args"][0])
        if H.kind(a) == "Lit":
            continue  # constant key ("inputs")
        lab = innermost_ast_arm(g)
        if lab == "Expr::Lambda":
            continue  # the capture loop at function creation (decided by R2), not a read during evaluation
        reads.add(lab)
    hcf = core.hir_fn(CFV)
    pnames = [H.pat_binds(p)[0] for p in hcf["params"]]
    vars_p, bound_p = pnames[1], pnames[2]
    collects = set()
    for n, e, g in scope.sites(hcf["body"], lambda n: H.kind(n) == "MethodCall" and n["name"] == "push" and H.path_local(n["recv"]) == vars_p, S.Env()):
        collects.add(innermost_ast_arm(g))
    for pos in sorted(reads | collects, key=str):
        ctx.inst(rid, "read-position=%s" % pos, pos in reads and pos in collects,
                 "evaluator reads the environment by an AST name here: %s; collect_free_variables collects here: %s" % (pos in reads, pos in collects), H.loc(hev["body"]))
    # recursion coverage
    m = [x_ for x_ in [H.main_match(hcf["body"], "ast::Expr")] if x_ is not None]
    if not m:
        raise CheckerError("collect_free_variables has no match on Expr")
    handled = set()
    for a in m[0]["arms"]:
        for v in H.pat_variants(a["pat"]):
            handled.add(H.last(v))
    expr_t = core.types[CORE + "ast::Expr"]
    for v in expr_t["variants"]:
        has_child = any(("ast::Expr" in f["ty"] or "ast::RecordEntry" in f["ty"] or "ast::Spanned" in f["ty"]) for f in v["fields"])
        if not has_child:
            continue
        ok = v["name"] in handled or v["name"] == "Output"
        ctx.inst(rid, "recurses-into=Expr::%s" % v["name"], ok,
                 "variant has an expression child; explicit arm: %s%s" % (v["name"] in handled, " (output declarations cannot occur inside a function body: grammar `statement` only)" if v["name"] == "Output" else ""), H.loc(hcf["body"]))
    # ... and into every expression-typed FIELD of the variant: a merged arm `Access { expr, .. } | DotAccess { expr, .. }` skips `index`
    vfields = {v["name"]: [f["name"] for f in v["fields"] if ("ast::Expr" in f["ty"] or "ast::RecordEntry" in f["ty"])] for v in expr_t["variants"]}
    for a in m[0]["arms"]:
        alts = a["pat"]["pats"] if H.kind(a["pat"]) == "Or" else [a["pat"]]
        used = {x["res"].get("local") for x in H.walk(a["body"]) if H.kind(x) == "Path" and x["res"].get("local") is not None}
        for alt in alts:
            q = alt
            while H.kind(q) == "Ref":
                q = q["pat"]
            if H.kind(q) not in ("Struct", "TupleStruct") or "ast::Expr::" not in (q["res"].get("def") or ""):
                continue
            vname = H.last(q["res"]["def"])
            if H.kind(q) == "Struct":
                bound = {f["name"]: (H.pat_binds(f["pat"]) or [None])[0] for f in q["fields"]}
            else:
                bound = {str(i_): (H.pat_binds(p_) or [None])[0] for i_, p_ in enumerate(q["pats"])}
            for fld in vfields.get(vname, []):
                b_ = bound.get(fld)
                if b_ is not None and b_ in used:
                    # ... and unconditionally: a child scanned only under a condition on the node (its operator, the child's own kind) is a
                    # child whose names are sometimes not captured
                    calls_ = [(n_, g_) for n_, e_, g_ in scope.sites(a["body"], lambda z: H.kind(z) == "Call" and z.get("def") == CFV and z.get("args") and any(H.path_local(y_) == b_ for y_ in H.walk(z["args"][0])), S.Env())]
                    direct_ = [c_ for c_ in calls_ if not any(gg_[0] in ("if", "arm") for gg_ in c_[1])]
                    if calls_ and not direct_ and not any(gg_[0] == "loop" for c_ in calls_ for gg_ in c_[1]):
                        ctx.inst(rid, "recurses-into=Expr::%s.%s" % (vname, fld), False, "expression child `%s` of %s is scanned only under a condition (%s)" % (fld, vname, H.loc(calls_[0][0])), H.loc(a["body"]))
                        continue
                ctx.inst(rid, "recurses-into=Expr::%s.%s" % (vname, fld), b_ is not None and b_ in used,
                         "expression child `%s` of %s is %s" % (fld, vname, "bound and visited" if (b_ is not None and b_ in used) else "not visited by this arm (its free variables are never captured)"), H.loc(a["body"]))
    mk = H.matches_on(hcf["body"], "ast::RecordKey")
    handled_k = set()
    for mm in mk:
        for a in mm["arms"]:
            for v in H.pat_variants(a["pat"]):
                handled_k.add(H.last(v))
    rk = core.types[CORE + "ast::RecordKey"]
    for v in rk["variants"]:
        needs = v["name"] in ("Dynamic", "Spread", "Shorthand")
        if needs:
            ctx.inst(rid, "recurses-into=RecordKey::%s" % v["name"], v["name"] in handled_k, "explicit arm for the record key kind: %s" % (v["name"] in handled_k), H.loc(hcf["body"]))
    # record entries: per key kind the capture analysis scans the parts the evaluator evaluates
    kinds_ = [v["name"] for v in core.types[CORE + "ast::RecordKey"]["variants"]]
    ev_parts = record_entry_parts(hev["body"], lambda n: H.kind(n) == "Call" and n.get("def") == EVAL, kinds_)
    cf_parts = record_entry_parts(hcf["body"], lambda n: H.kind(n) == "Call" and n.get("def") == CFV, kinds_)
    for kd in kinds_:
        if kd == "Shorthand":
            continue   # a name, not an expression: covered by read-position=RecordKey::Shorthand
        if ev_parts is None or cf_parts is None:
            ctx.inst(rid, "record-entry[%s]#parts" % kd, None, "the conditions on the key kind were not understood (evaluator: %s, capture analysis: %s)" % (ev_parts is not None, cf_parts is not None), H.loc(hcf["body"]))
            continue
        ctx.inst(rid, "record-entry[%s]#parts" % kd, ev_parts[kd] <= cf_parts[kd],
                 "for a %s entry the evaluator evaluates %s; the capture analysis scans %s" % (kd, sorted(ev_parts[kd]) or "nothing", sorted(cf_parts[kd]) or "nothing"), H.loc(hcf["body"]))
    # binder arms: `.insert` into a set that is a clone of bound, never `bound` itself
    k = 0
    for n, e, g in scope.sites(hcf["body"], lambda n: H.kind(n) == "MethodCall" and n["name"] in ("insert", "extend") and "HashSet" in n.get("recv_ty", ""), S.Env()):
        tgt = H.path_local(n["recv"])
        lab = innermost_ast_arm(g)
        ok = tgt != bound_p
        init = None
        if ok and tgt in e.inline:
            init = S.norm(e.inline[tgt][0], e.inline[tgt][1])
            ok = init == ("var", bound_p)  # clone() is stripped by the normaliser: `let mut x = bound.clone()`
        ctx.inst(rid, "binder[%s]#%d" % (lab, k), ok, "names are added to %r (%s): a scope-local copy of the bound set" % (tgt, S.show(init) if init else "the caller's set"), H.loc(n))
        k += 1
    # recursive calls inside binder arms pass the local copy
    for n, e, g in scope.sites(hcf["body"], lambda n: H.kind(n) == "Call" and n.get("def") == CFV, S.Env()):
        lab = innermost_ast_arm(g)
        if lab in ("Expr::Lambda", "Expr::DoBlock"):
            a = H.path_local(n["args"][2])
            ctx.inst(rid, "binder[%s]#recursion-uses-copy@%s" % (lab, a), a != bound_p, "recursive call in the binder arm passes %r" % a, H.loc(n))

    # binder order in do-blocks: `x = x + 1` reads the OUTER x, so the value is scanned before the name becomes bound
    for a in m[0]["arms"]:
        if "DoBlock" not in [H.last(v) for v in H.pat_variants(a["pat"])]:
            continue
        cands = []
        for n in H.walk(a["body"]):
            if H.kind(n) == "If" and H.kind(n["cond"]) == "LetExpr":
                cands.append((n["cond"]["pat"], n["then"]))
            if H.kind(n) == "Match":
                for aa in n["arms"]:
                    cands.append((aa["pat"], aa["body"]))
        k = 0
        for pat, body in cands:
            st = [x for x in H.walk(pat) if H.kind(x) == "Struct" and (x["res"].get("def") or "").endswith("ast::Expr::Assignment")]
            if not st:
                continue
            fb = {f["name"]: (H.pat_binds(f["pat"]) or [None])[0] for f in st[0]["fields"]}
            seq = list(H.walk(body))
            ins = [i for i, x in enumerate(seq) if H.kind(x) == "MethodCall" and x["name"] == "insert" and "HashSet" in x.get("recv_ty", "") and any(H.path_local(y) == fb.get("ident") for y in H.walk(x["args"][0]))]
            rec = [i for i, x in enumerate(seq) if H.kind(x) == "Call" and x.get("def") == CFV and any(H.path_local(y) == fb.get("value") for y in H.walk(x["args"][0]))]
            ok = bool(ins) and bool(rec) and max(rec) < min(ins)
            ctx.inst(rid, "binder[Expr::DoBlock]#value-before-name[%d]" % k, ok,
                     "in a do-block assignment the right-hand side is scanned for free variables (%d call(s)) before the assigned name joins the bound set (%d insert(s)): %s" % (len(rec), len(ins), ok), H.loc(body))
            k += 1
        if k == 0:
            ctx.inst(rid, "binder[Expr::DoBlock]#value-before-name", None, "no Assignment pattern found in the DoBlock arm", H.loc(a["body"]))

    special_names(ctx, rid, core)


def capture_at_creation(ctx, rid, core):
    """the Lambda arm of the evaluator collects the free names of the body once and looks each of them up in the defining environment
    (shared with C03: a name bound where the function was written never resolves to a caller's local)"""
    hev = core.hir_fn(EVAL)
    # capture at creation
    m0 = H.main_match(hev["body"], "ast::Expr")
    lam = None
    for a in m0["arms"]:
        if any(H.last(v) == "Lambda" for v in H.pat_variants(a["pat"])):
            lam = a
    if lam is None:
        raise CheckerError("no Lambda arm in evaluate_ast")
    cfv_calls = [n for n in H.walk(lam["body"]) if H.kind(n) == "Call" and n.get("def") == CFV]
    lam_binds = {}
    for st in H.walk(lam["pat"]):
        if H.kind(st) == "Struct" and (st["res"].get("def") or "").endswith("ast::Expr::Lambda"):
            lam_binds = {f["name"]: (H.pat_binds(f["pat"]) or [None])[0] for f in st["fields"]}
    body_v, args_v = lam_binds.get("body"), lam_binds.get("args")

    def rooted_at(n, local):
        """n is `local`, or a method chain / reference / clone whose innermost receiver is `local`"""
        n = H.strip(n)
        for _ in range(12):
            if H.path_local(n) == local:
                return True
            if H.kind(n) == "MethodCall":
                n = H.strip(n["recv"])
                continue
            return False
        return False

    if len(cfv_calls) != 1:
        ctx.inst(rid, "capture#from-definition-environment", False if not cfv_calls else None, "the Lambda arm calls collect_free_variables %d time(s)" % len(cfv_calls), H.loc(lam["body"]))
        ctx.inst(rid, "capture#parameters-excluded", None, "not decided without a single capture analysis call", H.loc(lam["body"]))
    else:
        cc = cfv_calls[0]
        on_body = body_v is not None and H.path_local(cc["args"][0]) == body_v
        V = H.path_local(cc["args"][1])
        B = H.path_local(cc["args"][2])
        # every collected name is looked up in the defining environment: an Environment::get whose key is the element of an iteration over V
        gets = [x for x in H.walk(lam["body"]) if H.kind(x) == "MethodCall" and x.get("def") == ENV + "get"]
        looked_up = None
        for x in H.walk(lam["body"]):
            if H.kind(x) == "For" and rooted_at(x["iter"], V):
                v = (H.pat_binds(x["pat"]) or [None])[0]
                looked_up = any(H.contains_local(g_["args"][0], v) for g_ in gets if any(y is g_ for y in H.walk(x["body"])))
            if H.kind(x) == "MethodCall" and x["name"] in ("map", "filter_map", "filter", "for_each", "flat_map", "try_for_each") and rooted_at(x["recv"], V) and x["args"] and H.kind(H.strip(x["args"][0])) == "Closure":
                clo = H.strip(x["args"][0])
                ps = [bn for p_ in clo.get("params", []) for bn in H.pat_binds(p_)]
                if any(any(H.contains_local(g_["args"][0], p_) for p_ in ps) for g_ in gets if any(y is g_ for y in H.walk(clo["body"]))):
                    looked_up = True
                elif looked_up is None:
                    looked_up = False
        verdict1 = False if not gets else (None if looked_up is None else bool(on_body and looked_up))
        # every collected name is visited: an adapter that can end or thin out the walk over the names leaves later names uncaptured
        cut = []
        for x in H.walk(lam["body"]):
            if H.kind(x) == "MethodCall" and x["name"] in ("take_while", "take", "skip", "skip_while", "step_by", "nth", "map_while") and rooted_at(x["recv"], V):
                cut.append("%s at %s" % (x["name"], H.loc(x)))
        if cut:
            verdict1 = False
        # what is captured is computed from this function literal and this environment, every time: a table kept between evaluations
        # (keyed by source offsets, which repeat across input functions, REPL lines and cells) hands a closure another closure's names
        kept = sorted({(x["res"].get("def") or "") for x in H.walk(lam["body"]) if H.kind(x) == "Path" and isinstance(x.get("res"), dict) and x["res"].get("dk") in ("Static", "Const")
                       and re.search(r"LocalKey|Mutex|RwLock|RefCell|OnceLock|LazyLock|Atomic", x.get("ty") or "")})
        if kept:
            verdict1 = False
            ctx.inst(rid, "capture#stateless", False, "the function-literal arm reads / writes %s: the captured names of one literal can come from an earlier one" % kept, H.loc(lam["body"]))
        else:
            ctx.inst(rid, "capture#stateless", True, "the function-literal arm keeps nothing between evaluations", H.loc(lam["body"]))
        ctx.inst(rid, "capture#from-definition-environment", verdict1,
                 "free names of the body are collected once (on the body: %s) and each is looked up in the defining environment: %s" % (on_body, looked_up), H.loc(lam["body"]))
        # parameters are excluded: the bound set handed to the analysis is seeded from the parameter list
        seeded = None
        for x in H.walk(lam["body"]):
            if H.kind(x) == "For" and args_v is not None and rooted_at(x["iter"], args_v) and any(H.kind(y) == "MethodCall" and y["name"] == "insert" and H.path_local(y["recv"]) == B for y in H.walk(x["body"])):
                seeded = True
            if H.kind(x) == "MethodCall" and x["name"] == "extend" and H.path_local(x["recv"]) == B and args_v is not None and any(rooted_at(a_, args_v) for a_ in x["args"]):
                seeded = True
            if H.kind(x) == "Let" and H.kind(x.get("pat")) == "Bind" and x["pat"]["name"] == B and x.get("init") is not None:
                if args_v is not None and rooted_at(x["init"], args_v):
                    seeded = True
                elif seeded is None and H.kind(H.strip(x["init"])) == "Call" and H.last(H.strip(x["init"]).get("def") or "") == "new":
                    seeded = False  # starts empty: must be filled by one of the forms above
        ctx.inst(rid, "capture#parameters-excluded", seeded, "the bound set handed to the capture analysis is seeded with the parameter names: %s" % seeded, H.loc(lam["body"]))



def positional_binding(ctx, rid, core):
    """every parameter is bound on every call: required from its position (or an error), optional from its position or null, the rest
    parameter to the list of what remains (shared with C03: an unbound parameter would let an outer name of the same spelling show through)"""
    # positional binding
    hfc = core.hir_fn(FCALL)
    param_loop = [lp for lp in [n for n in H.walk(hfc["body"]) if H.kind(n) == "For"] if any(H.kind(x) == "Match" and x["scrut"].get("ty", "").endswith("values::LambdaArg") for x in H.walk(lp["body"]))]
    if len(param_loop) == 1:
        lp = param_loop[0]
        binds = H.pat_binds(lp["pat"])
        it = S.norm(lp["iter"], S.Env())
        enum_ok = S.contains_call(it, "enumerate")
        idxn = binds[0] if binds else None
        mm = [x for x in H.walk(lp["body"]) if H.kind(x) == "Match" and x["scrut"].get("ty", "").endswith("values::LambdaArg")][0]
        for aa in mm["arms"]:
            cls = "|".join(H.last(v) for v in H.pat_variants(aa["pat"]))
            env = S.Env(roles={idxn: ("idx",), H.param_by_type(hfc, "Vec<blots_core::values::Value>", "args"): ("args",)})
            ins = [x for x in H.walk(aa["body"]) if H.kind(x) == "MethodCall" and x["name"] == "insert"]
            val = None
            if ins:
                sc = scope.sites(aa["body"], lambda n: n is ins[0], env)
                val = S.norm(ins[0]["args"][1], sc[0][1]) if sc else None
            GET = ("call", "get", ("args",), ("idx",))
            NULL = ("path", CORE + "values::Value::Null")
            # the insert itself is unconditional within the arm (an `if let Some(..) = args.get(idx..)` around it leaves the parameter unbound)
            cond_insert = bool(ins) and any(H.kind(x) in ("If", "Match") and any(y is ins[0] for y in H.walk(x)) and x is not mm for x in H.walk(aa["body"]))

            def none_arm(v):
                """what a `match args.get(idx) { Some(a) => a, None => X }` answers for a missing argument: the X, or None"""
                if isinstance(v, tuple) and v and v[0] == "match" and v[1] == GET:
                    for pat_, body_ in v[2]:
                        if pat_ == ("None",):
                            return body_
                return None
            if cls == "Required":
                na = none_arm(val) if val is not None else None
                if val is None:
                    ok = None
                elif S.contains_head(val, "index"):
                    ok = False   # args[idx]: a missing argument panics
                elif val[0] == "try" and S.contains(val, GET):
                    ok = True
                elif na is not None:
                    ok = False if na == NULL else (True if (na[0] in ("ret", "unit") or S.contains(na, "Err")) else None)
                elif S.contains_call(val, "unwrap_or") or S.contains_call(val, "unwrap_or_default"):
                    ok = False   # a missing required argument is silently defaulted
                else:
                    ok = None
                d = "value = %s (missing argument is an error, never an out-of-range index or a default)" % (S.show(val)[:120] if val else None)
            elif cls == "Optional":
                na = none_arm(val) if val is not None else None
                if val is None:
                    ok = None
                elif val == ("call", "unwrap_or", GET, NULL) or na == NULL:
                    ok = True
                elif S.contains_head(val, "index") or val[0] == "try" or (na is not None and na != NULL):
                    ok = False   # an omitted optional argument is an error / a panic / something other than null
                elif S.contains_call(val, "unwrap_or") and not S.contains(val, NULL):
                    ok = False
                else:
                    ok = None
                d = "value = %s (an omitted optional argument is null)" % (S.show(val)[:120] if val else None)
            elif cls == "Rest":
                if val is None:
                    ok = None
                elif cond_insert:
                    ok = False
                elif any(H.kind(x) == "If" and sum(1 for y in H.walk(x["cond"]) if H.kind(y) == "MethodCall" and y["name"] == "len") >= 2 for x in H.walk(aa["body"])):
                    ok = False   # what the rest parameter gets depends on comparing the argument count with the parameter count, not on its own position
                elif S.contains_head(val, "index") or any(H.kind(x) == "Index" and H.kind(H.strip(x["i"])) == "Struct" and "ops::range" in (H.strip(x["i"])["res"].get("def") or "") for x in H.walk(aa["body"])):
                    ok = False   # args[idx..]: panics when an optional parameter before the rest was omitted (idx > len)
                elif S.contains(val, NULL) or S.contains_call(val, "unwrap_or") or S.contains_call(val, "unwrap_or_default"):
                    ok = False   # the rest parameter is a list on every call, the empty one when nothing remains - never null
                elif S.contains(val, ("call", "collect", ("call", "skip", ("args",), ("idx",)))) and S.contains_call(val, "insert_list"):
                    ok = True
                else:
                    ok = None
                d = "value = %s (the remaining arguments as a list, bound on every call%s)" % (S.show(val)[:140] if val else None, "" if not cond_insert else " - here the insert is conditional")
            else:
                ok, d = None, "unknown parameter class"
            if cls in ("Required", "Optional") and cond_insert and ok is not False:
                ok = None
            ctx.inst(rid, "bind[%s]" % cls, ok if (ok is not True or enum_ok) else None, d, H.loc(aa["body"]))


def call_arguments_in_order(ctx, rid, core):
    """the argument vector a call hands over lists the arguments in the order they were written, a spread argument's elements in place
    (shared with C15: `sum(...xs, b)`)"""
    hev = core.hir_fn(EVAL)
    mev = H.main_match(hev["body"], "ast::Expr")
    call_arm = next((a_ for a_ in (mev["arms"] if mev else []) if any(H.last(v_) == "Call" for v_ in H.pat_variants(a_["pat"]))), None)
    if call_arm is None:
        ctx.inst(rid, "Call#arguments-in-order", None, "no Call arm found in the evaluator", None)
        return
    verdict, detail = None, "no loop that flattens spread arguments was recognised"
    for lp in H.walk(call_arm["body"]):
        if H.kind(lp) != "For":
            continue
        for m_ in H.walk(lp["body"]):
            if H.kind(m_) != "Match":
                continue
            sp_arms = [a_ for a_ in m_["arms"] if any(H.last(v_) == "Spread" for v_ in H.pat_variants(a_["pat"]))]
            other = [a_ for a_ in m_["arms"] if a_ not in sp_arms]
            if not sp_arms or not other:
                continue
            def sinks(arms_):
                return {H.path_local(x["recv"]) for a_ in arms_ for x in H.walk(a_["body"]) if H.kind(x) == "MethodCall" and x["name"] in ("push", "extend", "append", "extend_from_slice", "insert", "push_back", "push_front")} - {None}
            s1, s2 = sinks(sp_arms), sinks(other)
            fronts = [x["name"] for a_ in sp_arms + other for x in H.walk(a_["body"]) if H.kind(x) == "MethodCall" and x["name"] in ("insert", "push_front")]
            if s1 and s2:
                verdict = (s1 == s2 and len(s1) == 1 and not fronts)
                detail = "spread elements go to %s, plain arguments to %s%s" % (sorted(s1), sorted(s2), "" if verdict else ": the arguments no longer arrive in the order they were written")
    # the flattening is unconditional: a test on where the spreads sit (`if last is a spread { flatten } else { as they are }`) hands
    # unexpanded spread values to the callee in the shapes the test does not expect
    for i_ in H.walk(call_arm["body"]):
        if H.kind(i_) == "If" and any(H.kind(x) == "MethodCall" and x["name"] in ("is_spread", "last", "first", "any", "all", "position") for x in H.walk(i_["cond"])):
            has_loop = any(H.kind(x) == "For" and any(H.kind(m_) == "Match" and any(H.last(v_) == "Spread" for a_ in m_["arms"] for v_ in H.pat_variants(a_["pat"])) for m_ in H.walk(x["body"])) for x in H.walk(i_["then"]))
            if has_loop and i_.get("else") is not None:
                verdict, detail = False, "the loop that expands spread arguments runs only under a test (%s); otherwise the evaluated arguments are handed over as they are" % H.loc(i_["cond"])
    ctx.inst(rid, "Call#arguments-in-order", verdict, detail, H.loc(call_arm["body"]))


def call_site_independent(ctx, rid, core):
    """no condition in FunctionDef::call reads the caller's environment other than the constant `inputs` (shared with C03: the self
    name is bound whatever names the caller can see)"""
    # nothing about how the body's environment is put together is decided by looking at the caller's environment: the one read of it
    # is the session-constant `inputs`
    hfc = core.hir_fn(FCALL)
    envp = [H.pat_binds(p_)[0] for p_, t_ in zip(hfc["params"], hfc["inputs"]) if "environment::Environment" in t_ and H.pat_binds(p_)]
    n_cs = 0
    for x in H.walk(hfc["body"]):
        c_ = x["cond"] if H.kind(x) == "If" else (x["scrut"] if H.kind(x) == "Match" else None)
        if c_ is None:
            continue
        reads = [y for y in H.walk(c_) if H.kind(y) == "MethodCall" and any(H.path_local(z) in envp for z in H.walk(y["recv"]) if H.kind(z) == "Path")]
        bare = [y for y in H.walk(c_) if H.kind(y) == "Path" and H.path_local(y) in envp]
        if not bare:
            continue
        const_inputs = reads and all(y["name"] == "get" and y["args"] and H.lit(y["args"][0]) is not None and H.lit(y["args"][0])["v"] == "inputs" for y in reads)
        if const_inputs:
            continue
        n_cs += 1
        ctx.inst(rid, "body-env#decided-by-caller-environment[%s]" % ",".join(sorted({y["name"] for y in reads}) or ["-"]), False,
                 "a condition in FunctionDef::call reads the caller's environment (%s): what the body sees then depends on the call site" % H.loc(c_), H.loc(x))
    ctx.inst(rid, "body-env#call-site-independent", n_cs == 0, "conditions in FunctionDef::call that read the caller's environment (other than the constant `inputs`): %d" % n_cs, H.loc(hfc["body"]))


def run(ctx):
    core = ctx.core
    ctx.not_decided += ["that a given closure returns the same value everywhere (the chain deliberately falls back to the caller's environment for names unbound at definition, which the statement excludes by its premise)"]

    # ---------------- R1 free-variable analysis <=> evaluator reads
    ctx.rule("C04.R1", "the AST positions at which the evaluator reads the environment by a name taken from the AST are exactly the positions from which collect_free_variables collects a name; it recurses into every Expr / RecordKey variant that has an expression child; binder arms extend a copy of the bound set, never the caller's", floor=8)
    free_variable_rule(ctx, "C04.R1", core)
    hev = core.hir_fn(EVAL)

    # ---------------- R4 a function's self name is fixed
    from rules import c02
    c02.heap_write_once(ctx, "C04.R4", core, [core, ctx.cli, ctx.wasm], M.CallGraph([core, ctx.cli, ctx.wasm]),
                        doc="a closure is immutable after creation: heap cells are only appended and the one in-place write (LambdaDef.name, the self-reference bound at call time) happens only while the name is unset, so aliasing a function cannot change which names its body sees")

    # ---------------- R2 scope-chain construction
    ctx.rule("C04.R2", "a function body runs in extend_with(parent, locals) where parent is the caller's environment extended by the captured scope; parameters are inserted into the locals after the self name and `inputs` (so they win); the captured scope is built from bindings.get(name) for exactly the collected names", floor=5)
    fc = M.Fn(core.mir_fn(FCALL), FCALL)
    calls = fc.calls_to(EVAL)
    for b in calls:
        roots0 = fc.trace(fc.term(b)["args"][2])
        roots = roots0
        ok = bool(roots) and all(r[0] == "call" and r[1] == ENV + "extend_with" for r in roots)
        if not ok:
            # built by a private helper (`body_environment(scope, bindings, locals)`): judged by what the helper returns; the layering
            # inside the helper is then not followed further (no verdict on parent / captured scope below)
            followed = M.follow_returns(M.CallGraph([core]), roots0, keep=lambda c_: c_.startswith(ENV))
            if followed and all(r[0] == "call" and r[1] == ENV + "extend_with" for r in followed):
                ok = None
            elif any(r[0] == "param" or (r[0] == "call" and r[1] in (ENV + "new", ENV + "extend", ENV + "extend_shared")) for r in followed):
                ok = False
            else:
                ok = None
        ctx.inst("C04.R2", "body-env", ok, "body environment: %s" % [r[:2] for r in roots], fc.loc(b))
        for r in roots:
            if r[0] == "call" and r[1] == ENV + "extend_with":
                t = fc.term(r[2])
                proots = fc.trace(t["args"][0])
                okp = bool(proots) and all((x[0] == "param") or (x[0] == "call" and x[1] == ENV + "extend_shared") for x in proots)
                if not okp and proots and all((x[0] == "param") or (x[0] == "call" and (x[1] == ENV + "extend_shared" or (x[1].startswith(CORE) and not x[1].startswith(ENV)))) for x in proots):
                    okp = None   # the parent is computed by a helper of the crate (lambda_parent_env): what it returns is not followed here
                ctx.inst("C04.R2", "body-env#parent", okp, "parent of the body environment: %s (caller's environment, or extend_shared(caller, captured scope))" % [x[:2] for x in proots], fc.loc(r[2]))
                for x in proots:
                    if x[0] == "call" and x[1] == ENV + "extend_shared":
                        t2 = fc.term(x[2])
                        a0, a1 = fc.trace(t2["args"][0]), fc.trace(t2["args"][1])
                        oks = all(y[0] == "param" for y in a0) and all(y[0] in ("call", "param") and ("scope" in (y[2] if y[0] == "param" else y[3]) or (y[0] == "call" and y[1].endswith("CapturedScope::as_rc"))) for y in a1)
                        ctx.inst("C04.R2", "body-env#captured-scope", oks, "extend_shared(%s, %s)" % ([y[:2] for y in a0], [y[:2] for y in a1]), fc.loc(x[2]))
    parameters_last(ctx, "C04.R2", core)
    # the self name is bound to the function that is being called - at every call site the `this` argument is the value the
    # definition was taken from (an operand handed over instead makes a recursive function call its own argument)
    from rules import c13 as c13__
    c13__.this_pairing(ctx, "C04.R2", core)
    call_site_independent(ctx, "C04.R2", core)
    capture_at_creation(ctx, "C04.R2", core)
    capture_by_name(ctx, "C04.R2", core)

    # ---------------- R6 the exported function carries its captured values
    ctx.rule("C04.R6", "a function that leaves the process (output / to_string / JSON) carries the values it captured: the inliner substitutes the captured value at every position where the evaluator reads a name (identifier, record shorthand), whatever the name - and never over a nested function's own parameter, which is removed from the substituted values unconditionally", floor=3)
    from rules import printers as P_
    P_.R8_binders(_Only(ctx, lambda k_: k_.startswith("substitution") or k_.startswith("binder=Expr::Lambda")), "C04.R6", core)

    # ---------------- R7 optional and rest parameters stay optional and rest in emitted source
    ctx.rule("C04.R7", "a function that leaves the process keeps its parameter kinds: every printer of a parameter list writes `name`, `name?`, `...name` by kind, so the reloaded function accepts the argument counts the original accepted (optional ones default to null, the rest parameter collects)", floor=4)
    from rules import symprint as symprint_
    symprint_.param_markers(ctx, "C04.R7", core, scope_fns=("ast_to_source",), declare=False)

    # ---------------- R5 a parameter is bound under the name the user wrote
    from lib.peg import Grammar as G_
    from rules import c10 as c10_
    ctx.rule("C04.R5", "a parameter's name is the identifier the user wrote: the AST builder takes it from the identifier token, not from the text of the whole `name?` / `...name` parameter (which may contain the spaces the grammar admits between the parts - the parameter would be bound under a name with a space and the real name would dangle)", floor=3)
    c10_.names_from_tokens(_Only(ctx, lambda k_: "LambdaArg" in k_ or k_ == "sites"), "C04.R5", core, G_(ctx.grammar), declare=False)

    # ---------------- R3 arity classes and positional binding
    ctx.rule("C04.R3", "the three arity classes are tested identically in check_arity's built-in copy, its lambda copy and can_accept (== n; >= min; >= min && <= max); get_arity classifies by rest / all-required / optional; required, optional and rest parameters bind positionally", floor=10)
    hca = core.hir_fn(CORE + "functions::FunctionDef::check_arity")
    argn = H.pat_binds(hca["params"][1])[0]
    want = {"Exact": ("bin", "Eq", ("n",), ("pb", 0)), "AtLeast": ("bin", "Ge", ("n",), ("pb", 0)),
            "Between": ("bin", "And", ("bin", "Ge", ("n",), ("pb", 0)), ("bin", "Le", ("n",), ("pb", 1)))}
    # every match on the arity class inside check_arity (one per copy today; one in all after de-duplication)
    mms = [n for n in H.walk(hca["body"]) if H.kind(n) == "Match" and n["scrut"].get("ty", "").lstrip("&").endswith("FunctionArity")]
    if not mms:
        ctx.inst("C04.R3", "check_arity", None, "no match on the arity class found in check_arity", H.loc(hca["body"]))
    for mi, mm in enumerate(mms):
        for aa in mm["arms"]:
            cls = "|".join(H.last(v) for v in H.pat_variants(aa["pat"]))
            env = S.Env(roles={argn: ("n",)})
            positional(aa["pat"], env)
            ifs = [n for n in H.walk(aa["body"]) if H.kind(n) == "If"]
            ok, d = None, "no `if` test in the arm"
            if ifs:
                c = S.norm(ifs[0]["cond"], env)
                then_ok = S.norm(ifs[0]["then"], env) in (("ctor", "Ok", ("tup",)), ("tup",))
                els = S.norm(ifs[0]["else"], env) if ifs[0].get("else") else None
                err_else = els is not None and S.contains(els, "Err") or (els is not None and els[0] == "ctor" and els[1] == "Err")
                ok = S.verdict(c, want.get(cls)) if (then_ok and err_else) else False
                d = "accepts iff %s; Ok on true: %s; Err otherwise: %s" % (S.show(c), then_ok, err_else)
            ctx.inst("C04.R3", "check_arity#%d[%s]" % (mi, cls), ok, d, H.loc(aa["body"]))
    can_accept_rule(ctx, "C04.R3", core)
    hga = core.hir_fn(CORE + "values::LambdaDef::get_arity")
    t = S.norm(hga["body"], S.Env())
    ARGSF = ("field", "args", ("var", "self"))
    REQ = ("call", "count", ("call", "filter", ARGSF, ("closure", ("call", "is_required", ("cp", 0)))))
    wantg = ("if", ("call", "any", ARGSF, ("closure", ("call", "is_rest", ("cp", 0)))), ("ctor", "AtLeast", REQ),
             ("if", ("bin", "Eq", REQ, ("call", "len", ARGSF)), ("ctor", "Exact", REQ), ("ctor", "Between", REQ, ("call", "len", ARGSF))))
    vga = S.verdict(t, wantg)
    if vga is not True:
        # any other spelling of the same decision (a match on the pair of tests, early returns): evaluate it for the three cases
        HAS_REST = ("call", "any", ARGSF, ("closure", ("call", "is_rest", ("cp", 0))))
        ALL_REQ = ("bin", "Eq", REQ, ("call", "len", ARGSF))
        ALL_REQ2 = ("bin", "Eq", ("call", "len", ARGSF), REQ)

        def decide(term, assign, depth=0):
            if depth > 12 or not isinstance(term, tuple) or not term:
                return term
            if term in assign:
                return ("lit", "true") if assign[term] else ("lit", "false")
            if term[0] == "un" and term[1] == "Not":
                v_ = decide(term[2], assign, depth + 1)
                return ("lit", "false") if v_ == ("lit", "true") else (("lit", "true") if v_ == ("lit", "false") else term)
            if term[0] == "if":
                c_ = decide(term[1], assign, depth + 1)
                if c_ == ("lit", "true"):
                    return decide(term[2], assign, depth + 1)
                if c_ == ("lit", "false") and len(term) > 3:
                    return decide(term[3], assign, depth + 1)
                return ("?", "if")
            if term[0] == "match":
                sc = decide(term[1], assign, depth + 1)
                if sc[0] == "tup":
                    sc = ("tup",) + tuple(decide(x_, assign, depth + 1) for x_ in sc[1:])
                for pat_, body_ in term[2]:
                    def m_(p_, v_):
                        if p_ == ("_",):
                            return True
                        if p_[0] == "tup" and v_[0] == "tup" and len(p_) == len(v_):
                            return all(m_(a_, b_) for a_, b_ in zip(p_[1:], v_[1:]))
                        return p_ == v_
                    if m_(pat_, sc):
                        return decide(body_, assign, depth + 1)
                return ("?", "match")
            return term
        cases = [({HAS_REST: True, ALL_REQ: True, ALL_REQ2: True}, ("ctor", "AtLeast", REQ)), ({HAS_REST: True, ALL_REQ: False, ALL_REQ2: False}, ("ctor", "AtLeast", REQ)),
                 ({HAS_REST: False, ALL_REQ: True, ALL_REQ2: True}, ("ctor", "Exact", REQ)), ({HAS_REST: False, ALL_REQ: False, ALL_REQ2: False}, ("ctor", "Between", REQ, ("call", "len", ARGSF)))]
        got_ = [decide(t, a_) for a_, _w in cases]
        if all(g_ == w_ for g_, (_a, w_) in zip(got_, cases)):
            vga = True
        elif any(isinstance(g_, tuple) and g_ and g_[0] == "ctor" and g_[1] in ("AtLeast", "Exact", "Between") and g_ != w_ for g_, (_a, w_) in zip(got_, cases)):
            vga = False   # a decided case answers with another class or another bound
        else:
            vga = None
    ctx.inst("C04.R3", "get_arity", vga, "classification: %s" % S.show(t)[:300], H.loc(hga["body"]))
    positional_binding(ctx, "C04.R3", core)
    call_arguments_in_order(ctx, "C04.R3", core)
    # arity is checked before anything is bound or evaluated
    chk = fc.calls_to(CORE + "functions::FunctionDef::check_arity")
    body_calls = fc.calls_to(EVAL) + fc.calls_to(CORE + "functions::BuiltInFunction::call")
    okd = len(chk) == 1 and all(fc.dominates(chk[0], b) for b in body_calls)
    ctx.inst("C04.R3", "check_arity-dominates-call", okd, "check_arity(args.len())? dominates the body evaluation and the built-in dispatch: %s" % okd, fc.loc(chk[0]) if chk else None)


def special_names(ctx, rid, core):
    """what the evaluator resolves before the environment lookup is exactly what the capture analysis skips (shared with C05)"""
    hev = core.hir_fn(EVAL)
    hcf = core.hir_fn(CFV)
    m = [x_ for x_ in [H.main_match(hcf["body"], "ast::Expr")] if x_ is not None]
    if not m:
        raise CheckerError("collect_free_variables has no match on Expr")
    # special names: what the evaluator resolves before the environment lookup is exactly what the capture analysis skips
    ev_arms = {}
    mev = [x_ for x_ in [H.main_match(hev["body"], "ast::Expr")] if x_ is not None]
    for a in (mev[0]["arms"] if mev else []):
        for v in H.pat_variants(a["pat"]):
            ev_arms[H.last(v)] = a
    special_ev = set()
    if "Identifier" in ev_arms:
        for n in H.walk(ev_arms["Identifier"]["body"]):
            if H.kind(n) == "Match":
                for aa in n["arms"]:
                    for x in H.walk(aa["pat"]):
                        if H.kind(x) == "Lit" and x["lk"] == "str":
                            special_ev.add(x["v"])
    special_cf = set()
    for a in m[0]["arms"]:
        if "Identifier" in [H.last(v) for v in H.pat_variants(a["pat"])]:
            special_cf |= set(H.str_lits(a, core))  # literals, or a named table of them
    for nm in sorted(special_ev | special_cf):
        ctx.inst(rid, "special-name=%s" % nm, nm in special_ev and nm in special_cf,
                 "resolved by the evaluator before the environment lookup: %s; skipped by collect_free_variables: %s (a name in one set only is either captured although it is never read, or reported unbound although it always resolves)" % (nm in special_ev, nm in special_cf), H.loc(hcf["body"]))


ARITY_WANT = {"Exact": ("bin", "Eq", ("n",), ("pb", 0)), "AtLeast": ("bin", "Ge", ("n",), ("pb", 0)),
              "Between": ("bin", "And", ("bin", "Ge", ("n",), ("pb", 0)), ("bin", "Le", ("n",), ("pb", 1)))}


def can_accept_rule(ctx, rid, core):
    """FunctionArity::can_accept(n) is `n == k` / `n >= min` / `min <= n <= max` (shared with C13: it decides whether a callback gets the index)"""
    hcan = core.hir_fn(CORE + "values::FunctionArity::can_accept")
    nn = H.pat_binds(hcan["params"][1])[0]
    mt = H.final_expr(hcan["body"])
    if H.kind(mt) != "Match":
        # not a single match: specialise the body for each arity class (lib/pe: matches on the known class resolved, helper
        # methods of the same type looked through, Option combinators on a known Some/None reduced) and read off the bounds on n
        from lib import pe as PE_
        ev = PE_.PE(core, CORE + "values::FunctionArity::")
        N = ("sym", "n")
        want = {"Exact": ({("incl", ("sym", "f0"))}, {("incl", ("sym", "f0"))}), "AtLeast": ({("incl", ("sym", "f0"))}, set()),
                "Between": ({("incl", ("sym", "f0"))}, {("incl", ("sym", "f1"))})}
        self_name = H.pat_binds(hcan["params"][0])[0] if H.pat_binds(hcan["params"][0]) else "self"
        for v_ in core.types[CORE + "values::FunctionArity"]["variants"]:
            cls = v_["name"]
            val = ("variant", cls, tuple(("sym", "f%d" % i) for i in range(len(v_["fields"]))))
            t = ev.ev(core.hir[CORE + "values::FunctionArity::can_accept"]["body"], {self_name: val, nn: N})
            iv = PE_.interval(t, N)
            if cls not in want or PE_.has_unk(t) or iv is None:
                ok = None
            else:
                ok = (iv is not False) and iv == want[cls]
            ctx.inst(rid, "can_accept[%s]" % cls, ok, "specialised for %s(..): accepts iff %s" % (cls, (t,)), H.loc(hcan["body"]))
        return
    for aa in mt["arms"]:
        cls = "|".join(H.last(v) for v in H.pat_variants(aa["pat"]))
        env = S.Env(roles={nn: ("n",)})
        positional(aa["pat"], env)
        c = S.norm(aa["body"], env)
        ctx.inst(rid, "can_accept[%s]" % cls, S.verdict(c, ARITY_WANT.get(cls)), "accepts iff %s" % S.show(c), H.loc(aa["body"]))
