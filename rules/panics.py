"""C01.R14 - explicit `panic!` / `unreachable!` / `todo!` / `unimplemented!` sites are discharged.

Every such macro call in the three crates (tests and pest-generated code aside) is an instance. A site holds when the values
that can reach its match arm are excluded by construction:
  (G) a catch-all arm of `match x.as_rule()`: the pair kinds the grammar can put where x comes from all have explicit arms;
  (N) a catch-all arm of a match on an enum local nested in an arm of an outer match on the same local: the inner explicit
      arms cover the outer arm's variants;
  (B) an explicit arm on an enum local: its variants were all answered before - by an earlier statement that returns for
      them, or by an earlier guarded arm `.. if op == V` of an enclosing match whose pattern subsumes this arm's pattern;
  (T) an arm on a field of `self` (a kind fixed at construction): no value built by the constructor of the panicking kind
      flows anywhere but into another constructor of the same type.
A site is violated when the analysis is exact and leaves a kind that reaches the arm; anything else is undecided."""
from lib import hir as H
from lib import mir as M

PANIC_MACROS = {"panic", "unreachable", "todo", "unimplemented"}
ITER_PASS = {"filter", "skip", "peekable", "by_ref", "rev", "clone", "into_iter", "iter", "skip_while", "take_while", "filter_map_"}
PAIR_PASS = {"unwrap", "expect", "clone", "unwrap_or_else"}
NEXT_LIKE = {"next", "peek", "last", "nth", "next_back", "find"}


class Frame:
    """one step of the path from the function body down to the site"""

    def __init__(self, kind, node, extra=None):
        self.kind, self.node, self.extra = kind, node, extra


def sites_with_path(body, pred=None):
    """[(macro node, [Frame...])] - frames: ('block', block, index of the statement being descended into) |
    ('arm', match, arm index) | ('for', for node) | ('closure', closure node, (method call it is an argument of | None))
    | ('if', if node, branch)"""
    out = []

    def go(n, path, parent_call=None):
        if isinstance(n, list):
            for x in n:
                go(x, path, parent_call)
            return
        if not isinstance(n, dict):
            return
        k = H.kind(n)
        if pred is None and k == "Macro" and n.get("name") in PANIC_MACROS:
            out.append((n, list(path)))
            return
        if pred is not None and pred(n):
            out.append((n, list(path)))
        if k == "Block":
            for i, s in enumerate(n["stmts"]):
                f = Frame("block", n, i)
                if s["k"] == "Let":
                    if s.get("init") is not None:
                        go(s["init"], path + [f])
                    if s.get("els") is not None:
                        go(s["els"], path + [f, Frame("letelse", s)])
                elif s["k"] in ("Expr", "Semi"):
                    go(s["e"], path + [f])
            if n.get("expr") is not None:
                go(n["expr"], path + [Frame("block", n, len(n["stmts"]))])
            return
        if k == "Match":
            go(n["scrut"], path)
            for i, a in enumerate(n["arms"]):
                f = Frame("arm", n, i)
                if a.get("guard") is not None:
                    go(a["guard"], path + [f])
                go(a["body"], path + [f])
            return
        if k == "For":
            go(n["iter"], path)
            go(n["body"], path + [Frame("for", n)])
            return
        if k == "Closure":
            go(n["body"], path + [Frame("closure", n, parent_call)])
            return
        if k == "If":
            go(n["cond"], path)
            go(n["then"], path + [Frame("if", n, True)])
            if n.get("else") is not None:
                go(n["else"], path + [Frame("if", n, False)])
            return
        if k == "MethodCall":
            go(n["recv"], path)
            for a in n.get("args", []):
                go(a, path, n)
            return
        for key, v in n.items():
            if key in ("sp", "ty", "res"):
                continue
            if isinstance(v, (dict, list)):
                go(v, path)
    go(body, [])
    return out


def arm_variants(arm, marker):
    """variant names of an arm's pattern that belong to the enum `marker` (e.g. '::Rule::'); None for a catch-all"""
    p = arm["pat"]
    while H.kind(p) == "Ref":
        p = p["pat"]
    if H.kind(p) in ("Wild", "Bind") and (H.kind(p) == "Wild" or p.get("sub") is None):
        return None
    return {H.last(v) for v in H.pat_variants(arm["pat"]) if marker in v}


def diverges(e):
    """the expression always leaves the function (return / panic) - syntactic"""
    e = H.strip(e)
    k = H.kind(e)
    if k in ("Ret", "Continue", "Break"):
        return True
    if k == "Macro" and e.get("name") in PANIC_MACROS:
        return True
    if k == "Block":
        if e.get("expr") is not None:
            return diverges(e["expr"])
        if e["stmts"]:
            s = e["stmts"][-1]
            return s["k"] in ("Expr", "Semi") and diverges(s["e"])
        return False
    if k == "If":
        return e.get("else") is not None and diverges(e["then"]) and diverges(e["else"])
    if k == "Match":
        return bool(e["arms"]) and all(diverges(a["body"]) for a in e["arms"])
    if k in ("Call", "MethodCall") and (e.get("ty") or "") == "!":
        return True
    return False


def pat_subsumes(p, q):
    """every value matched by q is matched by p (structural, conservative: False when unsure)"""
    while H.kind(p) == "Ref":
        p = p["pat"]
    while H.kind(q) == "Ref":
        q = q["pat"]
    kp, kq = H.kind(p), H.kind(q)
    if kp == "Wild" or (kp == "Bind" and p.get("sub") is None):
        return True
    if kp == "Tuple" and kq == "Tuple" and len(p["pats"]) == len(q["pats"]):
        return all(pat_subsumes(a, b) for a, b in zip(p["pats"], q["pats"]))
    if kp in ("TupleStruct", "Struct", "Path") and kq == kp and (p.get("res") or {}).get("def") == (q.get("res") or {}).get("def"):
        sp = p.get("pats") or [f["pat"] for f in p.get("fields", [])]
        sq = q.get("pats") or [f["pat"] for f in q.get("fields", [])]
        if len(sp) != len(sq):
            return not sp
        return all(pat_subsumes(a, b) for a, b in zip(sp, sq))
    if kp == "Or":
        return any(pat_subsumes(x, q) for x in p["pats"])
    return False


def conjuncts_of(c):
    out, stack = [], [c]
    while stack:
        x = H.strip(stack.pop())
        if H.kind(x) == "Binary" and x.get("op") == "And":
            stack += [x["r"], x["l"]]
        else:
            out.append(x)
    return out


def rule_test(c, is_rule_expr):
    """(kind, polarity) when c tests `<rule expression> == Rule::X` / `!=` / `matches!(.., Rule::X | ..)` / `let Rule::X = ..`; else None"""
    c = H.strip(c)
    neg = False
    while H.kind(c) == "Unary" and c.get("op") == "Not":
        neg = not neg
        c = H.strip(c["e"])
    if H.kind(c) == "Binary" and c["op"] in ("Eq", "Ne"):
        for a, b in ((c["l"], c["r"]), (c["r"], c["l"])):
            if is_rule_expr(a) and "::Rule::" in (H.path_def(b) or ""):
                return ({H.last(H.path_def(b))}, (c["op"] == "Eq") != neg)
    if H.kind(c) == "LetExpr" and is_rule_expr(c["init"]):
        vs = {H.last(v) for v in H.pat_variants(c["pat"]) if "::Rule::" in v}
        if vs:
            return (vs, not neg)
    if H.kind(c) == "Match" and len(c["arms"]) == 2 and is_rule_expr(c["scrut"]):
        yes = [a for a in c["arms"] if H.strip(a["body"]).get("v") in (True, "true")]
        if len(yes) == 1 and yes[0].get("guard") is None:
            vs = {H.last(v) for v in H.pat_variants(yes[0]["pat"]) if "::Rule::" in v}
            if vs:
                return (vs, not neg)
    return None



class Resolver:
    def __init__(self, crate, G, fn):
        self.crate, self.G, self.fn = crate, G, fn
        self.exact = True

    # ---- where does a local come from
    def binding(self, name, path):
        """('for', iter expr, path) | ('closure', recv expr | None, path) | ('let', init, path) | ('param', index) | None"""
        for i in range(len(path) - 1, -1, -1):
            f = path[i]
            if f.kind == "for" and name in H.pat_binds(f.node["pat"]):
                return ("for", f.node["iter"], path[:i])
            if f.kind == "closure" and any(name in H.pat_binds(p) for p in f.node.get("params", [])):
                mc = f.extra
                return ("closure", mc["recv"] if mc is not None else None, path[:i])
            if f.kind == "block":
                for s in reversed(f.node["stmts"][:f.extra]):
                    if s["k"] == "Let" and name in H.pat_binds(s["pat"]):
                        if H.kind(s["pat"]) == "Bind" and s.get("init") is not None:
                            return ("let", s["init"], path[:i] + [Frame("block", f.node, f.node["stmts"].index(s))])
                        return ("let?", s.get("init"), path[:i])
            if f.kind == "arm":
                a = f.node["arms"][f.extra]
                if name in H.pat_binds(a["pat"]):
                    return ("armbind", f.node["scrut"], path[:i])
            if f.kind == "if" and f.extra is True:
                for c in conjuncts_of(f.node["cond"]):
                    if H.kind(c) == "LetExpr" and name in H.pat_binds(c["pat"]):
                        return ("iflet", c["init"], path[:i])
        for i, p in enumerate(self.fn.get("params", [])):
            if name in H.pat_binds(p):
                return ("param", i)
        return None

    # ---- pest pairs
    def kids(self, rules):
        out = set()
        for r in rules:
            if r not in self.G.rules:
                return None
            out |= self.G.children(self.G.expr(r))
            if "EOI" in self.G.refs(self.G.expr(r)):
                out.add("EOI")
        return out

    def rule_local_conditions(self, l, path):
        """`let rule = l.as_rule(); .. if rule == Rule::x { <here> }`: the kinds l is known to have"""
        names = set()
        for f in path:
            if f.kind == "block":
                for st in f.node["stmts"][:f.extra]:
                    if st["k"] == "Let" and H.kind(st["pat"]) == "Bind" and st.get("init") is not None:
                        i_ = H.strip(st["init"])
                        if H.kind(i_) == "MethodCall" and i_["name"] == "as_rule" and H.path_local(i_["recv"]) == l:
                            names.add(st["pat"]["name"])
        for f in reversed(path):
            if f.kind == "if" and f.extra is True:
                c = H.strip(f.node["cond"])
                if H.kind(c) == "Binary" and c["op"] == "Eq":
                    for a, b in ((c["l"], c["r"]), (c["r"], c["l"])):
                        if H.path_local(a) in names and "::Rule::" in (H.path_def(b) or ""):
                            return {H.last(H.path_def(b))}
        return None

    def position(self, e, path, depth=0):
        """(parent rules, index) when e is an iterator over the children of a pair of known kind standing at a known position"""
        e = H.strip(e)
        if depth > 8:
            return None
        if H.kind(e) == "MethodCall" and e["name"] == "into_inner":
            r = self.pair(e["recv"], path, depth + 1)
            return None if r is None else (r, 0)
        if H.kind(e) == "MethodCall" and e["name"] in ("clone", "by_ref"):
            return self.position(e["recv"], path, depth + 1)
        if H.kind(e) == "Path" and e["res"].get("local") is not None:
            l = e["res"]["local"]
            b = self.binding(l, path)
            if b is None or b[0] != "let":
                return None
            base = self.position(b[1], b[2], depth + 1)
            if base is None:
                return None
            # `next()` calls on l that run between its definition and the site: earlier statements of the enclosing blocks,
            # conditions of the enclosing ifs, scrutinees of the enclosing matches - all straight-line
            deff = b[2][-1]
            blk, di = deff.node, deff.extra
            start = None
            for i_, f in enumerate(path):
                if f.kind == "block" and f.node is blk:
                    start = i_
            if start is None:
                return None

            def count(sub):
                k = 0
                for x, pth in sites_with_path(sub or {}, lambda z: H.kind(z) == "MethodCall" and H.path_local(z.get("recv")) == l):
                    if x["name"] in ("clone", "by_ref", "peek"):
                        continue
                    if x["name"] != "next" or (pth and any(fr.kind in ("for", "closure", "if", "arm") for fr in pth)):
                        return None
                    k += 1
                for x in H.walk(sub or {}):
                    if H.kind(x) == "For" and any(H.path_local(y) == l for y in H.walk(x["iter"])):
                        return None
                return k
            n_next = 0
            for i_ in range(start, len(path)):
                f = path[i_]
                parts = []
                if f.kind == "block":
                    lo = di + 1 if f.node is blk else 0
                    for st in f.node["stmts"][lo:f.extra]:
                        parts.append(st.get("init") if st["k"] == "Let" else st.get("e"))
                elif f.kind == "if":
                    parts.append(f.node["cond"])
                elif f.kind == "arm":
                    parts.append(f.node["scrut"])
                else:
                    return None
                for sub in parts:
                    c_ = count(sub)
                    if c_ is None:
                        return None
                    n_next += c_
            return (base[0], base[1] + n_next)
        return None

    def callers_pair(self, index, depth):
        """union over the call sites of this function of the kinds of the pair passed as parameter `index`"""
        me = self.fn_name
        out = set()
        found = 0
        for c in getattr(self, "all_crates", [self.crate]):
            for name, f in c.hir.items():
                if f.get("body") is None or "::tests::" in name:
                    continue
                for call, pth in sites_with_path(f["body"], lambda z: H.kind(z) == "Call" and z.get("def") == me):
                    found += 1
                    if index >= len(call["args"]):
                        return None
                    R2 = Resolver(c, self.G, f)
                    R2.all_crates, R2.fn_name, R2.pratt = getattr(self, "all_crates", []), name, getattr(self, "pratt", None)
                    r = R2.pair(call["args"][index], pth, depth + 1)
                    if r is None:
                        return None
                    out |= r
        return out if found else None

    def elements(self, e, path, depth=0):
        """superset of the rules of the pairs an iterator expression yields; None if unknown"""
        e = H.strip(e)
        k = H.kind(e)
        if depth > 12:
            return None
        if k == "MethodCall":
            if e["name"] == "into_inner":
                r = self.pair(e["recv"], path, depth + 1)
                return None if r is None else self.kids(r)
            if e["name"] in ITER_PASS:
                return self.elements(e["recv"], path, depth + 1)
            if e["name"] in ("unwrap", "expect") or e["name"] == "map_err":
                return self.elements(e["recv"], path, depth + 1)
            return None
        if k == "Call":
            d = e.get("def") or ""
            # the parser entry point: `BlotsParser::parse(Rule::r, text)` / a wrapper returning its result
            tgt = None
            if d.endswith("::parse") and e.get("args"):
                tgt = H.path_def(e["args"][0])
            elif d in getattr(self.crate, "hir", {}) or any(d in getattr(c, "hir", {}) for c in getattr(self, "all_crates", [])):
                body = None
                for c in [self.crate] + list(getattr(self, "all_crates", [])):
                    if d in getattr(c, "hir", {}):
                        body = c.hir[d].get("body")
                        break
                for x in H.walk(body or {}):
                    if H.kind(x) == "Call" and (x.get("def") or "").endswith("::parse") and x.get("args"):
                        tgt = H.path_def(x["args"][0])
            if tgt and "::Rule::" in tgt:
                r = H.last(tgt)
                if r in self.G.rules:
                    if self.G.ty(r) == "silent":
                        return self.kids({r})
                    return {r}
            return None
        if k == "Try":
            return self.elements(e["e"], path, depth + 1)
        if k == "Match":
            out = set()
            for i_, a in enumerate(e["arms"]):
                if diverges(a["body"]):
                    continue
                r = self.elements(a["body"], path + [Frame("arm", e, i_)], depth + 1)
                if r is None:
                    return None
                out |= r
            return out
        if k == "Block" and not e["stmts"] and e.get("expr") is not None:
            return self.elements(e["expr"], path, depth + 1)
        if k == "Path":
            l = e["res"].get("local")
            if l is None:
                return None
            b = self.binding(l, path)
            if b is None:
                return None
            if b[0] == "let":
                return self.elements(b[1], b[2], depth + 1)
            if b[0] in ("iflet",):
                return self.elements(b[1], b[2], depth + 1)
            if b[0] == "armbind":
                return self.elements(b[1], b[2], depth + 1)
            return None
        return None

    def constraints(self, l, path):
        """(kinds l is known to have | None, kinds it is known not to have) from the conditions around the site"""
        names = set()
        for f in path:
            if f.kind == "block":
                for st in f.node["stmts"][:f.extra]:
                    if st["k"] == "Let" and H.kind(st["pat"]) == "Bind" and st.get("init") is not None:
                        i_ = H.strip(st["init"])
                        if H.kind(i_) == "MethodCall" and i_["name"] == "as_rule" and H.path_local(i_["recv"]) == l:
                            names.add(st["pat"]["name"])

        def is_rule_expr(x):
            x = H.strip(x)
            if H.kind(x) == "MethodCall" and x["name"] == "as_rule" and H.path_local(x["recv"]) == l:
                return True
            return H.path_local(x) in names
        allowed, excluded = None, set()

        def add(t):
            nonlocal allowed
            vs, pol = t
            if pol:
                allowed = set(vs) if allowed is None else allowed & vs
            else:
                excluded.update(vs)
        for f in path:
            if f.kind == "arm" and is_rule_expr(f.node["scrut"]):
                arms = f.node["arms"]
                vs = arm_variants(arms[f.extra], "::Rule::")
                if vs:
                    add((vs, True))
                else:
                    for a in arms[:f.extra]:
                        av = arm_variants(a, "::Rule::")
                        if av and a.get("guard") is None:
                            excluded.update(av)
            elif f.kind == "if":
                for c in conjuncts_of(f.node["cond"]):
                    t = rule_test(c, is_rule_expr)
                    if t is not None:
                        if f.extra is True:
                            add(t)
                        elif len(conjuncts_of(f.node["cond"])) == 1:
                            add((t[0], not t[1]))
            elif f.kind == "block":
                for st in f.node["stmts"][:f.extra]:
                    if st["k"] in ("Expr", "Semi"):
                        e = H.strip(st["e"])
                        if H.kind(e) == "If" and e.get("else") is None and diverges(e["then"]):
                            cs = conjuncts_of(e["cond"])
                            if len(cs) == 1:
                                t = rule_test(cs[0], is_rule_expr)
                                if t is not None:
                                    add((t[0], not t[1]))
                        if H.kind(e) == "Match" and is_rule_expr(e["scrut"]):
                            for a in e["arms"]:
                                av = arm_variants(a, "::Rule::")
                                if av and a.get("guard") is None and diverges(a["body"]):
                                    excluded.update(av)
        return allowed, excluded

    def same_binding(self, l, p1, p2):
        b1, b2 = self.binding(l, p1), self.binding(l, p2)
        if b1 is None or b2 is None or b1[0] != b2[0]:
            return False
        return b1[0] == "param" and b1[1] == b2[1] or (b1[0] != "param" and b1[1] is b2[1])

    def pair(self, e, path, depth=0):
        """superset of the rules a pair-valued expression can have; None if unknown"""
        e = H.strip(e)
        k = H.kind(e)
        if depth > 12:
            return None
        if k == "Path":
            l = e["res"].get("local")
            if l is None:
                return None
            # what is known about an immutable binding at the site holds for it wherever it is used
            sp = getattr(self, "site_path", None)
            if sp is not None and sp is not path and len(sp) > len(path) and self.same_binding(l, path, sp):
                path = sp
            allowed, excluded = self.constraints(l, path)
            if allowed is not None:
                return allowed - excluded
            base = self._pair_of_binding(l, path, depth)
            return None if base is None else base - excluded

        if k == "MethodCall":
            if e["name"] in PAIR_PASS or e["name"] in ("ok_or_else", "ok_or", "cloned", "copied"):
                return self.pair(e["recv"], path, depth + 1)
            if e["name"] == "filter" and e.get("args") and H.kind(H.strip(e["args"][0])) == "Closure":
                clo = H.strip(e["args"][0])
                ps = [bn for p_ in clo.get("params", []) for bn in H.pat_binds(p_)]
                cs = conjuncts_of(clo["body"])
                for c in cs:
                    t = rule_test(c, lambda x: H.kind(H.strip(x)) == "MethodCall" and H.strip(x)["name"] == "as_rule" and H.path_local(H.strip(x)["recv"]) in ps)
                    if t is not None and t[1]:
                        return set(t[0])
                return self.pair(e["recv"], path, depth + 1)
            if e["name"] == "and_then" and e.get("args") and H.kind(H.strip(e["args"][0])) == "Closure":
                clo = H.strip(e["args"][0])
                ps = [bn for p_ in clo.get("params", []) for bn in H.pat_binds(p_)]
                outer = self.pair(e["recv"], path, depth + 1)
                if outer is None or len(ps) != 1:
                    return None
                # |x| x.into_inner().next(): the first child of x
                b_ = H.strip(clo["body"])
                if H.kind(b_) == "MethodCall" and b_["name"] == "next" and H.kind(H.strip(b_["recv"])) == "MethodCall" and H.strip(b_["recv"])["name"] == "into_inner" and H.path_local(H.strip(b_["recv"])["recv"]) == ps[0]:
                    got = set()
                    for r in outer:
                        at = self.G.child_at(r, 0) if r in self.G.rules else None
                        if at is None:
                            return None
                        got |= at
                    return got
                return None
            if e["name"] == "next":
                pos = self.position(e["recv"], path, depth + 1)
                if pos is not None:
                    got = set()
                    for r in pos[0]:
                        at = self.G.child_at(r, pos[1]) if r in self.G.rules else None
                        if at is None:
                            got = None
                            break
                        got |= at
                    if got is not None:
                        return got
            if e["name"] in NEXT_LIKE:
                self.exact = False   # some child of the parent, position unknown: a superset
                return self.elements(e["recv"], path, depth + 1)
            return None
        if k == "Try":
            return self.pair(e["e"], path, depth + 1)
        return None

    def _pair_of_binding(self, l, path, depth):
        if True:
            b = self.binding(l, path)
            if b is None:
                return None
            if b[0] == "param":
                return self.callers_pair(b[1], depth)
            if b[0] == "for":
                return self.elements(b[1], b[2], depth + 1)
            if b[0] == "closure":
                # the callbacks of the Pratt parser receive the primaries / operators of an expression
                for f in reversed(path):
                    if f.kind == "closure" and any(l in H.pat_binds(p) for p in f.node.get("params", [])):
                        mc = f.extra
                        if mc is not None and mc["name"] in ("map_primary", "map_prefix", "map_infix", "map_postfix") and getattr(self, "pratt", None):
                            which = mc["name"][4:]
                            if which == "infix":
                                # |lhs, op, rhs|: only the operator parameter is a pair
                                ps = [H.pat_binds(p) for p in f.node.get("params", [])]
                                if len(ps) == 3 and l not in ps[1]:
                                    return None
                            if which in ("prefix", "postfix"):
                                ps = [H.pat_binds(p) for p in f.node.get("params", [])]
                                opi = 0 if which == "prefix" else 1
                                if len(ps) == 2 and l not in ps[opi]:
                                    return None
                            return set(self.pratt[which])
                        break
                return self.elements(b[1], b[2], depth + 1) if b[1] is not None else None
            if b[0] == "let":
                return self.pair(b[1], b[2], depth + 1)
            if b[0] in ("iflet", "armbind"):
                # `if let Some(p) = it.next()` / `match it.next() { Some(p) => .. }`
                return self.pair(b[1], b[2], depth + 1)
            return None

    # ---- enum locals
    def enum_possible(self, local, enum_def, path):
        """set of variants of enum_def that the local can hold at the end of `path`, using enclosing arms and earlier
        statements that leave the function; (set, exact)"""
        ty = self.crate.types.get(enum_def)
        if ty is None:
            for c in getattr(self, "all_crates", []):
                if enum_def in c.types:
                    ty = c.types[enum_def]
        if ty is None or ty.get("kind") != "Enum":
            return None, False
        allv = {v["name"] for v in ty["variants"]}
        marker = enum_def + "::"
        possible = set(allv)
        for i, f in enumerate(path):
            if f.kind == "arm" and H.path_local(f.node["scrut"]) == local:
                arms = f.node["arms"]
                vs = arm_variants(arms[f.extra], marker)
                earlier = set()
                for a in arms[:f.extra]:
                    av = arm_variants(a, marker)
                    if av and a.get("guard") is None:
                        earlier |= av
                if vs is None:
                    possible -= earlier
                else:
                    possible &= vs
            elif f.kind == "arm":
                # an earlier guarded arm `pat if local == V` of this match whose pattern subsumes ours
                arms = f.node["arms"]
                mine = arms[f.extra]["pat"]
                for a in arms[:f.extra]:
                    g = a.get("guard")
                    if g is None:
                        continue
                    g = H.strip(g)
                    if H.kind(g) == "Binary" and g["op"] == "Eq":
                        for x, y in ((g["l"], g["r"]), (g["r"], g["l"])):
                            if H.path_local(x) == local and marker in (H.path_def(y) or "") and pat_subsumes(a["pat"], mine):
                                possible.discard(H.last(H.path_def(y)))
            elif f.kind == "block":
                for s in f.node["stmts"][:f.extra]:
                    if s["k"] not in ("Expr", "Semi"):
                        continue
                    e = H.strip(s["e"])
                    if H.kind(e) == "Match" and H.path_local(e["scrut"]) == local:
                        for a in e["arms"]:
                            av = arm_variants(a, marker)
                            if av and a.get("guard") is None and diverges(a["body"]):
                                possible -= av
                    if H.kind(e) == "If" and diverges(e["then"]):
                        c = H.strip(e["cond"])
                        if H.kind(c) == "Binary" and c["op"] == "Eq":
                            for x, y in ((c["l"], c["r"]), (c["r"], c["l"])):
                                if H.path_local(x) == local and marker in (H.path_def(y) or ""):
                                    possible.discard(H.last(H.path_def(y)))
                        if H.kind(c) == "Match" and H.path_local(c["scrut"]) == local and len(c["arms"]) == 2:
                            yes = [a for a in c["arms"] if H.strip(a["body"]).get("v") in (True, "true")]
                            if len(yes) == 1 and yes[0].get("guard") is None:
                                av = arm_variants(yes[0], marker)
                                if av:
                                    possible -= av
        return possible, True


def enum_of_local(node):
    t = (node.get("ty") or "").lstrip("&").replace("mut ", "").strip()
    return t


def explicit_panics(ctx, rid, crates, G):
    ctx.rule(rid, "every explicit panic! / unreachable! site is unreachable by construction: the kinds that can arrive at its match arm (pair kinds from the grammar, operator variants left over by enclosing arms and by earlier returns, environment kinds by their constructors) are all answered elsewhere", floor=15)
    n = 0
    # what the Pratt parser hands to its callbacks: registered operators by kind; everything else inside an expression is a primary
    pratt = None
    try:
        from rules import c10
        core = crates[0]
        rows = c10.precedence_rows(core)
        okb, _why, tail = c10.builder_shape(core)
        if okb:
            pratt = {"infix": {r["rule"] for r in rows}, "prefix": set(), "postfix": set()}
            for ch in tail:
                for kind_, r_ in ch:
                    if kind_ in pratt and r_:
                        pratt[kind_].add(r_)
            kids = set()
            for r_ in ("expression", "lambda_expression"):
                if r_ in G.rules:
                    kids |= G.children(G.expr(r_))
            pratt["primary"] = kids - pratt["infix"] - pratt["prefix"] - pratt["postfix"]
    except Exception:
        pratt = None
    for cr in crates:
        for fname, f in sorted(cr.hir.items()):
            if f.get("body") is None or "::tests::" in fname or "parse::rules" in fname or f.get("kind") not in ("Fn", "AssocFn"):
                continue
            found = sites_with_path(f["body"])
            k_ = 0
            for node, path in found:
                n += 1
                R = Resolver(cr, G, f)
                R.all_crates, R.fn_name, R.pratt = crates, fname, pratt
                R.site_path = path
                arms = [fr for fr in path if fr.kind == "arm"]
                key = "%s#%s%d" % (fname.replace("blots_core::", ""), node["name"], k_)
                k_ += 1
                # the macro is what a construct *inside* the arm falls into (`let [a, b] = args.as_slice() else { unreachable!() }`, an `if`):
                # then it is not the arm that has to be unreachable but that inner test that has to be irrefutable
                inner = [fr for fr in path[(path.index(arms[-1]) + 1) if arms else 0:] if fr.kind in ("letelse", "if")]
                if inner:
                    fr_ = inner[-1]
                    if fr_.kind == "letelse":
                        v_, d_ = letelse_discharge(cr, crates, fname, fr_.node, path)
                        ctx.inst(rid, key, v_, d_, H.loc(node))
                    else:
                        ctx.inst(rid, key, None, "a %s! under a condition inside the arm: the condition's impossibility is not modelled" % node["name"], H.loc(node))
                    continue
                if not arms:
                    ctx.inst(rid, key, None, "a %s! that is not inside a match arm: not modelled" % node["name"], H.loc(node))
                    continue
                fr = arms[-1]
                m, arm = fr.node, fr.node["arms"][fr.extra]
                sc = H.strip(m["scrut"])
                # (G) match on a pair's rule
                if H.kind(sc) == "MethodCall" and sc["name"] == "as_rule":
                    vs = arm_variants(arm, "::Rule::")
                    upto = path[:path.index(fr)]
                    P = R.pair(sc["recv"], upto)
                    explicit = set()
                    for a in m["arms"]:
                        av = arm_variants(a, "::Rule::")
                        if av and a is not arm:
                            explicit |= av
                    if P is None:
                        ctx.inst(rid, key, None, "where the matched pair comes from was not resolved", H.loc(node))
                    elif vs is None:
                        miss = sorted(P - explicit)
                        ctx.inst(rid, key, True if not miss else (False if R.exact else None), "pair kinds the grammar can put here: %s; without an explicit arm (they reach the %s!): %s" % (sorted(P), node["name"], miss or "none"), H.loc(node))
                    else:
                        hit = sorted(P & vs)
                        ctx.inst(rid, key, True if not hit else (False if R.exact else None), "the arm of %s is reached by pair kinds %s" % (sorted(vs), hit or "none"), H.loc(node))
                    continue
                # (S) match on the text of a pair: every literal the pair's rule can match has an arm
                txt = sc
                upto = path[:path.index(fr)]
                if H.kind(txt) == "Path" and txt["res"].get("local") is not None:
                    b_ = R.binding(txt["res"]["local"], upto)
                    if b_ is not None and b_[0] == "let":
                        txt, upto2 = H.strip(b_[1]), b_[2]
                    else:
                        upto2 = upto
                else:
                    upto2 = upto
                if H.kind(txt) == "MethodCall" and txt["name"] == "as_str" and "pest::iterators" in (txt.get("recv_ty") or (txt["recv"].get("ty") or "")):
                    P = R.pair(txt["recv"], upto2)
                    lits = set()
                    okl = P is not None
                    for r_ in (P or ()):
                        try:
                            e_ = G.expr(r_)
                            head = G.seq(e_)[0] if e_["k"] == "seq" else e_
                            lits |= set(G.literals(head))
                        except Exception:
                            okl = False
                    explicit = set()
                    for a in m["arms"]:
                        for x in H.walk(a["pat"]):
                            if H.kind(x) == "Lit" and x.get("lk") == "str":
                                explicit.add(x["v"])
                    if not okl:
                        ctx.inst(rid, key, None, "the texts the matched pair can have were not enumerated", H.loc(node))
                    else:
                        miss = sorted(lits - explicit)
                        ctx.inst(rid, key, not miss, "texts the grammar admits for %s: %s; without an arm: %s" % (sorted(P), sorted(lits), miss or "none"), H.loc(node))
                    continue
                # a match on `x.as_rule()` bound to a local first: `rule => unreachable!(..)` with `match pair.as_rule()`
                loc_ = H.path_local(sc)
                ety = enum_of_local(sc) if loc_ is not None else ""
                if loc_ is not None and ety.endswith("::Rule"):
                    ctx.inst(rid, key, None, "match on a rule held in a local: not modelled", H.loc(node))
                    continue
                # (N)/(B) match on an enum local
                if loc_ is not None and any(ety in c.types and c.types[ety].get("kind") == "Enum" for c in crates):
                    upto = path[:path.index(fr)]
                    possible, exact = R.enum_possible(loc_, ety, upto)
                    if possible is None:
                        ctx.inst(rid, key, None, "variants of %s not known" % ety, H.loc(node))
                        continue
                    marker = ety + "::"
                    vs = arm_variants(arm, marker)
                    if vs is None:
                        explicit = set()
                        for a in m["arms"]:
                            av = arm_variants(a, marker)
                            if av and a is not arm and a.get("guard") is None:
                                explicit |= av
                        reach = sorted(possible - explicit)
                    else:
                        reach = sorted(possible & vs)
                    b = R.binding(loc_, upto)
                    is_param = b is not None and b[0] == "param"
                    definite = is_param
                    if reach and is_param:
                        # a helper sees only what its callers pass: the variants that can arrive are those left over at each call site
                        def arriving_at(callee, pidx, depth):
                            """(variants that can be passed for parameter pidx of callee, every call site understood, number of call sites)"""
                            arr, comp, nc = set(), True, 0
                            for c2 in crates:
                                for name2, f2 in c2.hir.items():
                                    if f2.get("body") is None or "::tests::" in name2:
                                        continue
                                    for call, pth in sites_with_path(f2["body"], lambda z: H.kind(z) in ("Call", "MethodCall") and z.get("def") == callee):
                                        nc += 1
                                        args_ = ([call["recv"]] if H.kind(call) == "MethodCall" else []) + list(call.get("args", []))
                                        arg = args_[pidx] if pidx < len(args_) else None
                                        al = H.path_local(arg) if arg is not None else None
                                        if al is None:
                                            comp = False
                                            continue
                                        R2 = Resolver(c2, G, f2)
                                        R2.all_crates, R2.fn_name, R2.pratt, R2.site_path = crates, name2, pratt, pth
                                        poss2, _ = R2.enum_possible(al, ety, pth)
                                        if poss2 is None:
                                            comp = False
                                            continue
                                        # the caller passes its own parameter on: what can arrive there is decided at *its* callers
                                        b2 = R2.binding(al, pth)
                                        if b2 is not None and b2[0] == "param" and depth < 2 and name2 != callee:
                                            arr2, comp2, nc2 = arriving_at(name2, b2[1], depth + 1)
                                            if nc2 and comp2:
                                                poss2 = poss2 & arr2
                                        arr |= poss2
                            return arr, comp, nc
                        arriving, complete, n_calls = arriving_at(fname, b[1], 0)
                        if n_calls and complete:
                            reach = sorted(set(reach) & arriving)
                        elif n_calls:
                            definite = False
                    ctx.inst(rid, key, True if not reach else (False if definite else None),
                             "variants of `%s` that can arrive at this match: %d; reaching the %s! arm: %s" % (loc_, len(possible), node["name"], reach or "none (answered by enclosing arms / earlier returns)"), H.loc(node))
                    continue
                # (T) match on a field of self
                fld = sc
                while H.kind(fld) in ("AddrOf",) or (H.kind(fld) == "Unary" and fld.get("op") == "Deref"):
                    fld = H.strip(fld["e"])
                if H.kind(fld) == "Field" and H.path_local(fld["e"]) == "self":
                    bad_variants = {H.last(v) for v in H.pat_variants(arm["pat"])}
                    verdict, detail = typestate(cr, crates, fname, fld["name"], bad_variants)
                    ctx.inst(rid, key, verdict, detail, H.loc(node))
                    continue
                ctx.inst(rid, key, None, "the arm's scrutinee is not a pair kind, an enum local or a field of self: not modelled", H.loc(node))
    ctx.units["explicit_panic_sites"] = n


def typestate(cr, crates, method, field, bad_variants):
    """constructors of Self that put one of bad_variants into `field`; their results may flow only into constructors of Self"""
    impl = method.rsplit("::", 1)[0]
    ctors, bad = set(), set()
    for name, f in cr.hir.items():
        if not name.startswith(impl + "::") or f.get("body") is None:
            continue
        if not (f.get("output") or "").endswith(impl.split("::")[-1]) and (f.get("output") or "") != "Self":
            continue
        ctors.add(name)
        for x in H.walk(f["body"]):
            if H.kind(x) == "Struct":
                for fl in x.get("fields", []):
                    if fl["name"] == field:
                        c = H.ctor_of(fl["e"])
                        if c and H.last(c) in bad_variants:
                            bad.add(name)
    if not bad:
        return None, "no constructor of %s builds the panicking kind %s (or it was not recognised)" % (impl.replace("blots_core::", ""), sorted(bad_variants))
    leaks = []
    n_sites = 0
    for c in crates:
        for name in c.mir:
            if "::tests::" in name:
                continue
            g = M.Fn(c.mir_fn(name), name)
            for b in g.call_blocks():
                callee = g.callee(b) or ""
                if callee in ctors or callee.startswith("alloc::rc::Rc") or callee.startswith("core::clone") or "drop" in callee:
                    continue
                for a in g.term(b).get("args") or []:
                    try:
                        roots = g.trace(a)
                    except Exception:
                        roots = []
                    for r in roots:
                        if r[0] == "call" and r[1] in bad:
                            leaks.append("%s passes the result of %s to %s (%s)" % (name.replace("blots_core::", ""), H.last(r[1]), callee.replace("blots_core::", ""), g.loc(b)))
            n_sites += len(g.calls_to(next(iter(bad)))) if bad else 0
    return (not leaks), "kinds %s are built only by %s; results flowing into something other than a constructor of the same type: %s" % (sorted(bad_variants), sorted(x.replace("blots_core::", "") for x in bad), sorted(set(leaks))[:3] or "none")


def pratt_nonempty(ctx, rid, crates, G):
    """pest's PrattParser::parse panics on an empty pair sequence: every sequence handed to the AST builder comes from a pair
    whose grammar rule always has a child left at that position"""
    ctx.rule(rid, "the Pratt parser never receives an empty pair sequence: every `x.into_inner()` handed to the AST builder (directly or through evaluate_pairs / pairs_to_expr*) comes from a pair kind that always has a child there (a comment or another childless pair would make pest panic with 'Pratt parsing expects non-empty Pairs')", floor=10)
    from rules.c01 import mandatory_children
    core = crates[0]
    # sinks: the function that calls PrattParser::parse on its parameter, and the functions that pass their own parameter on to a sink
    sinks = {}
    for name, f in core.hir.items():
        if f.get("body") is None or "::tests::" in name:
            continue
        for i, (p, t) in enumerate(zip(f.get("params", []), f.get("inputs", []))):
            if "pest::iterators::pairs::Pairs" not in t:
                continue
            pn = (H.pat_binds(p) or [None])[0]
            for x in H.walk(f["body"]):
                if H.kind(x) == "MethodCall" and x["name"] == "parse" and "PrattParser" in (x.get("def") or "") + (x.get("impl_self") or "") + (x.get("recv_ty") or "") and x.get("args") and H.path_local(x["args"][0]) == pn:
                    sinks[name] = i
    if not sinks:
        # the parse call sits at the end of a builder chain: `PRATT.map_primary(..)...parse(pairs)`
        for name, f in core.hir.items():
            if f.get("body") is None or "::tests::" in name:
                continue
            for i, (p, t) in enumerate(zip(f.get("params", []), f.get("inputs", []))):
                if "pest::iterators::pairs::Pairs" not in t:
                    continue
                pn = (H.pat_binds(p) or [None])[0]
                for x in H.walk(f["body"]):
                    if H.kind(x) == "MethodCall" and x["name"] == "parse" and x.get("args") and H.path_local(x["args"][0]) == pn and any(H.kind(y) == "MethodCall" and y["name"] == "map_primary" for y in H.walk(x["recv"])):
                        sinks[name] = i
    changed = True
    while changed:
        changed = False
        for c in crates:
            for name, f in c.hir.items():
                if f.get("body") is None or name in sinks or "::tests::" in name:
                    continue
                for i, (p, t) in enumerate(zip(f.get("params", []), f.get("inputs", []))):
                    if "pest::iterators::pairs::Pairs" not in t:
                        continue
                    pn = (H.pat_binds(p) or [None])[0]
                    for x in H.walk(f["body"]):
                        if H.kind(x) == "Call" and x.get("def") in sinks and len(x["args"]) > sinks[x["def"]] and H.path_local(x["args"][sinks[x["def"]]]) == pn:
                            sinks[name] = i
                            changed = True
    if not sinks:
        ctx.inst(rid, "sinks", None, "the call of PrattParser::parse on a parameter was not found", None)
        return
    n = 0
    for c in crates:
        for name, f in sorted(c.hir.items()):
            if f.get("body") is None or "::tests::" in name or "parse::rules" in name:
                continue
            k_ = 0
            for call, path in sites_with_path(f["body"], lambda z: H.kind(z) == "Call" and z.get("def") in sinks):
                idx = sinks[call["def"]]
                if idx >= len(call["args"]):
                    continue
                arg = call["args"][idx]
                if name in sinks and H.path_local(arg) == (H.pat_binds(f["params"][sinks[name]]) or [None])[0]:
                    continue  # passes its own parameter on: judged at its callers
                R = Resolver(c, G, f)
                R.all_crates, R.fn_name, R.pratt, R.site_path = crates, name, None, path
                pos = R.position(arg, path)
                key = "%s->%s#%d" % (name.replace("blots_core::", ""), H.last(call["def"]), k_)
                k_ += 1
                n += 1
                if pos is None:
                    ctx.inst(rid, key, None, "the pair whose children are handed over was not resolved", H.loc(call))
                    continue
                parents, index = pos
                short = sorted(r for r in parents if r in G.rules and mandatory_children(G, r) <= index)
                ctx.inst(rid, key, True if not short else (False if R.exact else None), "children of %s from position %d; kinds that can have no child there: %s" % (sorted(parents), index, short or "none"), H.loc(call))
    ctx.units["pratt_entry_sites"] = n


COMMENT_KINDS = ("comment", "eol_comment", "inline_comment")


def comment_slots_accepted(ctx, rid, crates, G):
    """where a consumer keeps a child pair only if it has a given kind (`.filter(|p| p.as_rule() == Rule::k)`, `if let Some(p) = it.next()
    && p.as_rule() == Rule::k`), every comment kind the grammar can put at that position is among the accepted kinds"""
    ctx.rule(rid, "a child slot that is read through a test on its kind accepts every comment kind the grammar can put there (comment and eol_comment are different rules: a slot declared with one and read with the other silently loses the comment)", floor=2)
    kinds = {k for k in COMMENT_KINDS if k in G.rules and G.ty(k) != "silent"}
    n = 0
    for c in crates:
        for name, f in sorted(c.hir.items()):
            if f.get("body") is None or "::tests::" in name or "parse::rules" in name:
                continue

            def pred(z):
                if H.kind(z) == "MethodCall" and z["name"] == "filter" and z.get("args") and H.kind(H.strip(z["args"][0])) == "Closure" and "pest::iterators" in (z.get("recv_ty") or z["recv"].get("ty") or ""):
                    return True
                return H.kind(z) == "If"
            k_ = 0
            for node, path in sites_with_path(f["body"], pred):
                R = Resolver(c, G, f)
                R.all_crates, R.fn_name, R.pratt, R.site_path = crates, name, None, None
                accepted, recv, rpath = None, None, path
                if H.kind(node) == "MethodCall":
                    clo = H.strip(node["args"][0])
                    ps = [bn for p_ in clo.get("params", []) for bn in H.pat_binds(p_)]
                    for cj in conjuncts_of(clo["body"]):
                        t = rule_test(cj, lambda x: H.kind(H.strip(x)) == "MethodCall" and H.strip(x)["name"] == "as_rule" and H.path_local(H.strip(x)["recv"]) in ps)
                        if t is not None and t[1]:
                            accepted = set(t[0])
                    recv = node["recv"]
                else:
                    cs = conjuncts_of(node["cond"])
                    lets = [x for x in cs if H.kind(x) == "LetExpr" and H.pat_binds(x["pat"]) and any(H.last(v) == "Some" for v in H.pat_variants(x["pat"]))]
                    for le in lets:
                        nm = H.pat_binds(le["pat"])[0]
                        for cj in cs:
                            if cj is le:
                                continue
                            t = rule_test(cj, lambda x: H.kind(H.strip(x)) == "MethodCall" and H.strip(x)["name"] == "as_rule" and H.path_local(H.strip(x)["recv"]) == nm)
                            if t is not None and t[1]:
                                accepted, recv = set(t[0]), le["init"]
                if accepted is None or recv is None or not (accepted & kinds):
                    continue
                P = R.pair(recv, rpath)
                key = "%s#kind-test%d[%s]" % (name.replace("blots_core::", ""), k_, "|".join(sorted(accepted)))
                k_ += 1
                n += 1
                if P is None:
                    ctx.inst(rid, key, None, "the position of the tested pair was not resolved", H.loc(node))
                    continue
                lost = sorted((P & kinds) - accepted)
                ctx.inst(rid, key, not lost, "kinds the grammar can put in this slot: %s; accepted: %s; comment kinds that are dropped: %s" % (sorted(P), sorted(accepted), lost or "none"), H.loc(node))
    if n == 0:
        ctx.inst(rid, "sites", None, "no kind-tested comment slot was found", None)


DROPPING = {"skip", "take", "nth", "step_by", "skip_while", "take_while", "last", "truncate", "pop", "filter", "split_off", "drain", "retain", "remove", "nth_back", "rev"}
BUFFER_EDITS = {"insert_str", "insert", "replace_range", "remove", "truncate", "drain", "retain", "clear", "split_off", "pop"}


def comment_text_whole(ctx, rid, core):
    """the formatter emits a comment field as a whole"""
    ctx.rule(rid, "the text of a comment field (leading / trailing) is emitted whole: no printer skips, takes or filters lines or characters of it", floor=3)
    for name, f in sorted(core.hir.items()):
        if not name.startswith("blots_core::formatter::") or f.get("body") is None or "::tests::" in name:
            continue
        derived = set()
        uses = 0
        for x in H.walk(f["body"]):
            init, pat = None, None
            if isinstance(x, dict) and x.get("k") == "Let" and x.get("init") is not None:
                init, pat = x["init"], x["pat"]
            elif H.kind(x) == "LetExpr":
                init, pat = x["init"], x["pat"]
            elif H.kind(x) == "For":
                init, pat = x["iter"], x["pat"]
            if init is not None and any(H.kind(y) == "Field" and y["name"] in ("leading", "trailing") for y in H.walk(init)):
                derived |= set(H.pat_binds(pat))
                uses += 1
        for _ in range(3):
            for x in H.walk(f["body"]):
                if isinstance(x, dict) and x.get("k") == "Let" and x.get("init") is not None and any(H.path_local(y) in derived for y in H.walk(x["init"]) if H.kind(y) == "Path"):
                    derived |= set(H.pat_binds(x["pat"]))
                if H.kind(x) == "For" and any(H.path_local(y) in derived for y in H.walk(x["iter"]) if H.kind(y) == "Path"):
                    derived |= set(H.pat_binds(x["pat"]))
        if not uses:
            continue
        bad = []
        for x in H.walk(f["body"]):
            if H.kind(x) == "MethodCall" and x["name"] in DROPPING:
                r = x["recv"]
                if any(H.path_local(y) in derived for y in H.walk(r) if H.kind(y) == "Path") or any(H.kind(y) == "Field" and y["name"] in ("leading", "trailing") for y in H.walk(r)):
                    bad.append("%s() at %s" % (x["name"], H.loc(x)))
        ctx.inst(rid, "%s#comment-text" % name.replace("blots_core::", ""), not bad, "%d use(s) of comment fields; operations that can drop part of the text: %s" % (uses, bad or "none"), H.loc(f["body"]))


def driver_appends_only(ctx, rid, crates):
    """a format driver builds its output front to back"""
    ctx.rule(rid, "the drivers that assemble formatted output (CLI --format, wasm format_blots, the library's statement joiner) only append to their output buffer: text produced later is never inserted before text produced earlier", floor=2)
    FMT = ("blots_core::formatter::format_expr", "blots_core::formatter::format_expr_impl")
    n = 0
    for c in crates:
        for name, f in sorted(c.hir.items()):
            if f.get("body") is None or "::tests::" in name or name.startswith("blots_core::formatter::format_") and False:
                continue
            if name.startswith("blots_core::"):
                if not name.startswith("blots_core::formatter::join_"):
                    continue
            elif not any(H.kind(x) == "Call" and (x.get("def") or "") in FMT for x in H.walk(f["body"])):
                continue
            # the output buffers: String locals that receive formatted text (directly or through a local holding it)
            formatted = set()
            for x in H.walk(f["body"]):
                if isinstance(x, dict) and x.get("k") == "Let" and x.get("init") is not None and any(H.kind(y) == "Call" and (y.get("def") or "") in FMT for y in H.walk(x["init"])):
                    formatted |= set(H.pat_binds(x["pat"]))
            if name.startswith("blots_core::"):
                formatted |= {bn for p_ in f.get("params", []) for bn in H.pat_binds(p_)}

            def is_string(t):
                return (t or "").replace("&mut ", "").replace("&", "").strip() == "alloc::string::String"
            buffers = set()
            for x in H.walk(f["body"]):
                if H.kind(x) == "MethodCall" and x["name"] in ("push_str", "push", "extend", "write_str") and is_string(x.get("recv_ty") or x["recv"].get("ty")):
                    if any((H.kind(y) == "Path" and H.path_local(y) in formatted) or (H.kind(y) == "Call" and (y.get("def") or "") in FMT) for a_ in x.get("args", []) for y in H.walk(a_)):
                        b_ = H.path_local(x["recv"])
                        if b_:
                            buffers.add(b_)
            if name.startswith("blots_core::"):
                for x in H.walk(f["body"]):
                    if H.kind(x) == "MethodCall" and x["name"] in ("push_str", "push") and is_string(x.get("recv_ty") or x["recv"].get("ty")) and H.path_local(x["recv"]):
                        buffers.add(H.path_local(x["recv"]))
            bad = []
            for x in H.walk(f["body"]):
                if H.kind(x) == "MethodCall" and x["name"] in BUFFER_EDITS and H.path_local(x["recv"]) in buffers and is_string(x.get("recv_ty") or x["recv"].get("ty")):
                    bad.append("%s.%s() at %s" % (H.path_local(x["recv"]), x["name"], H.loc(x)))
            if not buffers:
                continue
            n += 1
            ctx.inst(rid, "%s#appends-only" % name.replace("blots_core::", ""), not bad, "edits of an output buffer other than appending: %s" % (bad or "none"), H.loc(f["body"]))
    if n == 0:
        ctx.inst(rid, "drivers", None, "no format driver was found", None)


VERDICTS = {}   # (function, 'index' | 'remove' | 'swap_remove') -> verdicts of its constant-position sites (read by C01.R9)


def constant_indexes(ctx, rid, crates, skip_fns=()):
    """`x[k]` with a literal k outside the built-in argument vectors: the conditions evaluated *before* the index (an enclosing `if`, the
    left operand of `&&`) bound the length of the same collection (or of the collection it was mapped from)"""
    from lib import sig as S
    ctx.rule(rid, "a literal index into a vector or slice is evaluated only after a test that bounds the length of the same collection (`len() == n`, `len() > k`, `!is_empty()`); a length test that sits to the right of the index in the same `&&` comes too late", floor=4)

    def base_key(e, lets):
        e = H.strip(e)
        for _ in range(6):
            if H.kind(e) == "MethodCall" and e["name"] in ("iter", "clone", "as_slice", "as_ref", "deref", "to_vec", "borrow"):
                e = H.strip(e["recv"])
                continue
            if H.kind(e) == "Unary" and e.get("op") == "Deref":
                e = H.strip(e["e"])
                continue
            break
        l = H.path_local(e)
        if l is not None:
            # a vector built element for element from another one has that one's length
            init = lets.get(l)
            if init is not None:
                x = H.strip(init)
                chain = []
                while H.kind(x) == "MethodCall":
                    chain.append(x["name"])
                    x = H.strip(x["recv"])
                if chain and chain[0] == "collect" and set(chain[1:]) <= {"map", "iter", "into_iter", "enumerate", "cloned", "copied", "rev"}:
                    return base_key(x, lets)
            return ("local", l)
        if H.kind(e) == "Field":
            return ("field", e["name"], base_key(e["e"], lets))
        return None

    def bounds(cond, pol, lets):
        """[(base key, minimum length implied)] by a condition known to be `pol`"""
        out = []
        c = H.strip(cond)
        if H.kind(c) == "Unary" and c.get("op") == "Not":
            return bounds(c["e"], not pol, lets)
        if H.kind(c) == "Binary" and c["op"] == "And" and pol:
            return bounds(c["l"], True, lets) + bounds(c["r"], True, lets)
        if H.kind(c) == "Binary" and c["op"] == "Or" and not pol:
            return bounds(c["l"], False, lets) + bounds(c["r"], False, lets)
        if H.kind(c) == "MethodCall" and c["name"] == "is_empty" and not pol:
            k = base_key(c["recv"], lets)
            return [(k, 1)] if k else []
        if H.kind(c) == "Binary" and c["op"] in ("Eq", "Ne", "Gt", "Ge", "Lt", "Le"):
            for a, b, op in ((c["l"], c["r"], c["op"]), (c["r"], c["l"], {"Gt": "Lt", "Lt": "Gt", "Ge": "Le", "Le": "Ge"}.get(c["op"], c["op"]))):
                a = H.strip(a)
                if H.kind(a) == "MethodCall" and a["name"] == "len" and H.lit(b) and H.lit(b)["lk"] == "int":
                    k = base_key(a["recv"], lets)
                    n = int(H.lit(b)["v"])
                    if k is None:
                        continue
                    if not pol:
                        op = {"Eq": "Ne", "Ne": "Eq", "Gt": "Le", "Le": "Gt", "Ge": "Lt", "Lt": "Ge"}[op]
                    if op == "Eq":
                        out.append((k, n))
                    elif op == "Gt":
                        out.append((k, n + 1))
                    elif op == "Ge":
                        out.append((k, n))
                    elif op == "Ne" and n == 0:
                        out.append((k, 1))
        return out

    n_sites = 0
    VERDICTS.clear()
    for cr in crates:
        for name, f in sorted(cr.hir.items()):
            if f.get("body") is None or "::tests::" in name or "parse::rules" in name or "::_::" in name or name in skip_fns:
                continue
            lets = {}
            for x in H.walk(f["body"]):
                if isinstance(x, dict) and x.get("k") == "Let" and H.kind(x.get("pat")) == "Bind" and x.get("init") is not None:
                    lets.setdefault(x["pat"]["name"], x["init"])
            sites = []

            def go(n, guards, late):
                if isinstance(n, list):
                    for y in n:
                        go(y, guards, late)
                    return
                if not isinstance(n, dict):
                    return
                k = H.kind(n)
                if k == "Index" and H.lit(n["i"]) and H.lit(n["i"])["lk"] == "int":
                    sites.append((n, list(guards), list(late)))
                if k == "MethodCall" and n["name"] in ("remove", "swap_remove") and len(n.get("args", [])) == 1 and H.lit(n["args"][0]) and H.lit(n["args"][0])["lk"] == "int" and "Vec<" in (n.get("recv_ty") or H.strip(n["recv"]).get("ty") or ""):
                    # `v.remove(k)` panics like `v[k]`: the same obligation
                    sites.append(({"k": "Index", "e": n["recv"], "i": n["args"][0], "sp": n.get("sp"), "_what": n["name"]}, list(guards), list(late)))
                if k == "If":
                    go(n["cond"], guards, late)
                    go(n["then"], guards + [(n["cond"], True)], late)
                    if n.get("else") is not None:
                        go(n["else"], guards + [(n["cond"], False)], late)
                    return
                if k == "Binary" and n["op"] in ("And", "Or"):
                    go(n["l"], guards, late + [(n["r"], n["op"] == "And")])
                    go(n["r"], guards + [(n["l"], n["op"] == "And")], late)
                    return
                if k == "Block":
                    g2 = list(guards)
                    for st in n["stmts"]:
                        sub = st.get("init") if st["k"] == "Let" else st.get("e")
                        go(sub, g2, late)
                        if st["k"] == "Let" and st.get("els") is not None:
                            go(st["els"], g2, late)
                        # `if cond { return / continue }` : afterwards cond is false
                        if st["k"] in ("Expr", "Semi"):
                            e_ = H.strip(st["e"])
                            if H.kind(e_) == "If" and e_.get("else") is None and diverges(e_["then"]):
                                g2 = g2 + [(e_["cond"], False)]
                    if n.get("expr") is not None:
                        go(n["expr"], g2, late)
                    return
                for key, v in n.items():
                    if key in ("sp", "ty", "res"):
                        continue
                    if isinstance(v, (dict, list)):
                        go(v, guards, late)
            go(f["body"], [], [])
            for i, (n, guards, late) in enumerate(sites):
                bt = (H.strip(n["e"]).get("ty") or "")
                if not ("Vec<" in bt or bt.lstrip("&").startswith("[")):
                    continue
                k_ = int(H.lit(n["i"])["v"])
                bk = base_key(n["e"], lets)
                n_sites += 1
                have = [m for c, p in guards for (b2, m) in bounds(c, p, lets) if b2 == bk and bk is not None]
                too_late = [m for c, p in late for (b2, m) in bounds(c, p, lets) if b2 == bk and bk is not None]
                if have and max(have) > k_:
                    v, d = True, "length of the collection is at least %d before index %d is taken" % (max(have), k_)
                elif too_late and max(too_late) > k_:
                    v, d = False, "the test that bounds the length (>= %d) is evaluated after the index [%d] in the same condition: an empty collection panics first" % (max(too_late), k_)
                else:
                    v, d = None, "no length test on the indexed collection was found before index %d (may hold by construction)" % k_
                ctx.inst(rid, "%s#%s[%d]@%d" % (name.replace("blots_core::", ""), n.get("_what", "index"), k_, i), v, d, H.loc(n))
                VERDICTS.setdefault((name, n.get("_what", "index")), []).append(v)
    ctx.units["constant_index_sites_outside_builtins"] = n_sites


TEXT_REWRITES = {"replace", "replacen", "trim", "trim_start", "trim_end", "trim_matches", "trim_end_matches", "trim_start_matches", "lines", "split", "split_whitespace",
                 "to_lowercase", "to_uppercase", "chars", "bytes", "truncate", "retain", "remove", "drain", "replace_range", "strip_suffix", "strip_prefix"}


def driver_text_untouched(ctx, rid, crates):
    """the text a format driver assembled from the formatter's output is written as it is"""
    ctx.rule(rid, "a format driver writes the formatter's text as it is: once formatted text is in the output buffer nothing rewrites that buffer line by line or character by character (a whole-file clean-up pass cannot tell code from the inside of a multi-line string literal)", floor=1)
    FMT = ("blots_core::formatter::format_expr", "blots_core::formatter::format_expr_impl")
    n = 0
    for c in crates:
        for name, f in sorted(c.hir.items()):
            if f.get("body") is None or "::tests::" in name or name.startswith("blots_core::"):
                continue
            if not any(H.kind(x) == "Call" and (x.get("def") or "") in FMT for x in H.walk(f["body"])):
                continue
            formatted = set()
            for x in H.walk(f["body"]):
                if isinstance(x, dict) and x.get("k") == "Let" and x.get("init") is not None and any(H.kind(y) == "Call" and (y.get("def") or "") in FMT for y in H.walk(x["init"])):
                    formatted |= set(H.pat_binds(x["pat"]))
            buffers = set()
            for x in H.walk(f["body"]):
                if H.kind(x) == "MethodCall" and x["name"] in ("push_str", "push", "extend", "write_str"):
                    if any((H.kind(y) == "Path" and H.path_local(y) in formatted) or (H.kind(y) == "Call" and (y.get("def") or "") in FMT) for a_ in x.get("args", []) for y in H.walk(a_)):
                        b_ = H.path_local(x["recv"])
                        if b_:
                            buffers.add(b_)
            # anything derived from a buffer (a shadowing `let out = out.lines()...collect()`) is still the output
            bad = []
            for x in H.walk(f["body"]):
                if H.kind(x) == "MethodCall" and x["name"] in TEXT_REWRITES:
                    r = H.strip(x["recv"])
                    while H.kind(r) == "MethodCall" and r["name"] in ("as_str", "clone", "as_ref", "borrow", "to_string", "to_owned"):
                        r = H.strip(r["recv"])
                    if H.path_local(r) in buffers:
                        bad.append("%s.%s() at %s" % (H.path_local(r), x["name"], H.loc(x)))
            if not buffers:
                continue
            n += 1
            ctx.inst(rid, "%s#formatted-text-untouched" % name.replace("blots_core::", ""), not bad, "output buffers %s; rewriting operations applied to them: %s" % (sorted(buffers), bad or "none"), H.loc(f["body"]))
    if n == 0:
        ctx.inst(rid, "drivers", None, "no format driver with an output buffer was found", None)


def letelse_discharge(cr, crates, fname, let_stmt, path):
    """`let [a, b] = args.as_slice() else { panic }` inside a built-in arm: irrefutable when the arm's arity row fixes the number of
    arguments the slice pattern expects"""
    pat = let_stmt["pat"]
    while H.kind(pat) == "Ref":
        pat = pat["pat"]
    if H.kind(pat) != "Slice":
        return None, "a panic in the else-branch of a `let .. else` whose pattern is not a slice pattern: not modelled"
    n_before = len(pat.get("before") or pat.get("pats") or [])
    has_rest = pat.get("mid") is not None or bool(pat.get("after"))
    n_fixed = n_before + len(pat.get("after") or [])
    init_ty = (H.strip(let_stmt["init"]).get("ty") or "")
    if "values::Value" not in init_ty:
        return None, "slice pattern over something other than the argument vector: not modelled"
    variants = set()
    for fr in path:
        if fr.kind == "arm":
            variants |= {H.last(v) for v in H.pat_variants(fr.node["arms"][fr.extra]["pat"]) if "functions::BuiltInFunction::" in v}
    if not variants:
        return None, "not inside an arm of the built-in dispatch"
    from rules.c01 import arity_table
    ar = arity_table(crates[0])
    bad = []
    for v in sorted(variants):
        row = ar.get(v)
        if row is None:
            return None, "no arity row for %s" % v
        kind, lo, hi = row
        ok = (kind == "Exact" and lo == n_fixed and not has_rest) or (has_rest and lo is not None and lo >= n_fixed and kind in ("Exact", "AtLeast", "Between"))
        if not ok:
            bad.append("%s: arity %s, pattern takes %s%d" % (v, row, ">= " if has_rest else "", n_fixed))
    return (not bad), "the slice pattern matches every argument vector the arity check lets through: %s" % (bad or "yes")
