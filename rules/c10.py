"""C10 — parsing: fixed precedence table, layout-insensitive, all plain names usable (DESIGN §4 C10)."""
from lib import hir as H
from lib.peg import Grammar
from lib import sig as S
CORE = "blots_core::"
from lib.facts import CheckerError

NEED = ("dev",)

# Oracle: the level list in the property statement, loosest -> tightest.
DOC_LEVELS = [
    ("infix", "Left", {"And", "NaturalAnd", "Or", "NaturalOr", "Via", "Into", "Where"}),
    ("infix", "Left", {"Equal", "NotEqual", "Less", "LessEq", "Greater", "GreaterEq",
                       "DotEqual", "DotNotEqual", "DotLess", "DotLessEq", "DotGreater", "DotGreaterEq"}),
    ("infix", "Left", {"Add", "Subtract"}),
    ("infix", "Left", {"Multiply", "Divide", "Modulo"}),
    ("infix", "Right", {"Power"}),
    ("infix", "Left", {"Coalesce"}),
    ("prefix", None, {"negation", "invert", "natural_not", "spread_operator"}),
    ("postfix", None, {"factorial"}),
    ("postfix", None, {"access", "dot_access", "call_list"}),
]
# spellings the statement names for each operator (word and symbol forms)
DOC_TOKENS = {"And": "&&", "NaturalAnd": "and", "Or": "||", "NaturalOr": "or", "Via": "via", "Into": "into", "Where": "where",
              "Equal": "==", "NotEqual": "!=", "Less": "<", "LessEq": "<=", "Greater": ">", "GreaterEq": ">=",
              "DotEqual": ".==", "DotNotEqual": ".!=", "DotLess": ".<", "DotLessEq": ".<=", "DotGreater": ".>", "DotGreaterEq": ".>=",
              "Add": "+", "Subtract": "-", "Multiply": "*", "Divide": "/", "Modulo": "%", "Power": "^", "Coalesce": "??"}


def precedence_rows(core):
    st = core.statics.get("blots_core::precedence::PRECEDENCE_TABLE")
    if st is None:
        raise CheckerError("anchor static missing: precedence::PRECEDENCE_TABLE")
    arr = H.strip(st["body"])
    if H.kind(arr) != "Array":
        raise CheckerError("PRECEDENCE_TABLE initializer is not an array literal")
    rows = []
    for t in arr["es"]:
        t = H.strip(t)
        if H.kind(t) != "Tup" or len(t["es"]) != 4:
            raise CheckerError("PRECEDENCE_TABLE row is not a 4-tuple")
        prec = H.lit(t["es"][0])
        rows.append({"prec": int(prec["v"]), "assoc": H.last(H.path_def(t["es"][1])), "binop": H.last(H.path_def(t["es"][2])),
                     "rule": H.last(H.path_def(t["es"][3])), "loc": H.loc(t["es"][0])})
    return rows


def op_chain(n):
    """[(kind, rule)] of an `Op::infix(..) | Op::prefix(..)` chain expression"""
    n = H.strip(n)
    if H.kind(n) == "Binary" and n["op"] == "BitOr":
        return op_chain(n["l"]) + op_chain(n["r"])
    if H.kind(n) == "Call":
        d = n.get("def") or ""
        if d.startswith("pest::pratt_parser::Op::"):
            r = H.path_def(n["args"][0])
            return [(H.last(d), H.last(r) if r else None)]
    return [("?", None)]


def builder_shape(core):
    GROUP_KEY[0] = (0, 1)
    return _builder_shape(core)


def _builder_shape(core):
    """Reads build_pratt_parser: returns (ok, why, tail) where tail is the list of .op() registrations after the
    infix loop, in program order. The infix part must be: group rows by (prec, assoc) in first-seen order,
    one stable sort_by_key on prec, one loop registering each group with .op()."""
    f = core.hir_fn("blots_core::precedence::build_pratt_parser")
    body = f["body"]
    sort_calls = [n for n in H.walk(body) if H.kind(n) == "MethodCall" and n["name"].startswith("sort")]
    why = []
    if len(sort_calls) != 1 or sort_calls[0]["name"] != "sort_by_key":
        why.append("expected exactly one stable sort_by_key on the groups, found %s" % [n["name"] for n in sort_calls])
    else:
        clo = H.strip(sort_calls[0]["args"][0])
        ok = False
        if H.kind(clo) == "Closure":
            p = clo["params"][0]
            b = H.strip(clo["body"])
            # |(prec, _, _)| *prec
            binds = []
            q = p
            while H.kind(q) == "Ref":
                q = q["pat"]
            if H.kind(q) == "Tuple" and q["pats"]:
                first = q["pats"][0]
                if H.kind(first) == "Bind" and H.path_local(b) == first["name"]:
                    ok = True
        if not ok:
            why.append("sort key is not the first (precedence) field of the group tuple")
    fors = [n for n in H.walk(body) if H.kind(n) == "For"]
    # the grouping loop iterates PRECEDENCE_TABLE; the registering loop iterates the groups and calls .op once
    reg_loops = []
    for fo in fors:
        ops = [n for n in H.walk(fo["body"]) if H.kind(n) == "MethodCall" and n["name"] == "op"]
        if ops:
            reg_loops.append((fo, ops))
    if len(reg_loops) != 1 or len(reg_loops[0][1]) != 1:
        why.append("expected one loop with one parser.op(..) registration for the infix groups")
    group_loops = [fo for fo in fors if H.path_def(fo["iter"]) == "blots_core::precedence::PRECEDENCE_TABLE"]
    if len(group_loops) != 1:
        why.append("expected one loop over PRECEDENCE_TABLE building the groups")
    else:
        finds = [n for n in H.walk(group_loops[0]["body"]) if H.kind(n) == "MethodCall" and n["name"] in ("find", "position", "find_map", "rposition") and n["args"] and H.kind(H.strip(n["args"][0])) == "Closure"]
        okf = False
        if len(finds) == 1:
            clo = H.strip(finds[0]["args"][0])
            if H.kind(clo) == "Closure":
                b = H.strip(clo["body"])
                # which positions of the stored group tuple are compared for equality: |(p, a, _)| *p == prec && *a == assoc
                pat = clo["params"][0]
                while H.kind(pat) == "Ref":
                    pat = pat["pat"]
                pos_of = {}
                if H.kind(pat) == "Tuple":
                    for i_, q_ in enumerate(pat["pats"]):
                        for bn in H.pat_binds(q_):
                            pos_of[bn] = i_
                sides = []
                stack = [b]
                while stack:
                    x_ = H.strip(stack.pop())
                    if H.kind(x_) == "Binary" and x_["op"] == "And":
                        stack += [x_["l"], x_["r"]]
                    else:
                        sides.append(x_)
                compared = set()
                clean = True
                for s_ in sides:
                    if H.kind(s_) == "Binary" and s_["op"] == "Eq":
                        ls = {pos_of.get(H.path_local(s_["l"])), pos_of.get(H.path_local(s_["r"]))} - {None}
                        if len(ls) == 1:
                            compared |= ls
                            continue
                    clean = False
                if clean and compared and compared <= {0, 1} and 0 in compared:
                    okf = True
                    GROUP_KEY[0] = tuple(sorted(compared))
        if not okf:
            # any other way of finding the group (`last_mut()` + guard, `position`, a match): which columns of the table row are
            # compared for equality with the stored group?
            lp = group_loops[0]
            rowpos = {}
            q_ = lp["pat"]
            while H.kind(q_) == "Ref":
                q_ = q_["pat"]
            if H.kind(q_) == "Tuple":
                for i_, p_ in enumerate(q_["pats"]):
                    for bn in H.pat_binds(p_):
                        rowpos[bn] = i_
            compared = set()
            for x_ in H.walk(lp["body"]):
                if H.kind(x_) == "Binary" and x_["op"] == "Eq":
                    for a_, b_ in ((x_["l"], x_["r"]), (x_["r"], x_["l"])):
                        la = H.path_local(a_)
                        if la in rowpos:
                            compared.add(rowpos[la])
            if compared and compared <= {0, 1} and 0 in compared:
                okf = True
                GROUP_KEY[0] = tuple(sorted(compared))
        if not okf:
            why.append("groups are not keyed by (precedence, associativity) equality")
    # registrations after the loop, in program order (source position)
    all_ops = [n for n in H.walk(body) if H.kind(n) == "MethodCall" and n["name"] == "op"]
    all_ops.sort(key=lambda n: n["sp"][4])  # by END offset: in a method chain `p.op(a).op(b)` the inner call ends first
    tail = []
    loop_op = reg_loops[0][1][0] if reg_loops and reg_loops[0][1] else None
    seen_loop = False
    for n in all_ops:
        if n is loop_op:
            seen_loop = True
            continue
        ch = op_chain(n["args"][0])
        if not seen_loop and loop_op is not None:
            why.append("an operator is registered before the infix groups: %s" % ch)
        tail.append(ch)
    if loop_op is not None:
        # the loop registers Op::infix(rule, assoc) for every rule of the group
        kinds = {H.last(n.get("def") or "") for n in H.walk(reg_loops[0][0]["body"]) if H.kind(n) == "Call" and (n.get("def") or "").startswith("pest::pratt_parser::Op::")}
        if kinds != {"infix"}:
            why.append("infix loop registers %s" % sorted(kinds))
    return (not why, why, tail)


GROUP_KEY = [(0, 1)]  # tuple positions of the group that the builder compares: (prec, assoc); set by builder_shape


def parser_levels(rows, tail):
    """effective binding order as pest's PrattParser sees it: groups by the builder's key (normally (prec, assoc)) in first-seen
    order, stably sorted by prec. A group's associativity is that of its first row (what the builder stores)."""
    groups = []
    key = GROUP_KEY[0]
    for r in rows:
        for g in groups:
            if (0 not in key or g[0] == r["prec"]) and (1 not in key or g[1] == r["assoc"]):
                g[2].append(r)
                break
        else:
            groups.append([r["prec"], r["assoc"], [r]])
    groups.sort(key=lambda g: g[0])  # stable, like sort_by_key
    levels = [("infix", g[1], {r["binop"] for r in g[2]}) for g in groups]
    for ch in tail:
        kinds = {k for k, _ in ch}
        levels.append((kinds.pop() if len(kinds) == 1 else "?", None, {r for _, r in ch}))
    return levels


def match_arms(m):
    """[(variant names, body)] of a Match node over an enum"""
    out = []
    for a in m["arms"]:
        vs = [H.last(v) for v in H.pat_variants(a["pat"])]
        out.append((vs, a["body"], a))
    return out


CRATE = [None]  # set by run(): lets closure_of resolve `.map_infix(build_infix)` (a function handed over by name)


def closure_of(body, method, required=True):
    for n in H.walk(body):
        if H.kind(n) == "MethodCall" and n["name"] == method and n["args"]:
            c = H.strip(n["args"][0])
            if H.kind(c) == "Closure":
                return c
            if H.kind(c) == "Path" and CRATE[0] is not None and (c["res"].get("def") or "") in CRATE[0].hir:
                f = CRATE[0].hir_fn(c["res"]["def"])
                return {"k": "Closure", "params": f.get("params", []), "body": f["body"], "sp": f.get("sp"), "from_fn": c["res"]["def"]}
    if required:
        raise CheckerError("no closure passed to .%s(..) in the AST builder" % method)
    return None


def rule_match(clo, required=True):
    ms = H.matches_on(clo["body"], "parser::Rule") if clo is not None else []
    if not ms:
        if required:
            raise CheckerError("closure has no match on parser::Rule")
        return None
    # the dispatch match is the one with the most arms (helpers inlined into the closure may contain smaller ones)
    return max(ms, key=lambda m: len(m["arms"]))


def keyword_guarded(G, n):
    """the word-like literal of a statement rule is followed by !identifier_rest or mandatory layout (no comment)"""
    s = G.seq(G.expr(n))
    idx = next((i for i, e in enumerate(s) if e["k"] == "str" and e["v"] and (e["v"][0].isalpha() or e["v"][0] == "_")), None)
    if idx is None:
        return None, "no keyword literal found in %s" % n
    ok = False
    if idx + 1 < len(s):
        nx = s[idx + 1]
        if nx["k"] == "neg" and nx["e"]["k"] == "ident" and nx["e"]["v"] == "identifier_rest":
            ok = True
        else:
            g = G.is_ws_gap(nx)
            ok = g is not None and bool(g[1]) and "comment" not in g[0]
    return ok, "keyword %r followed by a guard: %s" % (s[idx]["v"], ok)


def run(ctx):
    core = ctx.core
    CRATE[0] = core
    G = Grammar(ctx.grammar)
    rows = precedence_rows(core)
    ctx.units["precedence_rows"] = len(rows)
    ctx.not_decided += ["layout insensitivity in general (only the structural hazards R3, R4, R5, R7)", "pest's PrattParser implementation"]

    # ---------------- R9
    try:
        names_from_tokens(ctx, "C10.R9", core, G)
    except CheckerError as ex_:
        ctx.inst("C10.R9", "sites", None, "not decided: %s" % ex_, None)

    # ---------------- R10 a comment inside a list / record / do-block is never taken for an expression
    from rules import panics
    panics.pratt_nonempty(ctx, "C10.R10", [core, ctx.cli, ctx.wasm], G)

    # ---------------- R1
    ctx.rule("C10.R1", "effective binding order (PRECEDENCE_TABLE + registration order in build_pratt_parser) equals the documented level list: every operator once, on its level, with its associativity", floor=30)
    ok, why, tail = binding_levels_rule(ctx, "C10.R1", core, rows)

    # ---------------- R11 the names that cannot be bound are the published built-in names, no more
    from rules import printers as P_
    P_.L7_builtins(ctx, "C10.R11", core)

    # ---------------- R2 four-way agreement
    ctx.rule("C10.R2", "grammar operator alternatives = PRECEDENCE_TABLE rules = Pratt registrations = AST-builder match arms (infix, prefix, postfix, primary), and (Rule, BinaryOp) pairs agree between table and builder", floor=60)
    builder = core.hir_fn("blots_core::expressions::pairs_to_expr_inner")["body"]
    g_infix = G.alt_names("infix_op") + G.alt_names("natural_infix_op")
    if len(set(g_infix)) != len(g_infix):
        ctx.inst("C10.R2", "grammar#infix-dup", False, "an infix rule is listed twice in infix_op/natural_infix_op", "blots-core/src/grammar.pest")
    t_rules = [r["rule"] for r in rows]
    c_infix = closure_of(builder, "map_infix", required=False)
    m_infix = rule_match(c_infix, required=False)
    b_pairs = {}
    infix_from_table = False
    t_pairs = {r["rule"]: r["binop"] for r in rows}
    if m_infix is not None:
        for vs, body, a in match_arms(m_infix):
            tgt = H.path_def(body)
            for v in vs:
                b_pairs[v] = H.last(tgt) if tgt else None
    elif c_infix is not None:
        # no match on the rule: the operator may be looked up in PRECEDENCE_TABLE itself (rule column -> BinaryOp column)
        for n in H.walk(c_infix["body"]):
            d_ = n.get("def") if H.kind(n) in ("Call", "MethodCall") else None
            if d_ and d_ in core.hir and any(H.kind(x) == "Path" and (x["res"].get("def") or "").endswith("precedence::PRECEDENCE_TABLE") for x in H.walk(core.hir[d_]["body"])):
                infix_from_table = True
            if H.kind(n) == "Path" and (n.get("res", {}).get("def") or "").endswith("precedence::PRECEDENCE_TABLE"):
                infix_from_table = True
        if infix_from_table:
            b_pairs = dict(t_pairs)
            ctx.notes.append("the AST builder takes the BinaryOp of an infix rule from PRECEDENCE_TABLE itself: builder pairs = table pairs by construction")
    if m_infix is None and not infix_from_table:
        for r in sorted(set(g_infix) | set(t_rules)):
            ctx.inst("C10.R2", "infix=%s" % r, None, "the builder's rule -> BinaryOp mapping could not be read (no match on the rule, no table lookup)", "blots-core/src/expressions.rs")
        g_infix_eff = []
    else:
        g_infix_eff = g_infix
    for r in (sorted(set(g_infix) | set(t_rules) | set(b_pairs)) if g_infix_eff else []):
        in_g, in_t, in_b = r in g_infix, r in t_pairs, r in b_pairs
        good = in_g and in_t and in_b and t_pairs[r] == b_pairs[r]
        ctx.inst("C10.R2", "infix=%s" % r, good, "grammar:%s table:%s builder:%s" % (in_g, t_pairs.get(r), b_pairs.get(r)), "blots-core/src/precedence.rs")
    # every BinaryOp variant appears exactly once in the table
    binops = [v["name"] for v in core.types["blots_core::ast::BinaryOp"]["variants"]]
    for b in binops:
        n = sum(1 for r in rows if r["binop"] == b)
        ctx.inst("C10.R2", "binop=%s" % b, n == 1, "appears %d time(s) in PRECEDENCE_TABLE" % n, "blots-core/src/precedence.rs")
    # lambda bodies: natural ops allowed there are a subset by design (a lambda body ends at via/into/where)
    lam_nat = set(G.alt_names("lambda_natural_infix_op"))
    ctx.inst("C10.R2", "lambda_natural_infix_op", lam_nat == set(G.alt_names("natural_infix_op")) - {"via", "into", "where_"},
             "lambda_natural_infix_op = %s (natural_infix_op minus via/into/where by design)" % sorted(lam_nat), "blots-core/src/grammar.pest")
    # prefix
    g_prefix = set(G.alt_names("prefix_op")) | set(G.alt_names("natural_prefix_op")) | {"spread_operator"}
    reg_prefix = set()
    reg_postfix = set()
    for ch in tail:
        for k, r in ch:
            (reg_prefix if k == "prefix" else reg_postfix if k == "postfix" else set()).add(r)
    m_prefix = rule_match(closure_of(builder, "map_prefix"))
    b_prefix = {v for vs, _, _ in match_arms(m_prefix) for v in vs}
    # when the registration code was not read (restructured builder), "not registered" is not known: undecided
    regs_read = bool(ok) or bool(reg_prefix or reg_postfix)
    # a registration whose operand is not a literal `Op::x(Rule::r) | ..` chain (a fold over an array of rules, a variable) was not read:
    # "not registered" is then not known
    if any(k_ == "?" for ch_ in tail for k_, _r in ch_):
        regs_read = False
    for r in sorted(g_prefix | reg_prefix | b_prefix):
        ctx.inst("C10.R2", "prefix=%s" % r, (r in g_prefix and r in reg_prefix and r in b_prefix) if (regs_read or r not in g_prefix or r not in b_prefix) else None,
                 "grammar:%s pratt:%s builder:%s" % (r in g_prefix, r in reg_prefix, r in b_prefix), "blots-core/src/precedence.rs")
    g_postfix = set(G.alt_names("postfix_op"))
    m_postfix = rule_match(closure_of(builder, "map_postfix"))
    b_postfix = {v for vs, _, _ in match_arms(m_postfix) for v in vs}
    for r in sorted(g_postfix | reg_postfix | b_postfix):
        ctx.inst("C10.R2", "postfix=%s" % r, (r in g_postfix and r in reg_postfix and r in b_postfix) if (regs_read or r not in g_postfix or r not in b_postfix) else None,
                 "grammar:%s pratt:%s builder:%s" % (r in g_postfix, r in reg_postfix, r in b_postfix), "blots-core/src/precedence.rs")
    # primaries: term == lambda_term alternatives; every non-silent primary the grammar can yield has a builder arm
    term, lterm = G.alt_names_flat("term"), G.alt_names_flat("lambda_term")
    ctx.inst("C10.R2", "term==lambda_term", term == lterm, "term=%s lambda_term=%s" % (term, lterm), "blots-core/src/grammar.pest")
    prim = set()
    for t in term:
        prim |= G.children({"k": "ident", "v": t})
    m_prim = rule_match(closure_of(builder, "map_primary"))
    b_prim = {v for vs, _, _ in match_arms(m_prim) for v in vs}
    for r in sorted(prim | b_prim):
        ctx.inst("C10.R2", "primary=%s" % r, r in b_prim and r in prim, "grammar can yield:%s builder arm:%s" % (r in prim, r in b_prim), "blots-core/src/expressions.rs")

    # operator tokens are the documented spellings
    for r in rows:
        lit = G.literal_of(r["rule"])
        ctx.inst("C10.R2", "token=%s" % r["binop"], lit == DOC_TOKENS.get(r["binop"]), "grammar literal %r, documented %r" % (lit, DOC_TOKENS.get(r["binop"])), "blots-core/src/grammar.pest")

    # ---------------- R3 ordered-choice / sequence shadowing
    ctx.rule("C10.R3", "no operator literal is shadowed: within infix_op no earlier literal is a proper prefix of a later one; no postfix literal is a proper prefix of an infix literal unless a look-ahead excludes it", floor=20)
    inf = [(n, G.literal_of(n)) for n in G.alt_names("infix_op")]
    for i, (n1, l1) in enumerate(inf):
        bad = [n2 for (n2, l2) in inf[i + 1:] if l2.startswith(l1) and l2 != l1]
        ctx.inst("C10.R3", "infix_op#%s" % n1, not bad, "literal %r precedes longer literal(s) of %s" % (l1, bad) if bad else "literal %r shadows no later alternative" % l1, "blots-core/src/grammar.pest")
    follow_first = G.first_chars({"k": "seq", "a": {"k": "rep", "e": {"k": "ident", "v": "prefix_usage"}}, "b": {"k": "ident", "v": "term"}}) | {" ", "\t", "\n", "\r", "/"}
    for p in G.alt_names("postfix_op"):
        s = G.seq(G.expr(p))
        if s[0]["k"] != "str":
            continue
        pl = s[0]["v"]
        for (n2, l2) in inf:
            if l2.startswith(pl) and l2 != pl:
                rest = l2[len(pl):]
                guard = s[1] if len(s) > 1 and s[1]["k"] == "neg" else None
                if guard is None and len(s) > 1:
                    tail_e = s[1]
                    for x in s[2:]:
                        tail_e = {"k": "seq", "a": tail_e, "b": x}
                    if not G.nullable(tail_e) and not G.can_start(tail_e, rest[0]):
                        ctx.inst("C10.R3", "postfix=%s/infix=%s" % (p, n2), True, "postfix %r + what must follow it cannot continue with %r: the postfix rule fails and PEG falls through to infix %r" % (pl, rest[0], l2), "blots-core/src/grammar.pest")
                        continue
                ok, why_ = False, "postfix %r is a proper prefix of infix %r and carries no look-ahead: PEG commits to the postfix reading (x%sy is a parse error)" % (pl, l2, l2)
                if guard is not None:
                    ge = guard["e"]
                    gs = G.seq(ge)
                    if gs[0]["k"] == "str" and rest.startswith(gs[0]["v"]):
                        if len(gs) == 1:
                            ok, why_ = True, "look-ahead !%r excludes %r" % (gs[0]["v"], l2)
                        elif len(gs) == 2 and gs[1]["k"] == "neg" and gs[0]["v"] == rest:
                            inner = G.first_chars(gs[1]["e"])
                            clash = inner & follow_first
                            ok = not clash
                            why_ = "look-ahead !(%r ~ !%s) excludes %r because no operand starts with %s" % (gs[0]["v"], sorted(inner), l2, sorted(inner)) if ok else "inner look-ahead clashes with operand starts %s" % sorted(clash)
                        else:
                            ok, why_ = None, "look-ahead of unrecognised shape"
                    else:
                        ok, why_ = False, "look-ahead does not exclude the remainder %r of %r" % (rest, l2)
                ctx.inst("C10.R3", "postfix=%s/infix=%s" % (p, n2), ok, why_, "blots-core/src/grammar.pest")
    # ... and the look-ahead refuses no more than that: written without a space, `x<postfix><infix>y` must still read as postfix then infix,
    # unless the joined text starts with another infix literal whose remainder can begin an operand
    def la_match(e, text, depth=0):
        """lengths the expression can consume at the start of `text` (literal-only PEG fragments); None if not evaluable"""
        k = e["k"]
        if depth > 12:
            return None
        if k == "str":
            return {len(e["v"])} if text.startswith(e["v"]) else set()
        if k == "seq":
            a = la_match(e["a"], text, depth + 1)
            if a is None:
                return None
            out = set()
            for n_ in a:
                b = la_match(e["b"], text[n_:], depth + 1)
                if b is None:
                    return None
                out |= {n_ + m_ for m_ in b}
            return out
        if k == "choice":
            a = la_match(e["a"], text, depth + 1)
            if a is None:
                return None
            if a:
                return a   # ordered choice
            return la_match(e["b"], text, depth + 1)
        if k in ("neg", "neg_pred"):
            a = la_match(e["e"], text, depth + 1)
            return None if a is None else (set() if a else {0})
        if k in ("pos", "pos_pred"):
            a = la_match(e["e"], text, depth + 1)
            return None if a is None else ({0} if a else set())
        if k == "opt":
            a = la_match(e["e"], text, depth + 1)
            return None if a is None else (a | {0})
        return None
    for p in G.alt_names("postfix_op"):
        s = G.seq(G.expr(p))
        if s[0]["k"] != "str" or len(s) < 2:
            continue
        pl = s[0]["v"]
        tail_e = s[1]
        for x in s[2:]:
            tail_e = {"k": "seq", "a": tail_e, "b": x}
        if not all(x["k"] in ("neg", "pos", "neg_pred", "pos_pred") for x in s[1:]):
            continue   # something real must follow the literal (an index, a field name): not a bare token with a look-ahead
        for (n2, l2) in inf:
            m_ = la_match(tail_e, l2 + "x")
            if m_ is None:
                ctx.inst("C10.R3", "postfix=%s~infix=%s#unspaced" % (p, n2), None, "look-ahead of %s not evaluable on %r" % (p, l2), "blots-core/src/grammar.pest")
                continue
            if m_:
                ctx.inst("C10.R3", "postfix=%s~infix=%s#unspaced" % (p, n2), True, "`x%s%sy` reads %s then %s" % (pl, l2, p, n2), "blots-core/src/grammar.pest")
                continue
            # the postfix is refused before this infix: fine only if the joined text is another infix operator followed by an operand
            joined = pl + l2
            alt_ok = False
            for (n3, l3) in inf:
                if joined.startswith(l3):
                    rest_ = joined[len(l3):]
                    if rest_ == "" or rest_[0] in follow_first:
                        alt_ok = True
                    break   # ordered choice: the first literal that matches is taken
            ctx.inst("C10.R3", "postfix=%s~infix=%s#unspaced" % (p, n2), alt_ok,
                     "the look-ahead of %s refuses %r; `x%sy` then %s" % (p, l2, joined, "reads as another operator" if alt_ok else "is a parse error although `x%s %s y` is a program" % (pl, l2)), "blots-core/src/grammar.pest")
    dot_needs_digit(ctx, "C10.R3", G)
    # a prefix operator applies to whatever operand follows: its rule carries no look-ahead that refuses some way an operand can start
    # (`"-" ~ !ASCII_DIGIT` hands `-3` to the literal's own sign: `-3!` becomes (-3)! instead of -(3!))
    operand_first = G.first_chars({"k": "seq", "a": {"k": "rep", "e": {"k": "ident", "v": "prefix_usage"}}, "b": {"k": "ident", "v": "term"}})
    for pr in G.alt_names_safe("prefix_op"):
        sq = G.seq(G.expr(pr))
        refused = set()
        for x in sq[1:]:
            if x["k"] in ("neg", "neg_pred"):
                try:
                    refused |= (G.first_chars(x["e"]) & operand_first)
                except Exception:
                    pass
        ctx.inst("C10.R3", "prefix=%s#applies-to-every-operand" % pr, not refused, "operand starts the rule's look-ahead refuses: %s" % (sorted(refused)[:12] or "none"), "blots-core/src/grammar.pest")
    # prefix literals vs infix: prefix_usage is tried only at operand start, no shadowing possible; recorded
    # ---------------- R4 keyword guards
    ctx.rule("C10.R4", "every word-like literal that is tried where an identifier is also admissible is followed by !identifier_rest or mandatory whitespace", floor=8)

    def guard_after(seq_, idx):
        if idx + 1 >= len(seq_):
            return False
        nx = seq_[idx + 1]
        if nx["k"] == "neg" and nx["e"]["k"] == "ident" and nx["e"]["v"] == "identifier_rest":
            return True
        g = G.is_ws_gap(nx)
        return g is not None and g[1] and "comment" not in g[0]

    def wordlike(lits):
        return [l for l in lits if l and (l[0].isalpha() or l[0] == "_")]

    ident_pos = term.index("identifier") if "identifier" in term else len(term)
    checked = set()

    def check_rule(rname, why_ctx):
        if rname in checked:
            return
        checked.add(rname)
        s = G.seq(G.expr(rname))
        head = s[0]
        try:
            lits = G.literals(head) if head["k"] in ("str", "choice") else None
        except CheckerError:
            lits = None
        if not lits or not wordlike(lits):
            return
        # the guard may sit inside this rule, or right after the reference at every use site
        ok = guard_after(s, 0)
        detail = "rule %s = %s..., guard inside rule: %s" % (rname, wordlike(lits), ok)
        if not ok:
            sites = []

            def uses(name, depth=0):
                for other in G.order:
                    for alt in G.alts(G.expr(other)):
                        sa = G.seq(alt)
                        for i, el in enumerate(sa):
                            if el["k"] == "ident" and el["v"] == name:
                                if len(sa) == 1 and G.ty(other) == "silent" and depth < 6:
                                    uses(other, depth + 1)  # pure forwarding choice: look at its own use sites
                                else:
                                    sites.append((other, guard_after(sa, i)))

            uses(rname)
            ok = bool(sites) and all(g for _, g in sites)
            detail += "; guarded at every use site: %s %s" % (ok, sites)
        ctx.inst("C10.R4", "keyword-rule=%s" % rname, ok, detail + " [" + why_ctx + "]", "blots-core/src/grammar.pest")

    for t in term[:ident_pos]:
        check_rule(t, "term alternative tried before identifier")
    for n in G.alt_names("natural_infix_op") + G.alt_names("natural_prefix_op"):
        check_rule(n, "word operator")
    for n in ("output_declaration", "return_statement"):
        s = G.seq(G.expr(n))
        idx = next((i for i, e in enumerate(s) if e["k"] == "str" and wordlike([e["v"]])), None)
        if idx is not None:
            ctx.inst("C10.R4", "keyword-rule=%s" % n, guard_after(s, idx), "keyword %r followed by a guard: %s" % (s[idx]["v"], guard_after(s, idx)), "blots-core/src/grammar.pest")
    # a word the grammar reads as a literal or keyword is read in one spelling only: identifier is case-sensitive, so a
    # case-insensitive keyword (`^"true"`) turns every other casing of it (`True`, `NULL`) from a plain name into that keyword
    def insens_words(rname, seen=None):
        seen = seen or set()
        if rname in seen or rname not in G.rules:
            return []
        seen.add(rname)
        out = [x["v"] for x in G.walk(G.expr(rname)) if x["k"] == "insens" and x["v"] and (x["v"][0].isalpha() or x["v"][0] == "_")]
        for r_ in G.refs(G.expr(rname)):
            if r_ in G.rules and G.ty(r_) == "silent":
                out += insens_words(r_, seen)
        return out
    kw_rules = list(term[:ident_pos]) + G.alt_names("natural_infix_op") + G.alt_names("natural_prefix_op") + ["output_declaration", "return_statement", "reserved_word"]
    for rn_ in sorted(set(kw_rules)):
        if rn_ not in G.rules:
            continue
        ws_ = insens_words(rn_)
        if ws_:
            ctx.inst("C10.R4", "keyword-rule=%s#case-sensitive" % rn_, False, "words read case-insensitively: %s - identifier is case-sensitive, so other casings of these words are bindable names that can no longer be read back" % sorted(set(ws_)), "blots-core/src/grammar.pest")
    ctx.inst("C10.R4", "keywords#case-sensitive", not any(insens_words(r_) for r_ in kw_rules if r_ in G.rules), "case-insensitive word literals in the %d keyword / literal rules: %s" % (len(set(kw_rules)), sorted({w_ for r_ in kw_rules if r_ in G.rules for w_ in insens_words(r_)}) or "none"), "blots-core/src/grammar.pest")
    # identifier excludes exactly whole reserved words
    ids = G.seq(G.expr("identifier"))
    okid = ids[0]["k"] == "neg" and G.seq(ids[0]["e"])[0] == {"k": "ident", "v": "reserved_word"} and len(G.seq(ids[0]["e"])) == 2 and G.seq(ids[0]["e"])[1] == {"k": "neg", "e": {"k": "ident", "v": "identifier_rest"}}
    ctx.inst("C10.R4", "identifier#excludes-whole-reserved-words-only", okid, "identifier = !(reserved_word ~ !identifier_rest) ~ ...: %s" % okid, "blots-core/src/grammar.pest")
    # every word-like literal used as a keyword in term-level rules is a reserved word (otherwise the name is usable nowhere but not reserved)
    reserved = G.literals(G.expr("reserved_word"))
    # ---------------- R5 reserved-word prefix freedom
    ctx.rule("C10.R5", "in reserved_word no earlier word is a proper prefix of a later one (PEG would commit to the shorter and accept the longer as an identifier)", floor=10)
    for i, w in enumerate(reserved):
        bad = [v for v in reserved[i + 1:] if v.startswith(w) and v != w]
        ctx.inst("C10.R5", "reserved=%s" % w, not bad, "shadows %s" % bad if bad else "no later reserved word starts with it", "blots-core/src/grammar.pest")

    # ---------------- R6 word and symbol spellings evaluate identically
    ctx.rule("C10.R6", "And/NaturalAnd and Or/NaturalOr share one arm in every match on the operator in the evaluator; invert/natural_not build the same UnaryOp", floor=4)
    ev = core.hir_fn("blots_core::expressions::evaluate_binary_op_ast")["body"]
    n_m = 0
    for m in H.matches_on(ev, "ast::BinaryOp"):
        arms = match_arms(m)
        for a_, b_ in (("And", "NaturalAnd"), ("Or", "NaturalOr")):
            ia = [i for i, (vs, _, _) in enumerate(arms) if a_ in vs]
            ib = [i for i, (vs, _, _) in enumerate(arms) if b_ in vs]
            if not ia and not ib:
                continue
            n_m += 1
            ctx.inst("C10.R6", "match@%s#%s" % (H.loc(m).split(":")[-1] and "L%d" % n_m, a_), ia == ib, "%s in arm %s, %s in arm %s" % (a_, ia, b_, ib), H.loc(m))
    # the same for every pattern and comparison in code reachable from the evaluator (tuple patterns, if-let, matches!, ==)
    from lib import mir as M_
    cg_ = M_.CallGraph([core])
    ev_reach = {n for n in cg_.reachable_from(["blots_core::expressions::evaluate_ast"]) if n.startswith("blots_core::expressions::") or n.startswith("blots_core::functions::")}
    TW = {"And": "NaturalAnd", "NaturalAnd": "And", "Or": "NaturalOr", "NaturalOr": "Or"}

    def binop_variants(p):
        return {H.last(x["res"].get("def") or "") for x in H.walk(p) if H.kind(x) in ("Path", "Struct", "TupleStruct") and "ast::BinaryOp::" in (x.get("res", {}).get("def") or "")}

    seen_parent = set()
    n_p = 0
    for fnm in sorted(ev_reach):
        par = cg_.fns[fnm].get("parent") or fnm
        if par in seen_parent or par not in core.hir:
            continue
        seen_parent.add(par)
        body = core.hir[par]["body"]
        pats = []
        for n in H.walk(body):
            if H.kind(n) == "Match":
                if n["scrut"].get("ty", "").lstrip("&").endswith("ast::BinaryOp") and par == "blots_core::expressions::evaluate_binary_op_ast":
                    continue  # decided arm by arm above
                for a in n["arms"]:
                    pats.append((a["pat"], n))
            elif H.kind(n) == "LetExpr":
                pats.append((n["pat"], n))
            elif H.kind(n) == "Binary" and n["op"] in ("Eq", "Ne"):
                vs = binop_variants(n["l"]) | binop_variants(n["r"])
                if vs & set(TW):
                    # a comparison against one spelling: the twin must be compared in the same condition
                    pats.append((None, n))
        for pat, node in pats:
            vs = binop_variants(pat) if pat is not None else (binop_variants(node["l"]) | binop_variants(node["r"]))
            hit = vs & set(TW)
            if not hit:
                continue
            n_p += 1
            missing = sorted(v for v in hit if TW[v] not in vs)
            if pat is None and missing:
                # look at the enclosing condition: `op == Or || op == NaturalOr`
                encl = [x for x in H.walk(body) if H.kind(x) == "If" and any(y is node for y in H.walk(x["cond"]))]
                if encl:
                    allv = set()
                    for y in H.walk(encl[0]["cond"]):
                        if H.kind(y) == "Binary" and y["op"] in ("Eq", "Ne"):
                            allv |= binop_variants(y["l"]) | binop_variants(y["r"])
                    missing = sorted(v for v in hit if TW[v] not in allv)
            ctx.inst("C10.R6", "%s#pattern[%d]" % (par.replace("blots_core::", ""), n_p), not missing,
                     "a pattern / comparison in the evaluator names %s%s" % (sorted(hit), "" if not missing else " but not the other spelling of %s: the word and the symbol form would evaluate differently" % missing), H.loc(node))
    pre = {}
    same_arm = False
    for vs, body, a in match_arms(m_prefix):
        st = [H.last(H.path_def(f["e"])) for n in H.walk(body) if H.kind(n) == "Struct" for f in n["fields"] if f["name"] == "op"]
        if not st:
            # the arm's value is the operator itself (`Rule::invert | Rule::natural_not => UnaryOp::Not`), the node is built after the match
            b_ = H.final_expr(body)
            if H.kind(b_) == "Path" and "ast::UnaryOp::" in (H.path_def(b_) or ""):
                st = [H.last(H.path_def(b_))]
        same_arm = same_arm or {"invert", "natural_not"} <= set(vs)
        for v in vs:
            pre[v] = st[0] if st else None
    vpre = True if (pre.get("invert") is not None and pre.get("invert") == pre.get("natural_not")) or same_arm else (False if pre.get("invert") is not None and pre.get("natural_not") is not None else None)
    ctx.inst("C10.R6", "prefix#invert==natural_not", vpre, "invert -> %s, natural_not -> %s%s" % (pre.get("invert"), pre.get("natural_not"), " (one arm)" if same_arm else ""), "blots-core/src/expressions.rs")

    # ---------------- R8 the lambda-body copy of infix_usage admits the same layout
    ctx.rule("C10.R8", "lambda_infix_usage is infix_usage with a smaller operator set: alternative by alternative the gaps before and after the operator admit the same layout (spaces / line breaks, optional / mandatory), so an expression keeps its meaning when it becomes a lambda body", floor=2)
    if "lambda_expression" in G.rules and "expression" in G.rules:
        # the body of a lambda is the expression rule again, term for term: same prefixes, postfixes and repetition, with the two
        # lambda-specific sub-rules in place of `term` and `infix_usage`
        import json as _json
        ren_ = {"term": "lambda_term", "infix_usage": "lambda_infix_usage"}

        def renamed(e):
            if isinstance(e, dict):
                if e.get("k") == "ident" and e.get("v") in ren_:
                    return dict(e, v=ren_[e["v"]])
                return {k_: renamed(v_) for k_, v_ in e.items()}
            return e
        same_ = _json.dumps(renamed(G.expr("expression")), sort_keys=True) == _json.dumps(G.expr("lambda_expression"), sort_keys=True)
        same_ty = G.ty("expression") == G.ty("lambda_expression")
        ctx.inst("C10.R8", "lambda_expression==expression", same_ and same_ty, "lambda_expression is expression with term -> lambda_term and infix_usage -> lambda_infix_usage: %s (same atomicity: %s)" % (same_, same_ty), "blots-core/src/grammar.pest")
    if "lambda_infix_usage" in G.rules and "infix_usage" in G.rules:
        A, B = G.alts(G.expr("infix_usage")), G.alts(G.expr("lambda_infix_usage"))
        if len(A) != len(B):
            ctx.inst("C10.R8", "alternatives", None, "infix_usage has %d alternatives, lambda_infix_usage %d: not compared" % (len(A), len(B)), "blots-core/src/grammar.pest")
        for i_, (a_, b_) in enumerate(zip(A, B)):
            sa, sb = G.seq(a_), G.seq(b_)
            ga = [G.is_ws_gap(e_) for e_ in sa]
            gb = [G.is_ws_gap(e_) for e_ in sb]
            same_shape = [g is None for g in ga] == [g is None for g in gb]
            if not same_shape:
                ctx.inst("C10.R8", "alternative[%d]" % i_, None, "the two alternatives have different shapes: not compared", "blots-core/src/grammar.pest")
                continue
            diffs = [(j_, x_, y_) for j_, (x_, y_) in enumerate(zip(ga, gb)) if x_ is not None and (sorted(x_[0]) != sorted(y_[0]) or x_[1] != y_[1])]
            ctx.inst("C10.R8", "alternative[%d]" % i_, not diffs,
                     "gaps of infix_usage %s vs lambda_infix_usage %s%s" % ([g for g in ga if g], [g for g in gb if g], "" if not diffs else ": position(s) %s differ - layout that is legal around an operator is not legal (or means something else) inside a lambda body" % [d_[0] for d_ in diffs]), "blots-core/src/grammar.pest")

    # ---------------- R7 atomicity cascade
    ctx.rule("C10.R7", "a rule whose body is matched only in atomic context (pest cascades @/$ into callees) and that admits line breaks between its tokens also admits spaces there", floor=1)
    actx = G.atomic_contexts()
    n7 = 0
    for n in G.order:
        if G.ty(n) not in ("normal", "silent"):
            continue
        if actx[n] != {"atomic"}:
            continue
        s = G.seq(G.expr(n))
        gaps = [G.is_ws_gap(e) for e in s]
        nl_only = [g for g in gaps if g is not None and "nl" in g[0] and "ws" not in g[0]]
        toks = [e for e, g in zip(s, gaps) if g is None]
        if len(toks) >= 2 and nl_only:
            n7 += 1
            ctx.inst("C10.R7", "rule=%s" % n, False, "rule %s is atomic by cascade (all callers atomic), admits NEWLINE between its tokens but no WHITESPACE: spaces legal in sibling constructs are a parse error here" % n, "blots-core/src/grammar.pest")
    # a line break in a gap may carry an end-of-line comment: either the gap is made of NEWLINE (which reads the comment away), or the
    # rule names `comment` as an alternative in its gaps (list, record, do_block keep them). A gap that admits only the bare line
    # break makes `if a // note` + line break a parse error where `if a` + line break parses
    def mentions(e, names):
        return any(x["k"] == "ident" and x["v"] in names for x in G.walk(e))
    n_c = 0
    for n in G.order:
        if n in ("plain_newline", "NEWLINE", "WHITESPACE", "program", "input", "statement", "comment", "eol_comment", "inline_comment") or n not in G.rules:
            continue
        s = G.seq(G.expr(n)) if G.expr(n)["k"] == "seq" else [x for a_ in G.alts(G.expr(n)) for x in G.seq(a_)]
        has_comment_alt = mentions(G.expr(n), {"comment", "eol_comment"})
        bare = []
        for e in s:
            g = G.is_ws_gap(e)
            if g is not None and "nl" in g[0] and mentions(e, {"plain_newline"}) and not mentions(e, {"NEWLINE"}):
                bare.append(e)
        toks = [e for e in s if G.is_ws_gap(e) is None]
        if bare and len(toks) >= 2:
            n_c += 1
            ctx.inst("C10.R7", "rule=%s#comment-at-line-end" % n, True if has_comment_alt else False, "rule %s has %d gap(s) that admit a bare line break%s" % (n, len(bare), " and reads comments in its gaps itself" if has_comment_alt else " but neither NEWLINE nor a comment alternative: a line break that follows an end-of-line comment is a parse error there, a bare one is not"), "blots-core/src/grammar.pest")
    # a comment inside a layout gap runs to the end of its line whatever it contains
    from rules import c09 as c09_
    c09_.comment_to_line_end(ctx, "C10.R7", G)
    ctx.inst("C10.R7", "grammar#cascade-scan", True, "scanned %d rules; %d atomic-by-cascade rules with newline-only gaps" % (len(G.order), n7), "blots-core/src/grammar.pest")


# ------------------------------------------------------------------ R9 names come from token pairs
TEXT_OPS = {"to_string", "to_owned", "into", "clone", "trim_start_matches", "trim_end_matches", "trim_matches", "replace", "replacen", "strip_prefix", "strip_suffix",
            "unwrap", "unwrap_or", "expect", "as_ref", "to_lowercase", "as_str_"}
TRIM_OPS = {"trim", "trim_start", "trim_end", "split_whitespace", "split_ascii_whitespace"}
NAME_SINKS = ("values::LambdaArg::", "ast::Expr::Identifier", "ast::Expr::InputReference", "ast::Expr::String", "ast::RecordKey::Static", "ast::RecordKey::Shorthand",
              "ast::Expr::Assignment", "ast::Expr::DotAccess")


def text_source(n, env, ops=(), depth=0):
    """(receiver of the `.as_str()` on a pest pair that a text expression is derived from, env, text operations applied) or None"""
    n = H.strip(n)
    k = H.kind(n)
    if depth > 12:
        return None
    if k == "MethodCall":
        if n["name"] == "as_str" and "pest::iterators" in (n.get("recv_ty") or (n["recv"].get("ty") or "")):
            return n["recv"], env, ops
        if n["name"] in TEXT_OPS or n["name"] in TRIM_OPS:
            return text_source(n["recv"], env, ops + (n["name"],), depth + 1)
        return None
    if k == "Index":
        return text_source(n["e"], env, ops + ("slice",), depth + 1)
    if k == "Path":
        l = n["res"].get("local")
        if l is not None and l in env.inline:
            init, e2 = env.inline[l]
            return text_source(init, e2, ops, depth + 1)
        return None
    if k == "Call" and H.last(n.get("def") or "") in ("from", "to_string", "to_owned") and n.get("args"):
        return text_source(n["args"][0], env, ops, depth + 1)
    return None


def pair_rules(n, env, guards, depth=0):
    """('pair', {rules}) / ('pairs', {rules of the parent pair}) for an expression denoting a pest pair / the children of one; None if unknown"""
    n = H.strip(n)
    k = H.kind(n)
    if depth > 12:
        return None
    if k == "Path":
        l = n["res"].get("local")
        if l is None:
            return None
        for g in reversed(guards):
            if g[0] == "arm" and len(g) > 3:
                sc = H.strip(g[3])
                if H.kind(sc) == "MethodCall" and sc["name"] == "as_rule" and H.path_local(sc["recv"]) == l:
                    vs = {H.last(v) for v in H.pat_variants(g[1]["pat"]) if "::Rule::" in v}
                    if vs and g[1].get("guard") is None or vs:
                        return ("pair", vs)
        if l in env.inline:
            init, e2 = env.inline[l]
            ty = (H.strip(init).get("ty") or "")
            if "Pairs<" in ty:
                return None  # an iterator held in a local: which child `next()` yields depends on the calls before it
            return pair_rules(init, e2, guards, depth + 1)
        return None
    if k == "MethodCall":
        nm = n["name"]
        if nm in ("unwrap", "expect", "clone", "unwrap_or_else"):
            return pair_rules(n["recv"], env, guards, depth + 1)
        if nm == "into_inner":
            r = pair_rules(n["recv"], env, guards, depth + 1)
            return ("pairs", r[1]) if r and r[0] == "pair" else None
        if nm == "next":
            r = pair_rules(n["recv"], env, guards, depth + 1)
            return ("first", r[1]) if r and r[0] == "pairs" else None
    return None


def names_from_tokens(ctx, rid, core, G, declare=True):
    if declare:
        ctx.rule(rid, "text that becomes a name, key or string in the tree is the text of a pair that cannot contain optional layout (an atomic token, or the single token child of a wrapper): the text of a composite pair includes the spaces pest admits between its parts", floor=6)
    from lib import scope
    n_sites = 0
    for name, f0 in sorted(core.hir.items()):
        if "::tests::" in name or f0.get("kind") not in ("Fn", "AssocFn") or not any("pest::iterators::pair" in t for t in f0.get("inputs", [])):
            continue
        f = core.hir_fn(name)

        def is_sink(n):
            if H.kind(n) == "Call":
                d = (H.strip(n["f"]).get("res") or {}).get("def") or ""
                return any(s in d for s in NAME_SINKS)
            if H.kind(n) == "Struct":
                return any(s in ((n.get("res") or {}).get("def") or "") for s in NAME_SINKS)
            return False
        for n, e, g in scope.sites(f["body"], is_sink, S.Env()):
            if H.kind(n) == "Call":
                d = (H.strip(n["f"]).get("res") or {}).get("def") or ""
                args = [("0", a) for a in n["args"] if "String" in (a.get("ty") or "")]
            else:
                d = (n.get("res") or {}).get("def") or ""
                args = [(fl["name"], fl["e"]) for fl in n["fields"] if (fl["e"].get("ty") or "") == "alloc::string::String"]
            for an, a in args:
                ts = text_source(a, e)
                if ts is None:
                    continue
                recv, e2, ops = ts
                pr = pair_rules(recv, e2, g)
                key = "%s#%s.%s" % (name.replace(CORE, ""), d.replace(CORE, ""), an)
                if pr is None:
                    ctx.notes.append("%s: the pair the text is read from was not identified (%s)" % (key, H.loc(n)))
                    continue
                kind_, rules_ = pr
                if kind_ == "first":
                    rules_ = set().union(*[G.first_children(r) for r in rules_ if r in G.rules]) if rules_ else set()
                    kind_ = "pair"
                    exact = all(len(G.first_children(r)) == 1 for r in pr[1] if r in G.rules)
                else:
                    exact = True
                if not rules_ or any(r not in G.rules for r in rules_):
                    continue
                n_sites += 1
                if kind_ == "pair":
                    lay = {r: G.layout(r) for r in rules_}
                else:
                    # Pairs::as_str: from the start of the first child to the end of the last one
                    lay = {}
                    for r in rules_:
                        kids = G.children(G.expr(r))
                        sub = [G.layout(c) for c in kids]
                        cm = G.child_max(r)
                        if "admits" in sub or ((cm is None or cm > 1) and G.layout(r) == "admits"):
                            lay[r] = "admits"
                        elif cm is not None and cm <= 1 and all(x == "free" for x in sub):
                            lay[r] = "free"
                        else:
                            lay[r] = "unknown"
                bad = sorted(r for r, v in lay.items() if v == "admits")
                unk = sorted(r for r, v in lay.items() if v == "unknown")
                trimmed = bool(set(ops) & TRIM_OPS)
                if bad and exact and not trimmed:
                    v = False
                elif bad or unk:
                    v = None
                else:
                    v = True
                ctx.inst(rid, key + "@" + "|".join(sorted(rules_)), v, "text of %s %s (%s); may contain optional layout: %s%s" % ("the pair" if kind_ == "pair" else "the children of", sorted(rules_), "then " + ",".join(ops) if ops else "as is", bad or "no", "; whitespace is trimmed afterwards" if trimmed else ""), H.loc(n))
    if n_sites == 0:
        ctx.inst(rid, "sites", None, "no name built from a pair's text was identified in the AST builder", None)


def binding_levels_rule(ctx, rid, core, rows):
    """effective binding levels = documented levels (shared with C07: the printers' parenthesisation is written against the documented table)"""
    ok, why, tail = builder_shape(core)
    ctx.inst(rid, "build_pratt_parser#shape", True if ok else None,
             "builder algorithm recognised (group by (prec,assoc) first-seen, one stable sort on prec, register in order, then prefix, factorial, access|dot_access|call_list)" if ok else "builder algorithm NOT recognised, the effective binding order cannot be read off it: " + "; ".join(why),
             "blots-core/src/precedence.rs")
    levels = parser_levels(rows, tail)
    if not ok:
        # without a recognised registration algorithm the level computation below would be a guess: no verdict on the levels
        for di, (dk, da, dops) in enumerate(DOC_LEVELS):
            for o in sorted(dops):
                ctx.inst(rid, "op=%s" % o, None, "not decided: the builder's registration algorithm was not recognised", "blots-core/src/precedence.rs")
        levels = []
    ctx.inst(rid, "levels#count", (len(levels) == len(DOC_LEVELS)) if ok else None, "parser has %d binding levels, documented %d: %s" % (len(levels), len(DOC_LEVELS), [sorted(l[2]) for l in levels]), "blots-core/src/precedence.rs")
    seen = {}
    for li, (kind, assoc, ops) in enumerate(levels):
        for o in ops:
            seen.setdefault(o, []).append(li)
    for di, (dk, da, dops) in enumerate(DOC_LEVELS if ok else []):
        for o in sorted(dops):
            where = seen.get(o, [])
            if len(where) != 1:
                ctx.inst(rid, "op=%s" % o, False, "operator registered %d times (levels %s)" % (len(where), where), "blots-core/src/precedence.rs")
                continue
            li = where[0]
            k, a, _ = levels[li]
            good = li == di and k == dk and (da is None or a == da)
            ctx.inst(rid, "op=%s" % o, good, "documented level %d (%s%s), parser level %d (%s%s)" % (di, dk, " " + da if da else "", li, k, " " + a if a else ""), "blots-core/src/precedence.rs")
    for o in sorted(set(seen) - set().union(*[d[2] for d in DOC_LEVELS])):
        ctx.inst(rid, "op=%s" % o, False, "operator %s is registered but not in the documented table" % o, "blots-core/src/precedence.rs")

    # whatever shape the builder has: pest's PrattParser binds in registration order, so a prefix / postfix operator registered inside the
    # loop over the infix groups sits *between* infix levels (the documented table has every prefix operator above every infix one)
    fb_ = core.hir_fn("blots_core::precedence::build_pratt_parser")["body"]
    inside = []
    for fo_ in H.walk(fb_):
        if H.kind(fo_) != "For":
            continue
        ops_ = [n_ for n_ in H.walk(fo_["body"]) if H.kind(n_) == "MethodCall" and n_["name"] == "op"]
        kinds_ = [(n_, {k_ for k_, _r in op_chain(n_["args"][0])}) for n_ in ops_]
        has_infix = any(H.kind(x_) == "Call" and ("pratt_parser::Op" in (x_.get("def") or "") and (x_.get("def") or "").endswith("::infix")) for x_ in H.walk(fo_["body"]))
        if has_infix:
            inside += ["%s at %s" % (sorted(ks - {"infix", "?"}), H.loc(n_)) for n_, ks in kinds_ if ks & {"prefix", "postfix"}]
    ctx.inst(rid, "build_pratt_parser#nothing-between-infix-levels", not inside, "prefix / postfix registrations inside the loop that registers the infix groups: %s" % (inside or "none"), "blots-core/src/precedence.rs")

    return ok, why, tail


def dot_needs_digit(ctx, rid, G):
    """inside a number literal a `.` is always followed by at least one digit: otherwise the literal swallows the dot of a following
    dot-prefixed comparison or field access (`5.==x` would read as `5. == x`)"""
    rules = [r for r in ("number", "decimal_number", "hex_number", "binary_number", "integer") if r in G.rules]
    # everything reachable from `number` through silent rules
    seen, st = set(), ["number"] if "number" in G.rules else []
    while st:
        r = st.pop()
        if r in seen or r not in G.rules:
            continue
        seen.add(r)
        st += [x for x in G.refs(G.expr(r)) if x in G.rules]
    bad = []
    def maximal_seqs(e, parent_is_seq=False):
        if not isinstance(e, dict):
            return
        if e["k"] == "seq" and not parent_is_seq:
            yield e
        for k_ in ("a", "b", "e"):
            if k_ in e and isinstance(e[k_], dict):
                yield from maximal_seqs(e[k_], e["k"] == "seq")
    for r in sorted(seen):
        for e in maximal_seqs(G.expr(r)):
            if e["k"] == "seq":
                parts = G.seq(e)
                for i_, p_ in enumerate(parts):
                    if p_["k"] == "str" and p_["v"] == "." and i_ + 1 < len(parts):
                        nxt = parts[i_ + 1]
                        try:
                            nullable = G.nullable(nxt)
                        except Exception:
                            nullable = None
                        if nullable:
                            bad.append("%s: `.` followed by an optional part" % r)
                    if p_["k"] == "str" and p_["v"] == "." and i_ + 1 == len(parts):
                        bad.append("%s: `.` at the end of the sequence" % r)
    ctx.inst(rid, "number#dot-needs-digit", not bad, "rules reachable from `number`: %s; a `.` that need not be followed by a digit: %s" % (sorted(seen), sorted(set(bad)) or "none"), "blots-core/src/grammar.pest")


def literal_text_verbatim(ctx, rid, core):
    """the characters of a string literal and of a static record key reach the tree as they were written (the grammar has no escapes:
    whatever rewrites the token's text - trimming quote characters, unescaping - changes the value). Shared with C06."""
    from lib import scope
    CONV = {"to_string", "to_owned", "into", "clone", "as_ref", "unwrap", "expect"}
    SINKS = ("ast::Expr::String", "ast::RecordKey::Static")
    n_s = 0
    for name, f0 in sorted(core.hir.items()):
        if "::tests::" in name or f0.get("kind") not in ("Fn", "AssocFn") or not any("pest::iterators::pair" in t for t in f0.get("inputs", [])):
            continue
        f = core.hir_fn(name)

        def is_sink(n):
            if H.kind(n) == "Call":
                return any(s_ in ((H.strip(n["f"]).get("res") or {}).get("def") or "") for s_ in SINKS)
            return False
        k = {}
        for n, e, g in scope.sites(f["body"], is_sink, S.Env()):
            d = (H.strip(n["f"]).get("res") or {}).get("def") or ""
            for a in n["args"]:
                if "String" not in (a.get("ty") or ""):
                    continue
                ts = text_source(a, e)
                lab = H.last(d)
                i_ = k.get(lab, 0)
                k[lab] = i_ + 1
                key = "%s#%s[%d]" % (name.replace(CORE, ""), lab, i_)
                if ts is not None:
                    ops = [o for o in ts[2] if o not in CONV]
                    n_s += 1
                    ctx.inst(rid, key, not ops, "the token's text%s" % (" as it is" if not ops else " after %s: characters of the literal are changed or dropped" % ops), H.loc(n))
                    continue
                a_ = H.strip(a)
                # through a let-bound local
                if H.kind(a_) == "Path" and H.path_local(a_) is not None:
                    l_ = H.path_local(a_)
                    if l_ in e.inline:
                        a_ = H.strip(e.inline[l_][0])
                    else:
                        # the last `let` of that name met before the use, in traversal order
                        last = None
                        for s_ in H.walk(f["body"]):
                            if s_ is n:
                                break
                            if isinstance(s_, dict) and s_.get("k") == "Let" and s_.get("init") is not None and l_ in H.pat_binds(s_["pat"]) and "String" in ((s_["pat"].get("ty") or "String")):
                                last = s_
                        if last is not None:
                            a_ = H.strip(last["init"])
                # a private helper inlined by hir_fn: `{ let (raw) = (pair.as_str()); <helper body> }`
                if H.kind(a_) == "Block" and a_["stmts"] and a_["stmts"][0].get("k") == "Let" and H.kind(a_["stmts"][0].get("pat")) == "Tuple" and \
                        any(H.kind(y) == "MethodCall" and y["name"] == "as_str" and "pest::iterators" in (y.get("recv_ty") or H.strip(y["recv"]).get("ty") or "") for y in H.walk(a_["stmts"][0].get("init") or {})):
                    n_s += 1
                    ctx.inst(rid, key, False, "the token's text goes through a helper of the builder before it becomes the value: the grammar has no escape sequences, every character of the literal is the value", H.loc(n))
                    continue
                if H.kind(a_) == "Call" and (a_.get("def") or "").startswith(CORE) and any(H.kind(y) == "MethodCall" and y["name"] == "as_str" and "pest::iterators" in (y.get("recv_ty") or H.strip(y["recv"]).get("ty") or "") for x_ in a_["args"] for y in H.walk(x_)):
                    n_s += 1
                    ctx.inst(rid, key, False, "the token's text goes through %s() before it becomes the value: the grammar has no escape sequences, every character of the literal is the value" % H.last(a_["def"]), H.loc(n))
                else:
                    ctx.inst(rid, key, None, "where the text comes from was not identified", H.loc(n))
    ctx.inst(rid, "literal-text#sites", True if n_s >= 2 else None, "%d sites where a token's text becomes a string value or a static key" % n_s, None)
