"""C03 — bindings are immutable and scoped (DESIGN §4 C03)."""
from lib import hir as H
from lib import mir as M
from lib.peg import Grammar
from lib.facts import CheckerError

NEED = ("dev",)

ENV = "blots_core::environment::Environment::"
EVAL = "blots_core::expressions::evaluate_ast"


def root_key(roots):
    """comparable form of a provenance root list"""
    out = []
    for r in roots:
        if r[0] == "param":
            out.append(("param", r[1], tuple(p for p in r[2] if not p.startswith("as:"))))
        elif r[0] == "call":
            out.append(("call", r[1], r[2]))
        elif r[0] == "local":
            out.append(("local", r[1], tuple(r[2])))
        else:
            out.append(r[:2])
    return sorted(set(out), key=str)


def edges_of_bool_call(fn, b):
    """for a call block whose bool result is tested by a switch: (true_successor, false_successor, switch_block)"""
    t = fn.term(b)
    sw = fn.switch_on_local(t["dest"]["l"], start=t["t"])
    if sw is None:
        return None
    sb, st = sw
    zero = [x[1] for x in st["targets"] if x[0] == "0"]
    if not zero:
        return None
    return st["otherwise"], zero[0], sb


def run(ctx):
    core, cli, wasm = ctx.core, ctx.cli, ctx.wasm
    crates = [core, cli, wasm]
    cg = M.CallGraph(crates)
    ctx.units["call_graph_functions"] = len(cg.fns)
    ctx.not_decided += ["interleavings of REPL histories beyond the inductive invariant (every insert is guarded)", "observability of a binding through heap mutation is C02.R2"]

    # ------------- R1 who may insert
    ctx.rule("C03.R1", "Environment::insert is called only by the evaluator's assignment handling and by driver set-up code that binds the constant key \"inputs\" before any evaluation; the bindings map has no other writer", floor=4)
    callers = M.callers_of(crates, lambda d: d == ENV + "insert")
    if not callers:
        raise CheckerError("no caller of Environment::insert found")
    # evaluator family = functions in blots_core that take an AST node and an environment and return Result<Value, RuntimeError>
    for name, bbs in sorted(callers.items()):
        f = cg.fns[name]
        fn = M.Fn(f, name)
        if name.startswith("blots_core::"):
            # a closure inside an evaluator function is part of that function
            hf = core.hir.get(name) or core.hir.get(f.get("parent") or "")
            is_eval = hf is not None and any("ast::Spanned<blots_core::ast::Expr>" in t for t in hf.get("inputs", [])) and any("environment::Environment" in t for t in hf.get("inputs", [])) and "values::Value" in hf.get("output", "")
            handles_assign = hf is not None and any(H.kind(n) in ("Struct",) and (n["res"].get("def") or "").endswith("ast::Expr::Assignment") for n in H.walk(hf["body"]) if isinstance(n.get("res"), dict))
            ok1 = bool(is_eval and handles_assign)
            why1 = "evaluator-family function destructuring Expr::Assignment: %s/%s" % (is_eval, handles_assign)
            if not ok1 and hf is not None and hf.get("vis") != "pub":
                # an assignment arm moved into a private helper: every caller of the helper must be such an evaluator function
                def is_assign_eval(n_):
                    h_ = core.hir.get(n_)
                    return h_ is not None and any("environment::Environment" in t for t in h_.get("inputs", [])) and \
                        any(H.kind(x) == "Struct" and (x["res"].get("def") or "").endswith("ast::Expr::Assignment") for x in H.walk(h_["body"]) if isinstance(x.get("res"), dict))
                hc = M.callers_of(crates, lambda d, name=name: d == name)
                par = {(cg.fns[c].get("parent") or c) for c in hc}
                if par and all(is_assign_eval(c) for c in par):
                    ok1 = True
                    why1 = "private helper called only from the evaluator's assignment handling (%s)" % sorted(par)
            ctx.inst("C03.R1", "caller=%s" % name, ok1, why1, fn.loc(bbs[0]))
        else:
            # driver: key must be the constant "inputs"; insert must not be reachable after an evaluation call
            evals = set(fn.calls_matching(lambda d: d.startswith("blots_core::expressions::evaluate") or d == "blots::evaluate_source" or d.endswith("FunctionDef::call")))
            for b in bbs:
                t = fn.term(b)
                kroots = fn.trace(t["args"][1])
                const_inputs = any(r[0] == "const" and '"inputs"' in r[1] for r in kroots)
                after_eval = [e for e in evals if b in fn.reachable(e)]
                eroots = fn.trace(t["args"][0])
                fresh_env = bool(eroots) and all(r[0] == "call" and r[1] in (ENV + "new", ENV + "with_bindings") for r in eroots)
                if not fresh_env and eroots and all(r[0] == "param" for r in eroots):
                    # the set-up lives in a helper that is handed the environment: every caller must hand it a fresh one, before any evaluation
                    pidx = {r[1] for r in eroots}
                    hcallers = M.callers_of(crates, lambda d, name=name: d == name)
                    good = bool(hcallers) and len(pidx) == 1
                    for cname, cbs in hcallers.items():
                        cfn = M.Fn(cg.fns[cname], cname)
                        cevals = set(cfn.calls_matching(lambda d: d.startswith("blots_core::expressions::evaluate") or d == "blots::evaluate_source" or d.endswith("FunctionDef::call")))
                        for cb in cbs:
                            ar = cfn.trace(cfn.term(cb)["args"][list(pidx)[0] - 1])
                            if not (ar and all(r[0] == "call" and r[1] in (ENV + "new", ENV + "with_bindings") for r in ar)) or any(cb in cfn.reachable(e) for e in cevals):
                                good = False
                    fresh_env = good
                ctx.inst("C03.R1", "caller=%s#%s" % (name, "inputs" if const_inputs else "setup"), fresh_env and not after_eval,
                         "set-up insert into an environment created here (%s), key provenance %s; reachable after an evaluation call: %s" % (fresh_env, [r[:2] for r in kroots], bool(after_eval)), fn.loc(b))
    writers = M.callers_of(crates, lambda d: "core::cell::RefCell::<T>::borrow_mut" in d or d.endswith("RefCell::<T>::borrow_mut"))
    env_writers = set()
    for name, bbs in writers.items():
        fn = M.Fn(cg.fns[name], name)
        for b in bbs:
            if "HashMap<alloc::string::String, blots_core::values::Value>" in fn.term(b)["argtys"][0]:
                env_writers.add(name)
    ctx.inst("C03.R1", "writers(LocalBindings)", env_writers == {ENV + "insert"}, "functions that borrow the bindings map mutably: %s" % sorted(env_writers), None)
    # insert touches the local scope only
    ins = core.hir_fn(ENV + "insert")
    parent_reads = [n for n in H.walk(ins["body"]) if H.kind(n) == "Field" and n["name"] == "parent"]
    ctx.inst("C03.R1", "Environment::insert#local-only", not parent_reads, "insert reads self.parent: %s" % bool(parent_reads), H.loc(ins["body"]))

    # ------------- R2 check-then-insert in the top-level assignment
    ctx.rule("C03.R2", "in evaluate_ast's assignment handling the insert is dominated by: not a built-in name, not a special name, the name not yet bound (same environment, same key, and not stale: no call that may bind lies between that test and the insert), and the Ok edge of the right-hand side", floor=4)
    ctx.rule("C03.R2b", "each string comparison of the assigned name that dominates the insert refuses on its true edge (path form of R4)", floor=0)
    ev = M.Fn(core.mir_fn(EVAL), EVAL)
    inserts = ev.calls_to(ENV + "insert")
    if len(inserts) != 1:
        # the assignment arm may live in a private helper: the function that inserts AND tests is_built_in_function / contains_key
        cands = []
        for name in sorted(callers):
            if not name.startswith("blots_core::expressions::") or name == EVAL:
                continue
            g_ = M.Fn(cg.fns[name], name)
            if len(g_.calls_to(ENV + "insert")) == 1 and (g_.calls_to("blots_core::functions::is_built_in_function") or g_.calls_to(ENV + "contains_key")):
                cands.append(g_)
        if len(cands) == 1:
            ev = cands[0]
            inserts = ev.calls_to(ENV + "insert")
            ctx.notes.append("top-level assignment handling found in %s" % ev.name)
    if len(inserts) != 1:
        for k_ in ("assignment#not-builtin", "assignment#not-bound", "assignment#after-success", "assignment#err-edge"):
            ctx.inst("C03.R2", k_, None, "the top-level assignment handling (one guarded Environment::insert) could not be located: %d insert call(s) in evaluate_ast" % len(inserts), ev.loc())
        inserts = None
    if inserts is None:
        return _rest_after_r2(ctx, core, cg, G_holder=None)
    I = inserts[0]
    it = ev.term(I)
    env_root = root_key(ev.trace(it["args"][0]))
    key_root = root_key(ev.trace(it["args"][1]))
    may_insert = cg.reaching(lambda n: n == ENV + "insert")
    ctx.units["may_bind_functions"] = len(may_insert)

    def gate(kind, cands, same_args=None):
        """some candidate call must dominate I with its 'refuse' edge unable to reach I"""
        best = None
        for b in cands:
            if not ev.dominates(b, I):
                continue
            e = edges_of_bool_call(ev, b)
            if e is None:
                continue
            tru, fal, sb = e
            if I in ev.reachable(tru) and tru != fal:
                # true edge still reaches the insert: not a refusal
                if not (I in ev.reachable(tru) and I not in ev.reachable(fal)):
                    continue
            if same_args and not same_args(b):
                continue
            best = (b, tru, fal)
        return best

    bi = gate("builtin", ev.calls_to("blots_core::functions::is_built_in_function"), lambda b: root_key(ev.trace(ev.term(b)["args"][0])) == key_root)
    # the test is there and dominates the insert, but what its answer leads to is decided through a value (`let reason = if is_built_in(..)
    # { Some(..) } ..; if let Some(r) = reason { return Err }`): not followed - a finding only when no such test dominates the insert at all
    bi_dom = [b for b in ev.calls_to("blots_core::functions::is_built_in_function") if ev.dominates(b, I) and root_key(ev.trace(ev.term(b)["args"][0])) == key_root]
    ctx.inst("C03.R2", "assignment#not-builtin", True if bi is not None else (None if bi_dom else False), "is_built_in_function(ident) dominates the insert and its true edge exits: %s%s" % (bi is not None, "" if bi is not None or not bi_dom else " (the test dominates the insert; its refusal goes through a value: not followed)"), ev.loc(I))
    # special-name comparisons: each `ident == "<name>"` test that dominates the insert must exit on its true edge
    n_sp = 0
    for b in ev.call_blocks():
        d = ev.callee_decl(b) or ""
        if not d.endswith("PartialEq::eq"):
            continue
        t = ev.term(b)
        consts = [r for a_ in t["args"] for r in ev.trace(a_) if r[0] == "const"]
        if not consts or not ev.dominates(b, I):
            continue
        if root_key(ev.trace(t["args"][0])) != key_root and root_key(ev.trace(t["args"][1])) != key_root:
            continue
        e = edges_of_bool_call(ev, b)
        nm = consts[0][1].strip('"')
        n_sp += 1
        ok = e is not None and I not in ev.reachable(e[0]) and I in ev.reachable(e[1])
        # path-insensitive: a `matches!` table joins all true edges in one flag, so a failed check is only "undecided";
        # the name table itself is decided by R4 on the HIR
        ctx.inst("C03.R2b", "assignment#refuses=%s" % nm, True if ok else None, "ident == %r dominates the insert; its true edge cannot reach the insert: %s" % (nm, ok), ev.loc(b))
    ck = ev.calls_to(ENV + "contains_key")
    fresh = None
    stale = None
    for b in ck:
        if not ev.dominates(b, I):
            continue
        t = ev.term(b)
        same = root_key(ev.trace(t["args"][0])) == env_root and root_key(ev.trace(t["args"][1])) == key_root
        e = edges_of_bool_call(ev, b)
        if e is None or not same:
            continue
        tru, fal, sb = e
        if I in ev.reachable(tru):
            continue
        # blocks on some path fal -> I
        between = {x for x in ev.reachable(fal) if I in ev.reachable(x) and x != I}
        binders = [x for x in between if ev.term(x)["k"] == "call" and (ev.callee(x) in may_insert or ev.callee_decl(x) in may_insert)]
        if binders:
            stale = (b, [ev.callee(x) for x in binders])
        else:
            fresh = b
    if fresh is not None:
        ctx.inst("C03.R2", "assignment#not-bound", True, "contains_key(env, ident) at bb%d dominates the insert; nothing that may bind lies between" % fresh, ev.loc(fresh))
    elif stale is not None:
        ctx.inst("C03.R2", "assignment#not-bound", False,
                 "the only contains_key test is stale: %s run(s) between the test and the insert and may bind the same name (x = (x = 5) + 1 binds x twice)" % sorted(set(stale[1])), ev.loc(stale[0]))
    else:
        ck_dom = [b for b in ck if ev.dominates(b, I) and root_key(ev.trace(ev.term(b)["args"][0])) == env_root and root_key(ev.trace(ev.term(b)["args"][1])) == key_root]
        ctx.inst("C03.R2", "assignment#not-bound", None if ck_dom else False, "no contains_key(env, ident) test on the same environment and key dominates the insert with a refusing edge%s" % (" (a test dominates the insert; its refusal goes through a value: not followed)" if ck_dom else ""), ev.loc(I))
    # value = Ok payload of the RHS evaluation, which dominates the insert
    vroots = ev.trace(it["args"][2])
    rhs = [r for r in vroots if r[0] == "call" and r[1] == EVAL]
    okv = bool(rhs) and all(ev.dominates(r[2], I) for r in rhs)
    ctx.inst("C03.R2", "assignment#after-success", okv, "inserted value provenance %s; evaluation dominates the insert (Err edge returns via ?)" % [r[:3] for r in vroots], ev.loc(I))
    if rhs:
        # the Err edge of the `?` on that evaluation cannot reach the insert
        eb = rhs[0][2]
        t = ev.term(eb)
        # Try::branch call on the result, then switch: Break edge must not reach I
        ok_err = True
        nb = t["t"]
        seen = 0
        while nb is not None and seen < 6:
            tt = ev.term(nb)
            if tt["k"] == "call" and (ev.callee_decl(nb) or "").endswith("Try::branch"):
                sw = ev.switch_on_local(None, tt["t"]) if False else None
                # discriminant switch follows
                nx = tt["t"]
                st = ev.term(nx)
                if st["k"] == "switch":
                    succs = ev.succ(nx)
                    reach = [s for s in succs if I in ev.reachable(s)]
                    ok_err = len(reach) == 1
                break
            nb = tt.get("t") if tt["k"] in ("goto", "drop") else None
            seen += 1
        ctx.inst("C03.R2", "assignment#err-edge", ok_err, "exactly one successor of the `?` on the right-hand side reaches the insert: %s" % ok_err, ev.loc(eb))
    return _rest_after_r2(ctx, core, cg, G_holder=None)


def _rest_after_r2(ctx, core, cg, G_holder=None):
    bi = True
    # ------------- R4 special names
    ctx.rule("C03.R4", "every name the evaluator resolves before the environment lookup (constants, inf, infinity), `inputs`, and every reserved word is refused by the assignment arm or unparsable as an identifier", floor=8)
    hev = core.hir_fn(EVAL)
    m = [x_ for x_ in [H.main_match(hev["body"], "ast::Expr")] if x_ is not None]
    if not m:
        raise CheckerError("no match on Expr in evaluate_ast")
    arms = {}
    for a in m[0]["arms"]:
        for v in H.pat_variants(a["pat"]):
            arms[H.last(v)] = a
    ident_arm = arms.get("Identifier")
    assign_arm = arms.get("Assignment")
    if ident_arm is None or assign_arm is None:
        raise CheckerError("Identifier/Assignment arm missing in evaluate_ast")
    special = set()
    for n in H.walk(ident_arm["body"]):
        if H.kind(n) == "Match":
            for a in n["arms"]:
                for x in H.walk(a["pat"]):
                    if H.kind(x) == "Lit" and x["lk"] == "str":
                        special.add(x["v"])
    refused = set()
    for n in H.walk(assign_arm["body"]):
        if H.kind(n) == "If":
            refused |= set(H.str_lits(n["cond"], core))
    G = Grammar(ctx.grammar)
    reserved = set(G.literals(G.expr("reserved_word")))
    for nm in sorted(special | {"inputs"}):
        ctx.inst("C03.R4", "name=%s" % nm, nm in refused or nm in reserved, "resolved specially by the evaluator; refused by the assignment arm: %s; reserved word: %s" % (nm in refused, nm in reserved), H.loc(assign_arm["body"]))
    for nm in sorted(reserved):
        ctx.inst("C03.R4", "reserved=%s" % nm, True, "reserved word: `identifier` cannot produce it (C10.R4/R5 decide the guard)", "blots-core/src/grammar.pest")
    # every word the grammar itself uses as a keyword token is unbindable too: reserved, or refused by the assignment arm.
    # Words that only occur as infix operators (a position where no identifier can start) are contextual and recorded, not judged.
    infix_only = set()
    for holder in ("natural_infix_op", "lambda_natural_infix_op"):
        if holder in G.rules:
            for r_ in G.alt_names_safe(holder) or []:
                try:
                    infix_only |= set(G.literals(G.expr(r_)))
                except CheckerError:
                    pass
    kw = {}
    for rn in G.order:
        if rn == "reserved_word":
            continue
        for e in G.walk(G.expr(rn)):
            if e["k"] == "str" and len(e["v"]) >= 2 and e["v"].isalpha() and e["v"].islower():
                kw.setdefault(e["v"], set()).add(rn)
    for w in sorted(kw):
        if w in reserved:
            continue  # decided above
        if w in infix_only and all(r_ in (G.alt_names_safe("natural_infix_op") or []) + (G.alt_names_safe("lambda_natural_infix_op") or []) for r_ in kw[w]):
            ctx.inst("C03.R4", "operator-word=%s" % w, None, "`%s` is spelled as a word but only occurs in infix position, where no name can start: it is bindable as a name today; whether the statement counts it as a keyword is not decided" % w, "blots-core/src/grammar.pest")
            continue
        ctx.inst("C03.R4", "keyword=%s" % w, w in refused, "the grammar uses `%s` as a keyword token (in %s) but `identifier` can produce it; refused by the top-level assignment arm: %s" % (w, sorted(kw[w]), w in refused), "blots-core/src/grammar.pest")
    ibf = core.hir.get("blots_core::functions::is_built_in_function")
    if ibf is not None:
        from lib import sig as S_
        pn_ = (H.pat_binds(ibf["params"][0]) or ["ident"])[0]
        t_ = S_.norm(ibf["body"], S_.Env(roles={pn_: ("name",)}))
        pre = [H.kind(x) for x in H.walk(ibf["body"]) if H.kind(x) in ("Ret", "If", "Match", "Loop", "For")]
        v_ = S_.verdict(t_, ("call", "is_some", ("fn", "from_ident", ("name",))))
        if pre and v_ is True:
            v_ = False if "Ret" in pre else None
            t_ = ("?", "early exit before the table lookup")
        ctx.inst("C03.R4", "is_built_in_function", v_,
                 "is_built_in_function(name) = %s (must be exactly the table lookup from_ident(name).is_some(): any pre-filter on the spelling lets some built-in name through)" % S_.show(t_)[:160], H.loc(ibf["body"]))
    ctx.inst("C03.R4", "builtins", bi is not None, "built-in names are refused through is_built_in_function (completeness of from_ident is C05.L7)", H.loc(assign_arm["body"]))

    # ------------- R5 what a bound name refers to is never modified in place
    from rules import c02
    c02.heap_write_once(ctx, "C03.R5", core, [core, ctx.cli, ctx.wasm], cg,
                        doc="the value a bound name refers to is never modified in place: heap cells are only appended; the one in-place write (naming a lambda) happens only while the name is unset, so a later binding cannot change what an earlier name does")

    fresh_child_scopes(ctx, "C03.R3", core, cg)
    from rules import c04 as c04_
    c04_.parameters_last(ctx, "C03.R3", core)
    # inside a call the function's own name denotes the function: every caller hands the function value itself as `this`
    ctx.rule("C03.R6", "the names visible inside a call are what the statement says: the function's own name is bound to the function value the caller resolved (never to an operand), and the names a do-block binds are bound for the capture analysis only after their right-hand side was scanned (so `x = x + 1` inside a function still reads - and captures - the outer x); every name the body reads is captured where the function is written and every parameter is bound on every call, so a caller's parameter or local of the same spelling is never what the body sees", floor=10)
    from rules import c13 as c13_
    c13_.this_pairing(ctx, "C03.R6", core)
    c04_.free_variable_rule(ctx, "C03.R6", core, only=lambda k_: k_.startswith("binder[") or k_.startswith("read-position=") or k_.startswith("recurses-into="))
    # ... and a name the function's writer could see is never taken from the caller instead: every free name of the body is captured
    # at definition, and every parameter is bound on every call (an unbound one would let an outer name of that spelling show through)
    c04_.capture_at_creation(ctx, "C03.R6", core)
    c04_.call_site_independent(ctx, "C03.R6", core)
    c04_.positional_binding(ctx, "C03.R6", core)
    scope_chain_rule(ctx, "C03.R7", core)
    # parameters shadow outer names in the source text emitted for a function, too (do-block locals in emitted source: C05.R8, a listed finding there)
    ctx.rule("C03.R8", "a function parameter that shadows a captured outer name keeps shadowing it in the source emitted for the function (output / to_string / JSON): the inliner removes the parameters of a nested function - of every kind, by their name, not their printed form - from the values it substitutes", floor=1)
    from rules import printers as P_
    from rules.c04 import _Only
    P_.R8_binders(_Only(ctx, lambda k_: k_.startswith("binder=Expr::Lambda")), "C03.R8", core)


def scope_chain_rule(ctx, rid, core):
    """'already defined' is decided over every enclosing scope, like the lookup itself"""
    ctx.rule(rid, "a name is 'already bound' exactly where it is visible: Environment::contains_key and Environment::get both test the local bindings and then ask the parent through themselves, all the way up (a one-level test lets `x = 2` two scopes below an `x` shadow it silently)", floor=2)
    for nm in ("get", "contains_key"):
        d = "blots_core::environment::Environment::" + nm
        f = core.hir.get(d)
        if f is None or f.get("body") is None:
            ctx.inst(rid, "Environment::%s#parent-step" % nm, None, "function not found", None)
            continue
        LOOKUPS = ("get", "contains_key", "contains_key_local")
        calls = [x for x in H.walk(f["body"]) if H.kind(x) == "MethodCall" and (x.get("def") or "").startswith("blots_core::environment::Environment::") and H.last(x["def"]) in LOOKUPS
                 and H.path_local(H.strip(x["recv"])) != "self"]
        rec = [x for x in calls if x["def"] == d]
        other = sorted({H.last(x["def"]) for x in calls if x["def"] != d})
        mentions_parent = any(H.kind(y) == "Field" and y.get("name") == "parent" for y in H.walk(f["body"]))
        loops = [x for x in H.walk(f["body"]) if H.kind(x) in ("Loop", "While", "For")]
        if loops and not rec:
            ctx.inst(rid, "Environment::%s#parent-step" % nm, None, "the scope chain is walked by an explicit loop (not modelled)", H.loc(loops[0]))
        elif rec:
            ctx.inst(rid, "Environment::%s#parent-step" % nm, True, "the enclosing scope is asked through %s itself" % nm, H.loc(rec[0]))
        elif other:
            ctx.inst(rid, "Environment::%s#parent-step" % nm, False, "the enclosing scope is asked through %s, which does not continue up the chain the way %s does" % (other, nm), H.loc(calls[0]))
        elif not mentions_parent:
            ctx.inst(rid, "Environment::%s#parent-step" % nm, False, "the enclosing scope is never consulted", H.loc(f["body"]))
        else:
            ctx.inst(rid, "Environment::%s#parent-step" % nm, None, "the walk over the enclosing scopes is not a call of %s on the parent (a loop or a helper: not modelled)" % nm, H.loc(f["body"]))


def fresh_child_scopes(ctx, rid, core, cg, doc=None):
    """do-block statements and function bodies run in a scope of their own (shared with C02: evaluating an expression leaves the enclosing bindings as they were)"""
    ctx.rule(rid, doc or "every do-block statement is evaluated in an environment created by Environment::extend in the same arm, and a function body in Environment::extend_with: a child scope never is the parent itself", floor=3)
    dob = "blots_core::expressions::evaluate_do_block_expr"
    for name in sorted(cg.fns):
        if not name.startswith("blots_core::"):
            continue
        fn = None
        for b in M.Fn(cg.fns[name], name).calls_to(dob) if dob in cg.out.get(name, ()) else []:
            fn = fn or M.Fn(cg.fns[name], name)
            roots = fn.trace(fn.term(b)["args"][2])
            ok = bool(roots) and all(r[0] == "call" and r[1] == ENV + "extend" for r in roots)
            n_do = sum(1 for i_ in ctx.instances if i_["rule"] == rid and i_["key"].startswith(H.last(name) + "->evaluate_do_block_expr"))
            ctx.inst(rid, "%s->evaluate_do_block_expr#%d" % (H.last(name), n_do), ok,
                     "environment argument provenance: %s" % [r[:2] for r in roots], fn.loc(b))
    fc = M.Fn(core.mir_fn("blots_core::functions::FunctionDef::call"), "FunctionDef::call")
    for b in fc.calls_to(EVAL):
        roots = M.follow_returns(cg, fc.trace(fc.term(b)["args"][2]), keep=lambda c_: c_.startswith(ENV))
        ok = bool(roots) and all(r[0] == "call" and r[1] == ENV + "extend_with" for r in roots)
        # positively wrong: the body runs in the caller's environment itself, or in one made without a layer for the call's locals
        if not ok:
            ok = False if any(r[0] == "param" or (r[0] == "call" and r[1] in (ENV + "new", ENV + "extend", ENV + "extend_shared")) for r in roots) else None
        ctx.inst(rid, "FunctionDef::call->evaluate_ast", ok, "body environment provenance: %s" % [r[:2] for r in roots], fc.loc(b))
