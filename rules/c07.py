"""C07 — the formatter preserves program meaning (DESIGN §4 C07): printer lints over the formatter's own functions
and the expr_to_source fall-back it shares with C05, plus: every line break / separator the formatter emits is
admitted by the grammar at that position."""
from lib.peg import Grammar
from rules import printers as P

NEED = ("dev",)


def run(ctx):
    core = ctx.core
    G = Grammar(ctx.grammar)
    ctx.not_decided += ["that the combination of layouts re-parses to the same tree for every width (only per-construct necessary conditions)"]
    P.L1_tokens(ctx, "C07.L1", core, G)
    P.L3_levels(ctx, "C07.L3", core, G)
    P.L4_strings(ctx, "C07.L4", core, G)
    P.L5_nonfinite(ctx, "C07.L5", core)
    P.L6_reserved(ctx, "C07.L6", core, G)
    P.L7_builtins(ctx, "C07.L7", core)
    from rules import panics
    panics.driver_text_untouched(ctx, "C07.R8", [core, ctx.cli, ctx.wasm])
    from rules import c10
    ctx.rule("C07.L12", "the parser binds as the documented table says (levels, members, associativity): the printers' parenthesisation rules are written against that table, so a parser that groups or orders operators differently re-reads unparenthesised output as another tree", floor=30)
    c10.CRATE[0] = core
    c10.binding_levels_rule(ctx, "C07.L12", core, c10.precedence_rows(core))
    from rules import symprint
    symprint.L2_guards(ctx, "C07.L2", core, G, scope_fns=("ast_to_source", "formatter"))
    symprint.shape_rules(ctx, "C07.R7", core, G, scope_fns=("ast_to_source", "formatter"))
    symprint.lambda_head(ctx, "C07.L11", core, G, scope_fns=("ast_to_source", "formatter"))
    # literal numbers are re-emitted exactly (shared with C16.R1 / C05.L10)
    from rules import c16
    ctx.rule("C07.L10", "numbers in formatted source are printed exactly: f64 Display without precision, or precision 0 dominated by fract() == 0", floor=3)
    c16.decimal_literals_are_floats(ctx, "C07.L10", core)
    pf = P.printer_fns(core)
    for pn in sorted(pf):
        for arm, var, vnames, vs in c16.number_arms(core, pn, pf[pn]):
            if not any(v.endswith("ast::Expr::Number") for v in vs):
                continue  # captured values (SerializableValue) only occur in function output, not in formatted programs
            key = "%s[Expr::Number]" % pn.replace("blots_core::", "")
            c16.classify_number_to_text(core, arm["body"], var, lambda k, ok, d, loc: ctx.inst("C07.L10", k, ok, d, loc), key, None)
