"""C07 — the formatter preserves program meaning (DESIGN §4 C07): printer lints over the formatter's own functions
and the expr_to_source fall-back it shares with C05, plus: every line break / separator the formatter emits is
admitted by the grammar at that position."""
from lib.peg import Grammar
from rules import printers as P

NEED = ("dev",)


def run(ctx):
    core = ctx.core
    G = Grammar(ctx.grammar)
    ctx.not_decided += ["that the combination of layouts re-parses to the same tree for every width (only per-construct necessary conditions)"]
    P.L1_tokens(ctx, "C07.L1", core, G)
    P.L3_levels(ctx, "C07.L3", core, G)
    P.L4_strings(ctx, "C07.L4", core, G)
    P.L5_nonfinite(ctx, "C07.L5", core)
    P.L6_reserved(ctx, "C07.L6", core, G)
    P.L7_builtins(ctx, "C07.L7", core)
    from rules import panics
    panics.driver_text_untouched(ctx, "C07.R8", [core, ctx.cli, ctx.wasm])
    # the list and record rules are one rule renamed: the formatter lays both out with the same code (trailing comma, comments before the bracket)
    import json as json_
    if "list" in G.rules and "record" in G.rules:
        def rn(e):
            if isinstance(e, dict):
                if e.get("k") == "ident" and e.get("v") == "list_item":
                    return dict(e, v="record_item")
                if e.get("k") == "str" and e.get("v") in ("[", "]", "[]"):
                    return dict(e, v={"[": "{", "]": "}", "[]": "{}"}[e["v"]])
                return {k_: rn(v_) for k_, v_ in e.items()}
            return e
        same_ = json_.dumps(rn(G.expr("list")), sort_keys=True) == json_.dumps(G.expr("record"), sort_keys=True) and G.ty("list") == G.ty("record")
        ctx.inst("C07.R8", "grammar#list==record", same_, "`list` is `record` with [ ] and list_item for { } and record_item: %s (what the shared multi-line layout prints for one must be accepted for the other)" % same_, "blots-core/src/grammar.pest")
    P.single_line_probe(ctx, "C07.R9", core)
    from rules import c10
    ctx.rule("C07.L12", "the parser binds as the documented table says (levels, members, associativity): the printers' parenthesisation rules are written against that table, so a parser that groups or orders operators differently re-reads unparenthesised output as another tree", floor=30)
    c10.CRATE[0] = core
    c10.binding_levels_rule(ctx, "C07.L12", core, c10.precedence_rows(core))
    from rules import symprint
    symprint.L2_guards(ctx, "C07.L2", core, G, scope_fns=("ast_to_source", "formatter"))
    symprint.param_markers(ctx, "C07.L13", core, scope_fns=("ast_to_source", "formatter"))
    symprint.shape_rules(ctx, "C07.R7", core, G, scope_fns=("ast_to_source", "formatter"))
    symprint.lambda_head(ctx, "C07.L11", core, G, scope_fns=("ast_to_source", "formatter"))
    # literal numbers are re-emitted exactly (shared with C16.R1 / C05.L10)
    from rules import c16
    ctx.rule("C07.L10", "numbers in formatted source are printed exactly: f64 Display without precision, or precision 0 dominated by fract() == 0", floor=3)
    c16.decimal_literals_are_floats(ctx, "C07.L10", core)
    pf = P.printer_fns(core)
    for pn in sorted(pf):
        for arm, var, vnames, vs in c16.number_arms(core, pn, pf[pn]):
            if not any(v.endswith("ast::Expr::Number") for v in vs):
                continue  # captured values (SerializableValue) only occur in function output, not in formatted programs
            key = "%s[Expr::Number]" % pn.replace("blots_core::", "")
            c16.classify_number_to_text(core, arm["body"], var, lambda k, ok, d, loc: ctx.inst("C07.L10", k, ok, d, loc), key, None)
