"""C06 — data survives output -> JSON -> input unchanged (DESIGN §4 C06)."""
import re
from lib import hir as H
from lib import mir as M
from lib.facts import CheckerError

NEED = ("dev",)

KIND = {  # canonical kind of each variant of the three value representations
    "core::option::Option::None": None,
}
JSON = {"Number": "number", "Bool": "bool", "Null": "null", "String": "string", "Array": "list", "Object": "record"}
SV = {"Number": "number", "Bool": "bool", "Null": "null", "String": "string", "List": "list", "Record": "record", "Lambda": "function", "BuiltIn": "function"}
VAL = {"Number": "number", "Bool": "bool", "Null": "null", "String": "string", "List": "list", "Record": "record", "Lambda": "function", "BuiltIn": "function", "Spread": "spread"}


def serde_json_features(meta):
    """resolved feature set of serde_json as used by the workspace (cargo metadata resolve graph)"""
    ids = {p["id"]: p for p in meta["packages"]}
    out = {}
    for n in meta["resolve"]["nodes"]:
        p = ids.get(n["id"])
        if p and p["name"] == "serde_json":
            out[p["version"]] = set(n.get("features", []))
    return out


def kind_of(path):
    if path is None:
        return None
    v = H.last(path)
    if "serde_json" in path:
        return JSON.get(v)
    if "SerializableValue" in path:
        return SV.get(v)
    if "values::Value" in path:
        return VAL.get(v)
    if path.startswith("heap::insert_"):
        return {"insert_list": "list", "insert_string": "string", "insert_record": "record", "insert_lambda": "function"}.get(v)
    return None


def table(core, fn_path, scrut_suffix):
    f = core.hir_fn(fn_path)
    ms = H.matches_on(f["body"], scrut_suffix)
    if not ms:
        raise CheckerError("no match on %s in %s" % (scrut_suffix, fn_path))
    m = ms[0]
    rows = []
    for a in m["arms"]:
        for v in H.pat_variants(a["pat"]):
            dst = H.ctor_of(a["body"])
            if dst is None:
                # the arm's value is itself a choice (`match helper(x) { Some(f) => f, None => Record(..) }`): the constructor its
                # explicit tails agree on
                fe0 = H.final_expr(a["body"])
                tails = []
                if H.kind(fe0) == "Match":
                    tails = [aa["body"] for aa in fe0["arms"]]
                elif H.kind(fe0) == "If" and fe0.get("else") is not None:
                    tails = [fe0["then"], fe0["else"]]
                ds = {H.ctor_of(t_) for t_ in tails} - {None}
                if len(ds) == 1:
                    dst = next(iter(ds))
            if dst is None:
                # heap-allocated kinds are built by Heap::insert_list / insert_string / insert_record / insert_lambda
                fe = H.final_expr(a["body"])
                if H.kind(fe) == "Call" and fe["args"]:
                    fe = H.final_expr(fe["args"][0])
                if H.kind(fe) == "MethodCall" and (fe.get("def") or "").startswith("blots_core::heap::Heap::insert_"):
                    dst = "heap::" + fe["name"]
            rows.append((v, dst, a))
    return rows


def run(ctx):
    core, cli = ctx.core, ctx.cli
    ctx.not_decided += ["serde_json's string escaping and ryu's number printing (trusted primitives)", "JSON object key order inside nested records (serde_json::Map is a BTreeMap; .== ignores order)"]

    # ---- R1 configuration
    ctx.rule("C06.R1", "serde_json is built with float_roundtrip (its default float parser is documented as not round-trip exact), and blots parses JSON text with serde_json", floor=2)
    feats = serde_json_features(ctx.metadata)
    if not feats:
        raise CheckerError("serde_json not in the resolve graph")
    for ver, fs in sorted(feats.items()):
        ctx.inst("C06.R1", "serde_json@features", "float_roundtrip" in fs,
                 "resolved features of serde_json %s: %s" % (ver, sorted(fs)), "blots/Cargo.toml")
        ctx.inst("C06.R1", "serde_json@arbitrary_precision", "arbitrary_precision" not in fs,
                 "arbitrary_precision would make as_f64 go through a string; features: %s" % sorted(fs), "blots/Cargo.toml")
    pj = M.Fn(cli.mir_fn("blots::parse_json_inputs"), "blots::parse_json_inputs")
    parsers = pj.calls_matching(lambda d: d.startswith("serde_json::de::from_str") or d.startswith("serde_json::from_str"))
    ctx.inst("C06.R1", "parse_json_inputs#parser", len(parsers) >= 1, "JSON text is parsed by %s" % [pj.callee(b) for b in parsers], pj.loc())

    # ---- R2 variant bijection
    ctx.rule("C06.R2", "from_json/to_json/from_value/to_value preserve the value kind (number, bool, null, string, list, record) arm by arm, compose to the identity on kinds, recurse with the same function, and fall back lossy only on the number arm", floor=24)
    tabs = {
        "from_json": table(core, "blots_core::values::SerializableValue::from_json", "serde_json::value::Value"),
        "to_json": table(core, "blots_core::values::SerializableValue::to_json", "values::SerializableValue"),
        "from_value": table(core, "blots_core::values::SerializableValue::from_value", "values::Value"),
        "to_value": table(core, "blots_core::values::SerializableValue::to_value", "values::SerializableValue"),
    }
    maps = {}
    for name, rows in tabs.items():
        mp = {}
        for src, dst, arm in rows:
            ks, kd = kind_of(src), kind_of(dst)
            mp[ks] = kd
            if ks in ("function", "spread"):
                continue
            ctx.inst("C06.R2", "%s#%s" % (name, H.last(src)), ks is not None and ks == kd,
                     "%s maps %s (%s) to %s (%s)" % (name, H.last(src), ks, H.last(dst) if dst else None, kd), H.loc(arm["body"]))
            # lossy fall-backs only on the number arm
            lossy = [n["name"] for n in H.walk(arm["body"]) if H.kind(n) == "MethodCall" and n["name"] in ("unwrap_or", "unwrap_or_else", "unwrap_or_default")]
            if lossy and ks != "number":
                ctx.inst("C06.R2", "%s#%s#lossy" % (name, H.last(src)), False, "lossy fall-back %s on a non-number arm" % lossy, H.loc(arm["body"]))
            # the number arm reads the JSON number through the total accessor only: as_f64 answers for every JSON number
            # (u64, i64, f64), as_i64 / as_u64 are partial and would route in-range values to the lossy fall-back
            if name == "from_json" and ks == "number":
                acc = sorted({n["name"] for n in H.walk(arm["body"]) if H.kind(n) == "MethodCall" and "serde_json::number::Number" in (n.get("recv_ty") or "")})
                ctx.inst("C06.R2", "from_json#Number#accessor", acc == ["as_f64"], "serde_json::Number accessors used: %s (only as_f64 is total; any other accessor makes the `unwrap_or` fall-back reachable for valid numbers)" % acc, H.loc(arm["body"]))
            # a string's content crosses the conversion verbatim: nothing in a string arm (or its guard) rewrites text
            if ks == "string":
                REWRITE = ("replace", "replacen", "trim", "trim_end", "trim_start", "trim_matches", "trim_end_matches", "trim_start_matches", "to_lowercase", "to_uppercase",
                           "to_ascii_lowercase", "to_ascii_uppercase", "escape_default", "escape_debug", "escape_unicode", "truncate", "strip_prefix", "strip_suffix", "retain", "filter", "nfc", "nfd")
                nodes_ = list(H.walk(arm["body"])) + (list(H.walk(arm["guard"])) if arm.get("guard") else [])
                rew = sorted({n["name"] for n in nodes_ if H.kind(n) == "MethodCall" and n["name"] in REWRITE})
                ctx.inst("C06.R2", "%s#%s#verbatim%s" % (name, H.last(src), "#guarded" if arm.get("guard") else ""), False if rew else True,
                         "text-rewriting calls in the string arm: %s (a string value must come back character for character)" % (rew or "none"), H.loc(arm["body"]))
            # recursion with the same function in container arms
            if ks in ("list", "record"):
                rec = [H.last(n.get("def") or "") for n in H.walk(arm["body"]) if H.kind(n) in ("Call", "MethodCall") and (n.get("def") or "").startswith("blots_core::values::SerializableValue::")]
                rec += [H.last(H.path_def(n) or "") for n in H.walk(arm["body"]) if H.kind(n) == "Path" and (n["res"].get("def") or "").startswith("blots_core::values::SerializableValue::") and n["res"].get("dk") == "AssocFn"]
                ctx.inst("C06.R2", "%s#%s#recursion" % (name, H.last(src)), name in rec,
                         "children converted by %s" % sorted(set(rec)), H.loc(arm["body"]))
        maps[name] = mp
    for k in ("number", "bool", "null", "string", "list", "record"):
        out_path = maps["to_json"].get(maps["from_value"].get(k))
        in_path = maps["to_value"].get(maps["from_json"].get(k))
        ctx.inst("C06.R2", "compose#output#%s" % k, out_path == k, "to_json(from_value(%s)) has kind %s" % (k, out_path), None)
        ctx.inst("C06.R2", "compose#input#%s" % k, in_path == k, "to_value(from_json(%s)) has kind %s" % (k, in_path), None)

    # ---- R3 containers keep declaration order on the output path
    ctx.rule("C06.R3", "records are IndexMap inside blots; the map handed to serde_json::to_string in write_outputs is an IndexMap", floor=3)
    for ty, fld in (("blots_core::values::SerializableValue", "Record"),):
        t = core.types.get(ty)
        if t is None:
            raise CheckerError("type missing: " + ty)
        v = [x for x in t["variants"] if x["name"] == fld][0]
        ctx.inst("C06.R3", "type(%s::%s)" % (H.last(ty), fld), v["fields"][0]["ty"].startswith("indexmap::map::IndexMap<"), v["fields"][0]["ty"], None)
    hv = core.types.get("blots_core::heap::HeapValue")
    rec = [x for x in hv["variants"] if x["name"] == "Record"][0]
    ctx.inst("C06.R3", "type(HeapValue::Record)", rec["fields"][0]["ty"].startswith("indexmap::map::IndexMap<"), rec["fields"][0]["ty"], None)
    wo = M.Fn(cli.mir_fn("blots::write_outputs"), "blots::write_outputs")
    ser = wo.calls_matching(lambda d: d.startswith("serde_json::ser::to_string") or d.startswith("serde_json::to_string"))
    if not ser:
        ctx.inst("C06.R3", "write_outputs#serializer", False, "write_outputs does not call serde_json::to_string", wo.loc())
    for b in ser:
        aty = wo.term(b)["argtys"][0]
        ctx.inst("C06.R3", "write_outputs#serializer", aty.lstrip("&").startswith("indexmap::map::IndexMap<"), "serde_json::to_string(%s)" % aty, wo.loc(b))

    output_file_rule(ctx, "C06.R6", cli)

    # ---- R7 numbers and texts are not filtered on the way
    ctx.rule("C06.R7", "to_json writes every finite number as itself: the Number arm is not split by a condition other than finiteness (the only numbers JSON cannot hold are NaN and the infinities); the piped / flag text handed to the JSON parser is the text that was read", floor=2)
    to_json_number_rule(ctx, "C06.R7", core)
    REWRITE = re.compile(r"::(replace|replacen|trim\w*|to_lowercase|to_uppercase|to_ascii_\w+|strip_\w+|split\w*|chars|filter|retain|truncate|remove|drain)$")
    k7 = 0
    for name, f in sorted(cli.mir.items()):
        fn_ = M.Fn(f, name)
        for b in fn_.calls_to("blots::parse_json_inputs"):
            roots = fn_.trace(fn_.term(b)["args"][0])
            bad = [r[1] for r in roots if r[0] == "call" and REWRITE.search(r[1])]
            ctx.inst("C06.R7", "%s->parse_json_inputs[%d]#text" % (name.replace("blots::", ""), k7), not bad,
                     "the JSON text comes from %s%s" % ([r[:2] for r in roots][:4], "" if not bad else ": rewritten by %s before it is parsed (characters inside strings and keys are affected too)" % bad), fn_.loc(b))
            k7 += 1

    from rules import printers as P_
    from lib.peg import Grammar as G_
    P_.string_atomic(ctx, "C06.R7", G_(ctx.grammar))

    # ---- R8 the equality the statement is phrased in
    ctx.rule("C06.R8", "`.==` on structured values is structural: Value::equals compares lists element by element and records key by key through equals itself (so a value that survived the round trip compares equal to the original, nulls and nested records included)", floor=2)
    from rules import c12 as c12_
    from lib import sig as S_
    _t, _i = S_.TEMPLATES, S_.INLINE
    S_.TEMPLATES = lambda n: ";".join(H.template_text(t) for t in H.macro_templates(core, n)) or None
    c12_.structural_equality(ctx, "C06.R8", core)
    S_.TEMPLATES, S_.INLINE = _t, _i

    # ---- R4 every member of an input object is bound
    ctx.rule("C06.R4", "parse_json_inputs inserts every (key, value) of an input object: the insert is conditional only on the Ok of the value conversion, keyed by the member's own key", floor=1)
    member_insert_rule(ctx, cli, "C06.R4")

    # ---- R10 every member of a list / record makes the trip; data is never refused
    ctx.rule("C06.R10", "the conversions between values and JSON map every member under its own key (no filter / skip / take on the members, no intermediate map keyed by anything but the key string), and the portability check that runs before emission refuses only functions: its data arms (list, record, scalar) construct no error of their own", floor=5)
    DROPS = {"filter", "filter_map", "skip", "skip_while", "take", "take_while", "step_by", "dedup", "dedup_by_key", "retain", "truncate", "pop", "remove", "swap_remove", "shift_remove", "flatten"}
    for fn_ in ("from_json", "to_json", "from_value", "to_value", "to_serializable_value"):
        cands = [n_ for n_ in core.hir if n_.endswith("Value::" + fn_) and core.hir[n_].get("body") is not None]
        for full in sorted(cands):
            fb = core.hir_fn(full)
            drops = sorted({"%s at %s" % (x["name"], H.loc(x)) for x in H.walk(fb["body"]) if H.kind(x) == "MethodCall" and x["name"] in DROPS and "pest::iterators" not in (x.get("recv_ty") or x["recv"].get("ty") or "") and "pest::iterators" not in (x.get("ty") or "")})
            odd_maps = sorted({(x.get("ty") or "")[:80] for x in H.walk(fb["body"]) if isinstance(x, dict) and re.search(r"(BTreeMap|HashMap|IndexMap)<(?!alloc::string::String|&str|&alloc::string::String)", (x.get("ty") or "")) and H.kind(x) in ("Call", "MethodCall", "Path")})
            ctx.inst("C06.R10", "%s#all-members" % full.replace("blots_core::", ""), not drops and not odd_maps, "adapters that can drop members: %s; maps keyed by something other than the key string: %s" % (drops or "none", odd_maps or "none"), H.loc(fb["body"]))
    vp = core.hir.get("blots_core::expressions::validate_portable_value")
    if vp is None or vp.get("body") is None:
        ctx.inst("C06.R10", "validate_portable_value#data-arms", None, "validate_portable_value not found", None)
    else:
        vpi = core.hir_fn("blots_core::expressions::validate_portable_value")
        mm_ = H.main_match(vpi["body"], "values::Value") or next(iter(H.matches_on(vpi["body"], "values::Value")), None)
        bad_ = []
        n_arms = 0
        for a_ in (mm_["arms"] if mm_ else []):
            vs_ = {H.last(v_) for v_ in H.pat_variants(a_["pat"])}
            if "Lambda" in vs_ or "BuiltIn" in vs_:
                continue
            n_arms += 1
            errs = [x for x in H.walk(a_["body"]) if (H.kind(x) == "Macro" and x.get("name") in ("anyhow", "bail", "format_err")) or (H.kind(x) == "Call" and H.last((H.strip(x["f"]).get("res") or {}).get("def") or x.get("def") or "") == "Err")]
            if errs:
                bad_.append("%s: %s" % (sorted(vs_), H.loc(errs[0])))
        ctx.inst("C06.R10", "validate_portable_value#data-arms", (not bad_) if n_arms else None, "data arms examined: %d; arms that can refuse a data value: %s" % (n_arms, bad_ or "none"), H.loc(vpi["body"]))

    # ---- R9 the JSON text is what serde_json wrote / what the user supplied
    json_text_rule(ctx, "C06.R9", [ctx.cli, ctx.wasm, core])
    whole_stdin_rule(ctx, "C06.R11", ctx.cli)
    text_in_rule(ctx, "C06.R13", ctx.cli)
    ctx.rule("C06.R15", "a string literal and a quoted record key denote exactly the characters between their quotes: the AST builder takes the token's text as it is (no trimming of quote characters, no unescaping - the grammar has none), so the JSON written for a value holds the code points the program wrote", floor=2)
    from rules import c10 as c10__
    c10__.literal_text_verbatim(ctx, "C06.R15", core)
    from rules import c11 as c11_
    ctx.rule("C06.R14", "a number written in a program is the number that is output: prefix minus is the IEEE negation of its operand (so `-0` stays -0 through output and input), never `0 - x`", floor=1)
    c11_.unary_rule(ctx, "C06.R14", core)
    from_json_number_rule(ctx, "C06.R7", core)
    heap_allocation_rule(ctx, "C06.R12", core)

    # ---- R5 reserved function-object key is one literal (shared with C05.L8)
    ctx.rule("C06.R5", "the function-object key probed by from_json and inserted by to_json is one and the same string literal", floor=3)
    keys = []
    for fn in ("blots_core::values::SerializableValue::from_json", "blots_core::values::SerializableValue::to_json"):
        for v_ in H.str_lits(core.hir_fn(fn)["body"], core):
            if v_.startswith("__"):
                keys.append((H.last(fn), v_, H.loc(core.hir_fn(fn)["body"])))
    vals = {k for _, k, _ in keys}
    for fn, k, loc in keys:
        ctx.inst("C06.R5", "%s#key@%s" % (fn, loc.split(":")[-1] if False else len([1 for a in keys[:keys.index((fn, k, loc))] if a[0] == fn])), len(vals) == 1 and k == "__blots_function", "literal %r" % k, loc)


def member_insert_rule(ctx, cli, RID):
    f = cli.hir_fn("blots::parse_json_inputs")
    loops = [n for n in H.walk(f["body"]) if H.kind(n) == "For"]
    found = False
    for lp in loops:
        it = H.strip(lp["iter"])
        if not (H.kind(it) == "MethodCall" and it["name"] in ("iter", "into_iter") or H.kind(it) == "Path"):
            continue
        binds = H.pat_binds(lp["pat"])
        if len(binds) != 2:
            continue
        kname, vname = binds

        def scan(n, guards):
            nonlocal found
            if isinstance(n, list):
                for x in n:
                    scan(x, guards)
                return
            if not isinstance(n, dict):
                return
            k = H.kind(n)
            if k == "If":
                c = H.strip(n["cond"])
                g = "ok-of-conversion" if H.kind(c) == "LetExpr" and any((v or "").endswith("Result::Ok") for v in H.pat_variants(c["pat"])) else "other-condition"
                scan(n["cond"], guards)
                scan(n["then"], guards + [g])
                if n.get("else"):
                    scan(n["else"], guards + ["else"])
                return
            if k == "Match" and n.get("src") == "match":
                scan(n["scrut"], guards)
                for a in n["arms"]:
                    vs = [H.last(v) for v in H.pat_variants(a["pat"])]
                    # `match conversion { Ok(val) => insert, Err(_) => continue }` is the if-let form written out
                    g = "ok-of-conversion" if vs == ["Ok"] and a.get("guard") is None else ("err-of-conversion" if vs == ["Err"] and a.get("guard") is None else "match:" + "|".join(vs))
                    scan(a["body"], guards + [g])
                return
            if k == "Let" and n.get("els") is not None:
                okpat = any((v or "").endswith("Result::Ok") for v in H.pat_variants(n["pat"]))
                scan(n.get("init"), guards)
                scan(n["els"], guards + ["err-of-conversion" if okpat else "other-condition"])
                return
            if k == "MethodCall" and n["name"] == "insert" and "IndexMap" in n.get("recv_ty", ""):
                key_ok = H.contains_local(n["args"][0], kname)
                bad = [g for g in guards if g not in ("ok-of-conversion",)]
                found = True
                ctx.inst(RID, "parse_json_inputs#object-member-insert", key_ok and not bad,
                         "insert(key from %r: %s) under conditions %s" % (kname, key_ok, guards), H.loc(n))
            if k in ("Continue", "Break", "Ret"):
                # moving on to the next member because this one's conversion failed is what the if-let form does implicitly
                if not (k == "Continue" and guards and all(g == "err-of-conversion" for g in guards)):
                    exits.append("%s under %s" % (k, guards or "no condition"))
            for v in n.values():
                if isinstance(v, (dict, list)):
                    scan(v, guards)

        exits = []
        scan(lp["body"], [])
        # early exits anywhere in the loop body
        if exits:
            ctx.inst(RID, "parse_json_inputs#loop-exit", False, "loop over object members contains %s: some members can be skipped" % exits, H.loc(lp))
    if not found:
        ctx.inst(RID, "parse_json_inputs#object-member-insert", None, "no insert found in a loop over the object's members", H.loc(f["body"]))


def output_file_rule(ctx, rid, cli):
    """shared with C19: the --output file is replaced, not patched"""
    wo = M.Fn(cli.mir_fn("blots::write_outputs"), "blots::write_outputs")
    # ---- R6 the output file holds exactly the object that was written
    ctx.rule(rid, "write_outputs replaces the --output file: it is opened with File::create / fs::write, or with OpenOptions that truncate and do not append (stale bytes of a longer earlier output would make the file unreadable as input)", floor=1)
    opens = wo.calls_matching(lambda d: d in ("std::fs::File::create", "std::fs::write", "std::fs::File::create_new") or d.startswith("std::fs::OpenOptions::") or d == "std::fs::File::options" or d == "std::fs::File::open")
    names = [wo.callee(b).split("::")[-1] if wo.callee(b).startswith("std::fs::OpenOptions") else wo.callee(b) for b in opens]
    if not opens:
        ctx.inst(rid, "write_outputs#open", None, "no file-opening call found in write_outputs (moved to a helper?)", wo.loc())
    else:
        creates = [n for n in names if n in ("std::fs::File::create", "std::fs::write")]
        oo = [n for n in names if n not in creates]
        trunc = False
        for b in opens:
            if wo.callee(b) == "std::fs::OpenOptions::truncate":
                a = wo.term(b)["args"][1]
                trunc = trunc or a.get("const", "").endswith("true")
        app = any(n == "append" for n in oo)
        ok6 = (bool(creates) and not oo) or (("open" in oo) and trunc and not app)
        ctx.inst(rid, "write_outputs#open", ok6, "file opened through %s; truncating: %s, appending: %s" % (sorted(set(names)), bool(creates) or trunc, app), wo.loc(opens[0]))


REWRITE = {"replace", "replacen", "trim", "trim_start", "trim_end", "trim_matches", "to_lowercase", "to_uppercase", "truncate", "retain", "remove", "insert_str",
           "insert", "pop", "drain", "replace_range", "split_off", "chars", "bytes", "split", "lines", "escape_default", "escape_debug", "escape_unicode", "strip_prefix", "strip_suffix"}
LOSSY = ("from_utf8_lossy", "to_string_lossy", "from_utf8_unchecked", "from_utf16_lossy")


def json_text_rule(ctx, rid, crates):
    """the text between the process boundary and serde_json is not touched: (a) what serde_json::to_string returned is written as
    it is, (b) no lossy byte-to-text decoding exists on the input path"""
    ctx.rule(rid, "JSON text crosses the process boundary unmodified: the string serde_json produced is written without being rewritten, and input bytes are never decoded lossily (a replaced, dropped or U+FFFD-substituted character is a different string after the round trip)", floor=2)
    n_ser = 0
    for cr in crates:
        for fname, f in sorted(cr.hir.items()):
            if f.get("body") is None or "::tests::" in fname or "parse::rules" in fname:
                continue
            sers = [x for x in H.walk(f["body"]) if H.kind(x) == "Call" and "serde_json" in (x.get("def") or "") and H.last(x.get("def") or "") in ("to_string", "to_string_pretty", "to_vec", "to_vec_pretty")]
            if sers:
                n_ser += 1
                # locals holding the produced text: bound from the call (let / if-let / match arm), and locals derived from those
                derived = set()
                for x in H.walk(f["body"]):
                    init = None
                    pat = None
                    if isinstance(x, dict) and x.get("k") == "Let" and x.get("init") is not None:
                        init, pat = x["init"], x["pat"]
                    elif H.kind(x) == "LetExpr":
                        init, pat = x["init"], x["pat"]
                    elif H.kind(x) == "Match":
                        if any(any(y is s_ for y in H.walk(x["scrut"])) for s_ in sers):
                            for a in x["arms"]:
                                derived |= set(H.pat_binds(a["pat"]))
                        continue
                    if init is not None and any(any(y is s_ for y in H.walk(init)) for s_ in sers):
                        derived |= set(H.pat_binds(pat))
                for _ in range(4):
                    for x in H.walk(f["body"]):
                        if isinstance(x, dict) and x.get("k") == "Let" and x.get("init") is not None and any(H.path_local(y) in derived for y in H.walk(x["init"]) if H.kind(y) == "Path"):
                            derived |= set(H.pat_binds(x["pat"]))
                # ... and the parameter of a closure mapped over the call's result (`to_string(..).map(|json| ..)`)
                for x in H.walk(f["body"]):
                    if H.kind(x) == "MethodCall" and x["name"] in ("map", "and_then", "map_or", "map_or_else", "inspect") and any(any(y is s_ for y in H.walk(x["recv"])) for s_ in sers):
                        for a_ in x["args"]:
                            if H.kind(H.strip(a_)) == "Closure":
                                for p_ in H.strip(a_)["params"]:
                                    derived |= set(H.pat_binds(p_))
                bad = []
                # a function of these crates that takes the text and hands back a text: the written document is then the helper's, not serde_json's
                for x in H.walk(f["body"]):
                    if H.kind(x) == "Call" and (x.get("def") or "").split("::")[0] in ("blots", "blots_core", "blots_wasm"):
                        hf_ = cr.hir.get(x["def"]) or {}
                        out_ = hf_.get("output") or ""
                        if ("String" in out_ or "Cow<" in out_ or "Vec<u8>" in out_) and any(H.path_local(y) in derived for a_ in x["args"] for y in H.walk(a_) if H.kind(y) == "Path"):
                            bad.append("%s() at %s" % (H.last(x["def"]), H.loc(x)))
                for x in H.walk(f["body"]):
                    if H.kind(x) == "MethodCall" and x["name"] in REWRITE:
                        r = H.strip(x["recv"])
                        direct = any(any(y is s_ for y in H.walk(r)) for s_ in sers)
                        if direct or any(H.path_local(y) in derived for y in H.walk(r) if H.kind(y) == "Path"):
                            rt = (x.get("recv_ty") or r.get("ty") or "")
                            if "String" in rt or "str" in rt or "Vec<u8>" in rt:
                                bad.append("%s() at %s" % (x["name"], H.loc(x)))
                ctx.inst(rid, "%s#serialised-text-untouched" % fname.replace("blots_core::", ""), not bad, "text produced by serde_json is held in %s; rewritten by: %s" % (sorted(derived) or "no local", bad or "nothing"), H.loc(sers[0]))
            lossy = [x for x in H.walk(f["body"]) if H.kind(x) in ("Call", "MethodCall") and (H.last(x.get("def") or "") in LOSSY or x.get("name") in LOSSY)
                     and not (x.get("sp") and x["sp"][5]) and "::_::<impl " not in fname]   # derive-generated visitors decode bytes only to word an error message
            if lossy:
                ctx.inst(rid, "%s#lossy-decoding" % fname.replace("blots_core::", ""), False, "lossy decoding of bytes to text: %s" % [H.loc(x) for x in lossy], H.loc(lossy[0]))
    ctx.inst(rid, "lossy-decoding#none", True, "every function of the three crates was scanned for from_utf8_lossy / to_string_lossy / from_utf8_unchecked; %d function(s) serialise with serde_json" % n_ser, None)


def to_json_number_rule(ctx, rid, core):
    """to_json writes every finite number through one path (shared with C16: the JSON text of a number is its own shortest digits)"""
    tj = core.hir_fn("blots_core::values::SerializableValue::to_json")
    mm = H.main_match(tj["body"], "values::SerializableValue")
    num_arms = [a for a in (mm["arms"] if mm else []) if any(H.last(v) == "Number" for v in H.pat_variants(a["pat"]))]
    if not num_arms:
        ctx.inst(rid, "to_json#Number", None, "no Number arm found in to_json", H.loc(tj["body"]))
    else:
        FIN = {"is_finite", "is_nan", "is_infinite"}
        conds = []
        for a in num_arms:
            if a.get("guard") is not None:
                conds += [x["name"] for x in H.walk(a["guard"]) if H.kind(x) == "MethodCall"] + [x["op"] for x in H.walk(a["guard"]) if H.kind(x) == "Binary" and x["op"] in ("Eq", "Ne", "Lt", "Le", "Gt", "Ge")]
            for x in H.walk(a["body"]):
                if H.kind(x) == "If":
                    conds += [y["name"] for y in H.walk(x["cond"]) if H.kind(y) == "MethodCall"] + [y["op"] for y in H.walk(x["cond"]) if H.kind(y) == "Binary" and y["op"] in ("Eq", "Ne", "Lt", "Le", "Gt", "Ge")]
        other = sorted(set(c for c in conds if c not in FIN))
        ctx.inst(rid, "to_json#Number", not other, "conditions that select how a number is written: %s (anything but a finiteness test sends some finite numbers - subnormals, large magnitudes - down a different path)" % (sorted(set(conds)) or "none"), H.loc(num_arms[0]["body"]))


def text_in_rule(ctx, rid, cli):
    """what is read from outside reaches its parser as it was read: the program file's text, and the JSON text of inputs"""
    ctx.rule(rid, "text read from outside reaches its parser unmodified: the program file's content is not rewritten between fs::read_to_string and the evaluation (string literals have no escapes: a normalised line ending inside one is a different string), and the JSON inputs text is handed to serde_json as it arrived, not through a pre-processing helper", floor=2)
    TRIMS = {"trim", "trim_start", "trim_end"}
    n_read = 0
    for fname, f in sorted(cli.hir.items()):
        if f.get("body") is None or "::tests::" in fname:
            continue
        reads = [x for x in H.walk(f["body"]) if H.kind(x) == "Call" and (x.get("def") or "") in ("std::fs::read_to_string",)]
        if reads:
            derived = set()
            bad = []
            for x in H.walk(f["body"]):
                if isinstance(x, dict) and x.get("k") == "Let" and x.get("init") is not None and any(any(y is r_ for y in H.walk(x["init"])) for r_ in reads):
                    derived |= set(H.pat_binds(x["pat"]))
                if H.kind(x) == "MethodCall" and x["name"] in ("map", "and_then", "map_or", "map_or_else") and any(any(y is r_ for y in H.walk(x["recv"])) for r_ in reads):
                    for a_ in x["args"]:
                        if H.kind(H.strip(a_)) == "Closure":
                            for p_ in H.strip(a_)["params"]:
                                derived |= set(H.pat_binds(p_))
                if H.kind(x) == "Match" and any(any(y is r_ for y in H.walk(x["scrut"])) for r_ in reads):
                    for a_ in x["arms"]:
                        derived |= set(H.pat_binds(a_["pat"]))
            for x in H.walk(f["body"]):
                if H.kind(x) == "MethodCall" and x["name"] in REWRITE and x["name"] not in ("chars", "bytes", "lines", "split") and (
                        any(H.path_local(y) in derived for y in H.walk(x["recv"]) if H.kind(y) == "Path") or any(any(y is r_ for y in H.walk(x["recv"])) for r_ in reads)):
                    rt = (x.get("recv_ty") or H.strip(x["recv"]).get("ty") or "")
                    if "String" in rt or "str" in rt:
                        bad.append("%s() at %s" % (x["name"], H.loc(x)))
            n_read += 1
            ctx.inst(rid, "%s#file-text-untouched" % fname, not bad, "text read from a file is held in %s; rewritten by: %s" % (sorted(derived) or "no local", bad or "nothing"), H.loc(reads[0]))
        for x in H.walk(f["body"]):
            if H.kind(x) == "Call" and (x.get("def") or "").startswith("serde_json::") and H.last(x.get("def") or "") in ("from_str", "from_slice", "from_reader") and x.get("args"):
                a_ = H.strip(x["args"][0])
                while H.kind(a_) in ("AddrOf",) or (H.kind(a_) == "Unary" and a_.get("op") == "Deref") or (H.kind(a_) == "MethodCall" and a_["name"] in (TRIMS | {"as_str", "as_ref", "as_bytes", "borrow", "deref"})):
                    a_ = H.strip(a_.get("e") or a_.get("recv"))
                params = {bn for p_ in f.get("params", []) for bn in H.pat_binds(p_)}
                l_ = H.path_local(a_)
                if l_ is not None:
                    v_ = True if l_ in params else None
                    d_ = "serde_json::%s reads %s%s" % (H.last(x["def"]), l_, " (the text the function was given)" if v_ else " (a local: not followed)")
                    # the text of a string *inside* the document parsed as a document again: a string value that happens to look
                    # like JSON comes back as a list or record
                    if v_ is None and any(H.kind(y) == "LetExpr" and l_ in H.pat_binds(y["pat"]) and any("serde_json" in v2 and v2.endswith("::String") for v2 in H.pat_variants(y["pat"])) for y in H.walk(f["body"])):
                        v_, d_ = False, "serde_json::%s is applied to the text of a string value of the document (%s): a string that looks like JSON is replaced by what it spells" % (H.last(x["def"]), l_)
                elif H.kind(a_) == "Call" and (a_.get("def") or "").split("::")[0] in ("blots", "blots_core", "blots_wasm"):
                    v_, d_ = False, "the JSON text goes through %s() before serde_json reads it: a pre-processing pass over JSON text has to know JSON's string and escape rules exactly, or it rewrites the inside of strings" % H.last(a_["def"])
                elif H.kind(a_) == "MethodCall" and a_["name"] in REWRITE:
                    v_, d_ = False, "the JSON text is rewritten with %s() before serde_json reads it" % a_["name"]
                else:
                    v_, d_ = None, "the argument of serde_json::%s is not a plain local" % H.last(x["def"])
                ctx.inst(rid, "%s#json-text-as-given" % fname, v_, d_, H.loc(x))
    ctx.inst(rid, "file-reads#found", n_read >= 1, "%d function(s) of the CLI read a program file with fs::read_to_string" % n_read, None)


def from_json_number_rule(ctx, rid, core):
    """a JSON number becomes the double nearest to it through serde_json's as_f64, whatever its spelling (shared with C15 / C16)"""
    fj = core.hir.get("blots_core::values::SerializableValue::from_json")
    if fj is None or fj.get("body") is None:
        ctx.inst(rid, "from_json#Number", None, "from_json not found", None)
        return
    arms = [a for m in H.walk(fj["body"]) if H.kind(m) == "Match" for a in m["arms"] if any(v.endswith("serde_json::Value::Number") or v.endswith("value::Value::Number") for v in H.pat_variants(a["pat"]))]
    if not arms:
        ctx.inst(rid, "from_json#Number", None, "no Number arm found in from_json", H.loc(fj["body"]))
        return
    names = sorted({x["name"] for a in arms for x in H.walk(a["body"]) if H.kind(x) == "MethodCall"})
    detour = [n for n in names if n in ("as_i64", "as_u64", "as_i128", "as_u128", "is_i64", "is_u64", "is_f64", "as_str", "to_string")]
    casts = [H.loc(x) for a in arms for x in H.walk(a["body"]) if H.kind(x) == "Cast"]
    ctx.inst(rid, "from_json#Number", False if (detour or casts) else ("as_f64" in names or None),
             "the Number arm converts through %s%s" % (names, "" if not (detour or casts) else ": an integer detour (%s%s) has no answer for part of the numbers a JSON document can hold (as_i64 is None from 2^63 on) or rounds twice" % (detour, ", casts at %s" % casts if casts else "")), H.loc(arms[0]["body"]))


def whole_stdin_rule(ctx, rid, cli, declare=True):
    """the piped document is read to its end: Read::read_to_string / read_to_end directly on Stdin (or its lock). A single `read`
    returns what one pipe write delivered; a `take` silently cuts the document"""
    if declare:
        ctx.rule(rid, "the piped inputs document is read to its end, directly from stdin: every non-interactive read of stdin in the CLI is read_to_string / read_to_end on Stdin or its lock - a single Read::read (whatever the pipe delivered first), a Read::take bound or a chunked reader in between makes the inputs depend on how the producer wrote them", floor=1)
    n_ok = n_bad = 0
    for fname, f in sorted(cli.mir.items()):
        fn = M.Fn(f, fname)
        for b in fn.call_blocks():
            c = fn.callee(b) or ""
            tys = " ".join(fn.term(b).get("argtys") or [])
            if not re.search(r"io::(stdio::)?Stdin", c + " " + tys):
                continue
            if re.search(r"::(read_to_string|read_to_end)(::<.*>)?$", c):
                direct = not re.search(r"Take<", c + " " + tys)   # a BufReader or a lock in between still reads to the end; a Take does not
                n_ok += 1 if direct else 0
                ctx.inst(rid, "%s#%s" % (fname, re.sub(r"::<.*>$", "", c).split("::")[-1]), direct, "stdin is read to the end through %s" % c, fn.loc())
            elif re.search(r"as std::io::Read>::(read|read_exact|read_buf|take|read_vectored)$", c):
                n_bad += 1
                ctx.inst(rid, "%s#%s" % (fname, H.last(c)), False, "stdin is read with %s: the program sees a prefix of the piped document (whatever one read returns / at most the bound), silently" % c, fn.loc())
    ctx.inst(rid, "stdin#read-to-end", True if n_ok >= 1 else (False if n_bad else None), "%d read_to_string / read_to_end call(s) on stdin; partial reads: %d (neither: the document is read some other way - not modelled)" % (n_ok, n_bad), None)


def heap_allocation_rule(ctx, rid, core):
    """every value that is put on the heap gets a cell of its own holding exactly what was handed over"""
    ctx.rule(rid, "Heap::insert_string / insert_list / insert_record / insert_lambda each allocate unconditionally: one straight-line call of Heap::insert with the argument wrapped in its own HeapValue variant, the pointer made from the index that call returned (a cache or shortcut in front of the allocation makes two different values share a cell); and no character is narrowed to a byte anywhere in the core (`c as u8` identifies characters 256 apart)", floor=5)
    for nm, var in (("insert_string", "String"), ("insert_list", "List"), ("insert_record", "Record"), ("insert_lambda", "Lambda")):
        f = core.hir.get("blots_core::heap::Heap::" + nm)
        if f is None or f.get("body") is None:
            ctx.inst(rid, "Heap::%s" % nm, None, "function not found", None)
            continue
        body = f["body"]
        ins = [x for x in H.walk(body) if H.kind(x) == "MethodCall" and x.get("def") == "blots_core::heap::Heap::insert"]
        pn = H.pat_binds(f["params"][1])[0] if len(f["params"]) > 1 and H.pat_binds(f["params"][1]) else None
        arg_ok = len(ins) == 1 and H.kind(H.strip(ins[0]["args"][0])) == "Call" and (H.path_def(H.strip(ins[0]["args"][0])["f"]) or "").endswith("HeapValue::" + var) and H.path_local(H.strip(ins[0]["args"][0])["args"][0]) == pn
        # the allocation is skipped on some path: an early return, or the insert sits inside a branch / loop
        early = [H.loc(x) for x in H.walk(body) if H.kind(x) == "Ret"]
        nested = [H.loc(x) for x in H.walk(body) if H.kind(x) in ("If", "Match", "Loop", "While", "For") and any(y is i_ for i_ in ins for y in H.walk(x) if y is not x)]
        if len(ins) >= 1 and (early or nested):
            ctx.inst(rid, "Heap::%s" % nm, False, "the allocation is conditional (early return at %s, insert inside %s): some values do not get a cell of their own" % (early or "-", nested or "-"), H.loc(body))
        else:
            ctx.inst(rid, "Heap::%s" % nm, True if arg_ok else None, "every path reaches the one Heap::insert of HeapValue::%s(%s): %s" % (var, pn, arg_ok), H.loc(body))
    fi = core.hir.get("blots_core::heap::Heap::insert")
    if fi is not None and fi.get("body") is not None:
        br = [H.kind(x) for x in H.walk(fi["body"]) if H.kind(x) in ("If", "Match", "Ret", "Loop", "While", "For")]
        push = [x for x in H.walk(fi["body"]) if H.kind(x) == "MethodCall" and x["name"] == "push"]
        ctx.inst(rid, "Heap::insert", False if br else (True if len(push) == 1 else None), "straight-line push of the value: %s" % (not br and len(push) == 1), H.loc(fi["body"]))
    n_c = 0
    for d, f in sorted(core.hir.items()):
        if f.get("body") is None or "::tests::" in d:
            continue
        for x in H.walk(f["body"]):
            if H.kind(x) == "Cast" and x.get("ty") in ("u8", "i8") and (H.strip(x["e"]).get("ty") or "") == "char" and not (x.get("sp") and x["sp"][5]):
                n_c += 1
                ctx.inst(rid, "%s#char-as-byte" % d.replace("blots_core::", ""), False, "a character is narrowed to a byte at %s: code points 256 apart become the same value" % H.loc(x), H.loc(x))
    ctx.inst(rid, "char-as-byte#none", n_c == 0, "casts from char to u8/i8 in the core: %d" % n_c, None)
