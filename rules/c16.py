"""C16 — numbers keep their exact value through every textual path (DESIGN §4 C16)."""
from lib import hir as H
from lib.peg import Grammar
from lib.facts import CheckerError
from rules import c06

NEED = ("dev",)

EXACT_TRAITS = ("Display", "LowerExp", "UpperExp", "Debug")


def number_arms(crate, fn_name, f):
    """match arms that bind the f64 payload of a *::Number variant, in a function that produces text"""
    out = []
    for n in H.walk(f["body"]):
        if H.kind(n) == "Match" and n.get("src") == "match":
            for a in n["arms"]:
                vs = H.pat_variants(a["pat"])
                if any(H.last(v) == "Number" for v in vs):
                    binds = [b for b in H.walk(a["pat"]) if H.kind(b) == "Bind" and b.get("ty", "").lstrip("&") == "f64"]
                    if binds:
                        out.append((a, binds[0]["name"], [H.last(v) for v in vs], vs))
    return out


depth_ = [0]


def classify_number_to_text(crate, arm_body, var, ctx_emit, key, loc_fn):
    """Examines every text-producing use of `var` in the arm. Emits instances."""
    n_sites = 0

    def guard_is_integral(cond):
        # cond contains `var.fract() == 0.0`
        for x in H.walk(cond):
            if H.kind(x) == "Binary" and x["op"] == "Eq":
                l, r = H.strip(x["l"]), H.strip(x["r"])
                for a, b in ((l, r), (r, l)):
                    if H.kind(a) == "MethodCall" and a["name"] == "fract" and H.path_local(a["recv"]) == var and H.lit(b) is not None and float(H.lit(b)["v"]) == 0.0:
                        # the equality must not sit under a disjunction
                        return True
        return False

    # f64 values computed from the number (scaled, rounded, split into mantissa and exponent): printing one of them instead of the number
    # itself is not exact
    ARITH_M = {"log10", "log2", "ln", "powi", "powf", "abs", "floor", "round", "trunc", "ceil", "mul_add", "sqrt", "exp", "fract", "rem_euclid", "div_euclid", "signum", "copysign", "recip"}
    derived = set()
    for _ in range(3):
        for x in H.walk(arm_body):
            if isinstance(x, dict) and x.get("k") == "Let" and x.get("init") is not None and H.kind(x.get("pat")) == "Bind":
                init_ = x["init"]
                mentions = any(H.path_local(y) == var or H.path_local(y) in derived for y in H.walk(init_) if H.kind(y) == "Path")
                computes = any((H.kind(y) == "Binary" and y["op"] in ("Add", "Sub", "Mul", "Div", "Rem")) or (H.kind(y) == "MethodCall" and y["name"] in ARITH_M) for y in H.walk(init_))
                if mentions and computes and (init_.get("ty") or x["pat"].get("ty") or "").lstrip("&") == "f64":
                    derived.add(x["pat"]["name"])

    def is_computed(arg):
        a = H.strip(arg)
        if H.path_local(a) in derived:
            return True
        if (a.get("ty") or "").lstrip("&") == "f64" and H.kind(a) in ("Binary", "MethodCall") and any(H.path_local(y) == var or H.path_local(y) in derived for y in H.walk(a) if H.kind(y) == "Path"):
            return (H.kind(a) == "Binary" and a["op"] in ("Add", "Sub", "Mul", "Div", "Rem")) or (H.kind(a) == "MethodCall" and a["name"] in ARITH_M)
        return False

    def visit(n, integral):
        nonlocal n_sites
        if isinstance(n, list):
            for x in n:
                visit(x, integral)
            return
        if not isinstance(n, dict):
            return
        k = H.kind(n)
        if k == "If":
            c = n["cond"]
            ok_guard = guard_is_integral(c) and not any(H.kind(x) == "Binary" and x["op"] == "Or" for x in H.walk(c))
            visit(c, integral)
            visit(n["then"], integral or ok_guard)
            if n.get("else"):
                visit(n["else"], integral)
            return
        if k == "MethodCall" and n["name"] == "to_string" and H.path_local(n["recv"]) == var:
            n_sites += 1
            rt = (n.get("recv_ty") or "").lstrip("&").replace("mut ", "")
            casts = [x for x in H.walk(n["recv"]) if H.kind(x) == "Cast"]
            if rt != "f64" or casts:
                ctx_emit(key + "#to_string", False, "the number is converted (%s) before Display: not the f64's own shortest round-trip digits (-0, values beyond the integer range and fractions are lost)" % (rt or "cast"), H.loc(n))
            else:
                ctx_emit(key + "#to_string", True, "f64 Display (shortest round-trip digits)", H.loc(n))
            return
        if k == "Macro" and n["name"] in ("format", "write", "writeln", "format_args"):
            for ph, arg in H.placeholder_args(crate, n):
                if arg is not None and is_computed(arg):
                    n_sites += 1
                    ctx_emit(key + "#format-of-computed-value", False, "the text is made from a value computed from the number (scaling / rounding / mantissa-exponent split), not from the number itself: the digits printed are those of the computed value", H.loc(n))
                if arg is not None and H.path_local(arg) == var:
                    n_sites += 1
                    prec, width, tr = ph.get("precision"), ph.get("width"), ph.get("trait")
                    if prec is None:
                        ctx_emit(key + "#format", tr in EXACT_TRAITS, "placeholder {:%s} without precision" % tr, H.loc(n))
                    elif prec == 0:
                        ctx_emit(key + "#format.0", integral, "precision-0 placeholder; dominated by `%s.fract() == 0.0`: %s" % (var, integral), H.loc(n))
                    else:
                        ctx_emit(key + "#format.%s" % prec, False, "fixed precision %s loses digits" % prec, H.loc(n))
            for a in n.get("args", []):
                visit(a, integral)
            return
        if k in ("Call", "MethodCall") and k == "Call":
            d = n.get("def") or ""
            if any(H.path_local(a) == var for a in n["args"]) and d.startswith("blots_core::") and d in crate.hir and "alloc::string::String" in (crate.hir[d].get("output") or ""):
                n_sites += 1
                # follow the number into the helper: every way the helper turns it into text must be exact as well
                hf_ = crate.hir.get(d)
                sub = []
                if hf_ is not None and hf_.get("body") is not None and depth_[0] < 2:
                    idx_ = next(i_ for i_, a in enumerate(n["args"]) if H.path_local(a) == var)
                    pn_ = H.pat_binds(hf_["params"][idx_]) if idx_ < len(hf_.get("params", [])) else []
                    if len(pn_) == 1:
                        depth_[0] += 1
                        classify_number_to_text(crate, hf_["body"], pn_[0], lambda k_, ok_, d_, loc_: sub.append((ok_, d_, loc_)), key + "#" + H.last(d), None)
                        depth_[0] -= 1
                if any(o is False for o, _, _ in sub):
                    bad_ = [x for x in sub if x[0] is False][0]
                    ctx_emit(key + "#" + H.last(d), False, "number handed to %s, which prints it inexactly: %s" % (d, bad_[1]), bad_[2] or H.loc(n))
                elif sub and all(o is True for o, _, _ in sub):
                    ctx_emit(key + "#" + H.last(d), True, "number handed to %s, which prints it exactly (%d site(s))" % (d, len(sub)), H.loc(n))
                else:
                    ctx_emit(key + "#" + H.last(d), None, "number handed to %s" % d, H.loc(n))
        if k == "Cast" and H.contains_local(n["e"], var):
            n_sites += 1
            ctx_emit(key + "#cast", False, "number cast before being printed (%s)" % n.get("ty"), H.loc(n))
        for v in n.values():
            if isinstance(v, (dict, list)):
                visit(v, integral)

    visit(arm_body, False)
    return n_sites


def run(ctx):
    core = ctx.core
    G = Grammar(ctx.grammar)
    ctx.not_decided += ["correct rounding inside std's f64 Display/FromStr and ryu (trusted)", "radix literals above i64::MAX are an error rather than a rounded value (recorded limit)"]

    # ---- R1 number -> text sites use round-trip-exact primitives only
    ctx.rule("C16.R1", "every number-to-text site on the exact paths (to_string/stringify non-display, function-source emission, formatter) is f64 Display/LowerExp without precision, or a precision-0 format dominated by fract() == 0", floor=6)
    printers = [k for k, f in core.hir.items() if f.get("output") in ("alloc::string::String",) and (k.startswith("blots_core::ast_to_source::") or k.startswith("blots_core::formatter::") or k == "blots_core::values::Value::stringify")]
    total = 0
    for pn in sorted(printers):
        f = core.hir[pn]
        for arm, var, vnames, vs in number_arms(core, pn, f):
            owner = "|".join(sorted({v.split("::")[-2] for v in vs}))
            key = "%s[%s::Number]" % (pn.replace("blots_core::", ""), owner)

            def emit(k, ok, d, loc, pn=pn):
                if pn == "blots_core::values::Value::stringify" and k.endswith("#format_display_number"):
                    # display path (format()/REPL), explicitly outside the exactness claim: selected by the display_format flag
                    ctx.inst("C16.R1", k, True, "display-format branch (C20's domain), selected by display_format", loc)
                else:
                    ctx.inst("C16.R1", k, ok, d, loc)

            total += classify_number_to_text(core, arm["body"], var, emit, key, None)
            # the digits Display / the formatter produced are the digits that are written: a function of the crate that takes that text
            # (digit grouping, padding, a clean-up pass) emits something else than the number's own shortest spelling
            if pn.startswith("blots_core::ast_to_source::") or pn.startswith("blots_core::formatter::"):
                for x in H.walk(arm["body"]):
                    if H.kind(x) == "Call" and (x.get("def") or "").startswith("blots_core::") and (core.hir.get(x["def"]) or {}).get("output") == "alloc::string::String":
                        takes_text = any(H.kind(y) == "Macro" and y.get("name") == "format" or (H.kind(y) == "MethodCall" and y["name"] == "to_string") for a_ in x["args"] for y in H.walk(a_))
                        if takes_text and any(H.contains_local(a_, var) for a_ in x["args"]):
                            ctx.inst("C16.R1", key + "#digits-rewritten-by-%s" % H.last(x["def"]), False, "the text made from the number is handed to %s() before it is emitted: what is written is no longer the number's own digits" % H.last(x["def"]), H.loc(x))
    ctx.units["number_to_text_sites"] = total
    # the stringify non-display branch must be the to_string one: `if display_format {display} else {n.to_string()}`
    sf = core.hir_fn("blots_core::values::Value::stringify")
    for arm, var, vnames, vs in number_arms(core, "stringify", sf):
        ifs = [n for n in H.walk(arm["body"]) if H.kind(n) == "If" and H.path_local(n["cond"]) == "display_format"]
        ok = False
        if ifs and ifs[0].get("else"):
            ok = any(H.kind(x) == "MethodCall" and x["name"] == "to_string" and H.path_local(x["recv"]) == var for x in H.walk(ifs[0]["else"]))
            ok = ok and not any(H.kind(x) == "MethodCall" and x["name"] == "to_string" for x in H.walk(ifs[0]["then"]))
        ctx.inst("C16.R1", "values::Value::stringify#non-display-branch", ok, "display_format=false branch prints with f64::to_string: %s" % ok, H.loc(arm["body"]))
    # to_string built-in goes through stringify_internal (display_format = false)
    bic = core.hir_fn("blots_core::functions::BuiltInFunction::call")
    m = [x_ for x_ in [H.main_match(bic["body"], "functions::BuiltInFunction")] if x_ is not None]
    arms = {}
    for a in m[0]["arms"]:
        for v in H.pat_variants(a["pat"]):
            arms[H.last(v)] = a
    ts = arms.get("ToString")
    if ts is None:
        raise CheckerError("no ToString arm in BuiltInFunction::call")
    calls = [H.last(n.get("def") or "") for n in H.walk(ts["body"]) if H.kind(n) == "MethodCall" and (n.get("def") or "").startswith("blots_core::values::Value::stringify")]
    ctx.inst("C16.R1", "functions::BuiltInFunction::call[ToString]", calls == ["stringify_internal"], "to_string renders with %s" % calls, H.loc(ts["body"]))
    # ... for every number: no branch of the arm picks numbers (or some of them) out for a spelling of its own
    own = [H.loc(x) for x in H.walk(ts["body"]) if isinstance(x, dict) and x.get("pat") is not None and any(v.endswith("values::Value::Number") for v in H.pat_variants(x["pat"]))]
    own += [H.loc(x) for x in H.walk(ts["body"]) if H.kind(x) == "MethodCall" and x["name"] in ("is_number", "as_number")]
    ctx.inst("C16.R1", "functions::BuiltInFunction::call[ToString]#numbers-not-special-cased", not own, "branches of to_string that select numbers: %s (a number spelled by anything but stringify_internal need not read back as itself: `-0` printed as `0`)" % (own or "none"), H.loc(ts["body"]))
    si = core.hir_fn("blots_core::values::Value::stringify_internal")
    lits = [H.lit(a)["v"] for n in H.walk(si["body"]) if H.kind(n) == "MethodCall" and n["name"] == "stringify" for a in n["args"] if H.lit(a) is not None]
    ctx.inst("C16.R1", "values::Value::stringify_internal#flags", lits == ["false", "false"], "stringify(heap, %s)" % ", ".join(lits), H.loc(si["body"]))
    # JSON output: serde_json::Number::from_f64 of the payload itself
    tj = core.hir_fn("blots_core::values::SerializableValue::to_json")
    for arm, var, vnames, vs in number_arms(core, "to_json", tj):
        ok = any(H.kind(n) == "Call" and (n.get("def") or "").endswith("Number::from_f64") and H.contains_local(n["args"][0], var) and H.kind(H.strip(n["args"][0])) in ("Path", "Unary") for n in H.walk(arm["body"]))
        ctx.inst("C16.R1", "values::SerializableValue::to_json[Number]", ok, "serde_json::Number::from_f64(*n) on the unmodified payload: %s" % ok, H.loc(arm["body"]))

    # ---- R2 = C06.R1
    ctx.rule("C16.R2", "JSON number input is correctly rounded: serde_json has float_roundtrip", floor=1)
    for ver, fs in sorted(c06.serde_json_features(ctx.metadata).items()):
        ctx.inst("C16.R2", "serde_json@features", "float_roundtrip" in fs, "serde_json %s features %s" % (ver, sorted(fs)), "blots/Cargo.toml")

    # ---- R3 literal grammar <-> conversion, and text -> number primitives
    ctx.rule("C16.R3", "each alternative of the grammar's `number` has a conversion branch keyed by the same sign/prefix set with the matching radix; underscores are removed; decimal text and to_number go through <f64 as FromStr> unmodified", floor=10)
    alts = G.alt_names("number")
    ctx.inst("C16.R3", "grammar#number-alternatives", alts == ["binary_number", "hex_number", "decimal_number"], "number = %s" % alts, "blots-core/src/grammar.pest")
    builder = core.hir_fn("blots_core::expressions::pairs_to_expr_inner")["body"]
    from rules.c10 import closure_of, rule_match
    import rules.c10 as _c10
    _c10.CRATE[0] = core
    mprim = rule_match(closure_of(builder, "map_primary"))
    num_arm = None
    for a in mprim["arms"]:
        if any(H.last(v) == "number" for v in H.pat_variants(a["pat"])):
            num_arm = a
    if num_arm is None:
        raise CheckerError("no Rule::number arm in map_primary")
    # walk the if / else-if chain
    chain = []
    node = None
    for n in H.walk(num_arm["body"]):
        if H.kind(n) == "If":
            node = n
            break
    while node is not None and H.kind(node) == "If":
        chain.append((node["cond"], node["then"]))
        e = H.final_expr(node["else"]) if node.get("else") else None
        if e is not None and H.kind(e) == "If":
            node = e
        else:
            chain.append((None, node.get("else")))
            node = None
    want = {}
    for gname, pre, radix in (("binary_number", "0b", 2), ("hex_number", "0x", 16)):
        s = G.seq(G.expr(gname))
        signs = [""]
        if s[0]["k"] == "opt":
            signs += G.literals(s[0]["e"])
        lit = [e["v"] for e in s if e["k"] == "str"]
        ctx.inst("C16.R3", "grammar#%s-prefix" % gname, lit[:1] == [pre], "grammar prefix %s" % lit[:1], "blots-core/src/grammar.pest")
        want[radix] = {sg + pre for sg in signs}
    for cond, then in chain:
        if cond is None:
            # decimal branch
            fe = then
            parse = [n for n in H.walk(fe) if H.kind(n) == "MethodCall" and n["name"] == "parse"]
            ok = len(parse) == 1 and "f64" in parse[0].get("ty", "")
            repl = [n for n in H.walk(fe) if H.kind(n) == "MethodCall" and n["name"] == "replace" and H.lit(n["args"][0]) and H.lit(n["args"][0])["v"] == "_" and H.lit(n["args"][1])["v"] == ""]
            arith = [n for n in H.walk(fe) if H.kind(n) in ("Binary", "Cast")]
            v_dec = True if (ok and bool(repl) and not arith) else (False if (parse and arith) else None)
            if v_dec is None and not parse:
                # the conversion lives somewhere else (a helper the arm calls): is there one in the crate's builder at all?
                v_dec = None
            ctx.inst("C16.R3", "builder#decimal", v_dec,
                     "decimal branch: parse::<f64> x%d, underscores removed: %s, arithmetic on the result: %d" % (len(parse), bool(repl), len(arith)), H.loc(fe))
            continue
        prefixes = {H.lit(n["args"][0])["v"] for n in H.walk(cond) if H.kind(n) == "MethodCall" and n["name"] == "starts_with" and H.lit(n["args"][0])}
        radices = [int(H.lit(n["args"][1])["v"]) for n in H.walk(then) if H.kind(n) == "Call" and (n.get("def") or "").endswith("from_str_radix") and H.lit(n["args"][1])]
        rad = radices[0] if len(radices) == 1 else None
        if rad is None or not prefixes:
            # the prefixes / radices may live in a named table of (prefix, sign, radix, ..) rows
            rows_ = []
            for x in H.walk(num_arm["body"]):
                if H.kind(x) == "Path" and x.get("res", {}).get("dk") in ("Const", "Static") and x["res"].get("def") in core.statics:
                    for tup in H.walk(core.statics[x["res"]["def"]]["body"]):
                        if H.kind(tup) == "Tup":
                            pre_ = [H.lit(e_)["v"] for e_ in tup["es"] if H.lit(e_) and H.lit(e_)["lk"] == "str"]
                            ints_ = [int(H.lit(e_)["v"]) for e_ in tup["es"] if H.lit(e_) and H.lit(e_)["lk"] == "int"]
                            sg_ = []
                            for e_ in tup["es"]:
                                e0_ = H.strip(e_)
                                if H.kind(e0_) == "Unary" and e0_["op"] == "Neg" and H.lit(e0_["e"]) and H.lit(e0_["e"])["lk"] == "float":
                                    sg_.append(-float(H.lit(e0_["e"])["v"]))
                                elif H.lit(e0_) and H.lit(e0_)["lk"] == "float":
                                    sg_.append(float(H.lit(e0_)["v"]))
                            if pre_ and ints_:
                                rows_.append((pre_[0], ints_[0], sg_[0] if sg_ else None))
            if rows_:
                for rad_ in sorted({r_[1] for r_ in rows_}):
                    pf_ = {r_[0] for r_ in rows_ if r_[1] == rad_}
                    has_sign_col = all(r_[2] is not None for r_ in rows_ if r_[1] == rad_)
                    v_rad = rad_ in want and pf_ == want[rad_]
                    if not v_rad and rad_ in want and not has_sign_col and pf_ and pf_ <= {w_.lstrip("+-") for w_ in want[rad_]}:
                        v_rad = None   # the table lists the unsigned markers; the sign is split off somewhere else (not followed here)
                    ctx.inst("C16.R3", "builder#radix-%s" % rad_, v_rad, "table rows give prefixes %s for radix %s; grammar admits %s" % (sorted(pf_), rad_, sorted(want.get(rad_, []))), H.loc(then))
                    sg_ok = all(r_[2] == (-1.0 if r_[0].startswith("-") else 1.0) for r_ in rows_ if r_[1] == rad_) if has_sign_col else None
                    ctx.inst("C16.R3", "builder#radix-%s#sign" % rad_, sg_ok, "sign column of the table: %s" % [(r_[0], r_[2]) for r_ in rows_ if r_[1] == rad_], H.loc(then))
                    repl_ = [n for n in H.walk(then) if H.kind(n) == "MethodCall" and n["name"] == "replace" and H.lit(n["args"][0]) and H.lit(n["args"][0])["v"] == "_"]
                    ctx.inst("C16.R3", "builder#radix-%s#underscores" % rad_, bool(repl_), "underscores removed before conversion: %s" % bool(repl_), H.loc(then))
            else:
                int_parse = [n for n in H.walk(num_arm["body"]) if H.kind(n) == "Call" and (n.get("def") or "").endswith("from_str_radix")]
                float_math = [n for n in H.walk(num_arm["body"]) if H.kind(n) == "Binary" and n["op"] in ("Mul", "Add") and "f64" in (n.get("ty") or "")]
                if prefixes and not int_parse:
                    ctx.inst("C16.R3", "builder#radix-branch", False, "non-decimal literals (prefixes %s) are not converted through an integer parse (from_str_radix): accumulating digits in floating point rounds twice above 2^53 (%d float multiply/add site(s))" % (sorted(prefixes), len(float_math)), H.loc(then))
                else:
                    ctx.inst("C16.R3", "builder#radix-branch", None, "a non-decimal branch whose prefixes / radix could not be read (prefixes %s, radix %s)" % (sorted(prefixes), rad), H.loc(then))
            continue
        ok = rad in want and prefixes == want[rad]
        ctx.inst("C16.R3", "builder#radix-%s" % rad, ok, "branch tests prefixes %s, converts with radix %s; grammar admits %s" % (sorted(prefixes), rad, sorted(want.get(rad, []))), H.loc(then))
        # sign table: strip_prefix("-..") -> -1.0, otherwise 1.0
        signs_ok = True
        detail = []
        for n in H.walk(then):
            if H.kind(n) == "If" and H.kind(H.strip(n["cond"])) == "LetExpr":
                c = H.strip(n["cond"])
                sp = [x for x in H.walk(c["init"]) if H.kind(x) == "MethodCall" and x["name"] == "strip_prefix" and H.lit(x["args"][0])]
                if sp:
                    pre = H.lit(sp[0]["args"][0])["v"]
                    tup = H.final_expr(n["then"])
                    if H.kind(tup) == "Tup":
                        sv = H.strip(tup["es"][0])
                        val = None
                        if H.kind(sv) == "Unary" and sv["op"] == "Neg" and H.lit(sv["e"]):
                            val = -float(H.lit(sv["e"])["v"])
                        elif H.lit(sv):
                            val = float(H.lit(sv)["v"])
                        detail.append((pre, val))
                        if val != (-1.0 if pre.startswith("-") else 1.0):
                            signs_ok = False
        ctx.inst("C16.R3", "builder#radix-%s#sign" % rad, signs_ok and len(detail) >= 2, "sign table %s" % detail, H.loc(then))
        repl = [n for n in H.walk(then) if H.kind(n) == "MethodCall" and n["name"] == "replace" and H.lit(n["args"][0]) and H.lit(n["args"][0])["v"] == "_"]
        ctx.inst("C16.R3", "builder#radix-%s#underscores" % rad, bool(repl), "underscores removed before conversion: %s" % bool(repl), H.loc(then))
    # whatever shape the conversion takes: hexadecimal / binary literals are read through an integer parse (exact), never accumulated in
    # floating point. The integer parser must be reachable from the AST builder.
    from lib import mir as M_
    cg_ = M_.CallGraph([core])
    reach_ = cg_.reachable_from(["blots_core::expressions::pairs_to_expr_inner"])
    int_parsers = sorted(c_ for n_ in reach_ if n_.startswith("blots_core::") or n_.startswith("<blots_core") for c_ in cg_.out.get(n_, ()) if c_.endswith("from_str_radix"))
    ctx.inst("C16.R3", "builder#integer-parse-reachable", bool(int_parsers), "integer parsers reachable from the AST builder: %s (hexadecimal / binary literals converted any other way round twice above 2^53)" % (sorted(set(int_parsers)) or "none"), None)
    decimal_literals_are_floats(ctx, "C16.R3", core)
    # the only characters taken out of a literal's text are the `_` separators: a filter that also drops signs takes the sign of the
    # exponent with it (`1e-5` read as 1e5)
    dropped = set()
    for x in H.walk(num_arm["body"]):
        if H.kind(x) == "MethodCall" and x["name"] in ("filter", "retain", "trim_matches", "trim_start_matches") and x.get("args"):
            for y in H.walk(x["args"][0]):
                if H.kind(y) == "Lit" and y.get("lk") in ("char", "str") and len(str(y.get("v"))) == 1:
                    dropped.add(str(y["v"]))
        if H.kind(x) == "MethodCall" and x["name"] in ("replace", "replacen") and len(x.get("args", [])) >= 2 and H.lit(x["args"][1]) is not None and H.lit(x["args"][1])["v"] == "" and H.lit(x["args"][0]) is not None:
            dropped.add(str(H.lit(x["args"][0])["v"]))
    ctx.inst("C16.R3", "builder#only-separators-removed", None if not dropped else dropped <= {"_"}, "characters removed from the literal's text wherever they stand: %s" % (sorted(dropped) or "none found"), H.loc(num_arm["body"]))
    # the radix marker is a prefix: looked for anywhere in the text, `0x10b1` contains a binary marker too
    anyw = ["%s(%r) at %s" % (x["name"], H.lit(x["args"][0])["v"], H.loc(x)) for x in H.walk(num_arm["body"]) if H.kind(x) == "MethodCall" and x["name"] in ("split_once", "rsplit_once", "find", "rfind", "contains", "split", "splitn", "match_indices") and x.get("args") and H.lit(x["args"][0]) and str(H.lit(x["args"][0])["v"]).lower() in ("0b", "0x", "b", "x")]
    ctx.inst("C16.R3", "builder#radix-marker-is-a-prefix", not anyw, "radix markers located anywhere in the literal instead of at its start: %s" % (anyw or "none"), H.loc(num_arm["body"]))
    # every decimal form may carry an exponent (`1e3`, `1.5e3`, `.5e3`)
    try:
        def expand(e, depth=0):
            if e["k"] == "ident" and e["v"] in G.rules and G.ty(e["v"]) == "silent" and depth < 6 and e["v"] != "integer":
                return expand(G.expr(e["v"]), depth + 1)
            out = dict(e)
            for k_ in ("a", "b", "e"):
                if k_ in e and isinstance(e[k_], dict):
                    out[k_] = expand(e[k_], depth + 1)
            return out
        dn = expand(G.expr("decimal_number"))
        def has_exp(e):
            return any(x["k"] == "insens" and x["v"].lower() == "e" for x in G.walk(e))
        alts_ = G.alts(dn)
        if len(alts_) == 1 and alts_[0]["k"] == "seq":
            parts_ = G.seq(alts_[0])
            head_alts = G.alts(parts_[0]) if parts_[0]["k"] == "choice" else None
            v_exp = True if (head_alts and any(has_exp(p_) for p_ in parts_[1:])) else (all(has_exp(a_) for a_ in (head_alts or [alts_[0]])) or None)
        else:
            v_exp = all(has_exp(a_) for a_ in alts_)
        ctx.inst("C16.R3", "grammar#exponent-on-every-decimal-form", v_exp, "alternatives of decimal_number: %d; each can be followed by an exponent: %s" % (len(alts_), v_exp), "blots-core/src/grammar.pest")
    except CheckerError as ex_:
        ctx.inst("C16.R3", "grammar#exponent-on-every-decimal-form", None, "not read: %s" % ex_, "blots-core/src/grammar.pest")
    # `1_000.5`: digit groups belong to the integer part, the fraction follows them, the exponent follows both
    try:
        found_ = []

        def seqs_of(e):
            """every maximal sequence below e, flattened"""
            if e["k"] == "seq":
                els = G.seq(e)
                yield els
                for el in els:
                    yield from seqs_of(el)
            else:
                for k_ in ("a", "b", "e"):
                    if isinstance(e.get(k_), dict):
                        yield from seqs_of(e[k_])
        seen_ids = set()
        for sq in seqs_of(dn):
            sid = id(sq[0])
            if sid in seen_ids:
                continue
            seen_ids.add(sid)
            i_us = next((i for i, el in enumerate(sq) if el["k"] in ("rep", "rep1") and any(x["k"] == "str" and x["v"] == "_" for x in G.walk(el))), None)
            i_fr = next((i for i, el in enumerate(sq) if el["k"] == "opt" and any(x["k"] == "str" and x["v"] == "." for x in G.walk(el))), None)
            if i_us is not None and i_fr is not None:
                found_.append(i_us < i_fr)
        ctx.inst("C16.R3", "grammar#digit-groups-before-fraction", None if not found_ else all(found_), "sequences of decimal_number holding both `_` groups and an optional fraction: %d; the groups precede the fraction in each: %s (otherwise `1_000.5` is not a literal)" % (len(found_), found_), "blots-core/src/grammar.pest")
    except CheckerError as ex_:
        ctx.inst("C16.R3", "grammar#digit-groups-before-fraction", None, "not read: %s" % ex_, "blots-core/src/grammar.pest")
    ctx.rule("C16.R4", "a negative literal is read as Negate(number) and evaluated as the IEEE negation, so the text `-0` reads back as -0 (not as 0 - 0 = +0); the sign binds tighter than every infix operator, so a negative number emitted bare in front of `^` or `??` is still that number", floor=3)
    from rules import c11 as c11_
    c11_.unary_rule(ctx, "C16.R4", core)
    # a negative number is emitted as `-` and its digits, bare: it reads back as that number only while the sign binds tighter than
    # every infix operator around it (`-3 ^ x` must stay `(-3) ^ x`)
    from rules import c10 as c10_
    from rules.c04 import _Only
    c10_.CRATE[0] = core
    try:
        c10_.binding_levels_rule(_Only(ctx, lambda k_: k_ in ("op=negation", "build_pratt_parser#nothing-between-infix-levels", "build_pratt_parser#shape")), "C16.R4", core, c10_.precedence_rows(core))
    except CheckerError as ex_:
        ctx.inst("C16.R4", "op=negation", None, "binding levels not read: %s" % ex_, "blots-core/src/precedence.rs")
    tn = arms.get("ToNumber")
    if tn is None:
        raise CheckerError("no ToNumber arm")
    parse = [n for n in H.walk(tn["body"]) if H.kind(n) == "MethodCall" and n["name"] == "parse"]
    okp = len(parse) == 1 and "f64" in (parse[0].get("ty") or "")
    arith = [n for n in H.walk(tn["body"]) if H.kind(n) == "Binary" and n["op"] in ("Add", "Sub", "Mul", "Div")]
    # a successfully parsed number is returned whatever it is: a filter on its class (is_normal, is_subnormal, classify, a magnitude test)
    # rejects texts that to_string produced for some number
    filt = sorted({n["name"] for n in H.walk(tn["body"]) if H.kind(n) == "MethodCall" and n["name"] in ("is_normal", "is_subnormal", "classify", "is_sign_negative", "is_sign_positive", "abs", "fract", "floor", "trunc", "round")})
    ctx.inst("C16.R3", "functions::BuiltInFunction::call[ToNumber]#unfiltered", not filt, "tests / roundings applied to the parsed number before it is returned: %s" % (filt or "none"), H.loc(tn["body"]))
    from rules import c06 as c06_
    c06_.to_json_number_rule(ctx, "C16.R1", core)
    ctx.inst("C16.R3", "functions::BuiltInFunction::call[ToNumber]", okp and not arith, "to_number parses with <f64 as FromStr> (%d parse calls), arithmetic on the result: %d" % (len(parse), len(arith)), H.loc(tn["body"]))


def decimal_literals_are_floats(ctx, rid, core):
    """a decimal literal is read by the f64 parser whatever it looks like: an integer parse (radix 10, `parse::<i64>`) of the digits
    rejects or saturates literals from 2^63 on - which the emitters and the formatter write out as plain digits (shared with C05 / C07)"""
    from rules.c10 import closure_of, rule_match
    import rules.c10 as _c10
    _c10.CRATE[0] = core
    builder = core.hir_fn("blots_core::expressions::pairs_to_expr_inner")["body"]
    cl = closure_of(builder, "map_primary", required=False)
    mprim = rule_match(cl, required=False) if cl is not None else None
    num_arm = None
    for a in (mprim["arms"] if mprim else []):
        if any(H.last(v) == "number" for v in H.pat_variants(a["pat"])):
            num_arm = a
    if num_arm is None:
        ctx.inst(rid, "builder#decimal-is-float-parse", None, "the number arm of the AST builder was not found", None)
        return
    ints = []
    for x in H.walk(num_arm["body"]):
        if H.kind(x) == "Call" and (x.get("def") or "").endswith("from_str_radix") and len(x.get("args", [])) == 2 and H.lit(x["args"][1]) and str(H.lit(x["args"][1])["v"]) == "10":
            ints.append("from_str_radix(.., 10) at %s" % H.loc(x))
        if H.kind(x) == "MethodCall" and x["name"] == "parse" and any(t_ in (x.get("ty") or "") for t_ in ("i64", "i32", "u64", "u32", "i128", "u128", "isize", "usize")):
            ints.append("parse::<integer> at %s" % H.loc(x))
    ctx.inst(rid, "builder#decimal-is-float-parse", not ints, "integer parses of decimal digits in the number arm: %s" % (ints or "none"), H.loc(num_arm["body"]))
