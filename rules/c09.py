"""C09 — formatting never loses or reorders comments (DESIGN §4 C09)."""
from lib.peg import Grammar
from rules import printers as P

NEED = ("dev",)


def run(ctx):
    core, cli, wasm = ctx.core, ctx.cli, ctx.wasm
    G = Grammar(ctx.grammar)
    ctx.not_decided += ["order preservation under line breaking in general (only that no emission path discards the comment fields and no grammar gap or driver drops a comment)"]
    P.C09_comment_fields(ctx, "C09.R1", core)
    P.C09_single_members(ctx, "C09.R1", core)
    P.C09_fallbacks(ctx, "C09.R1b", core)
    P.single_line_probe(ctx, "C09.R11", core)
    P.C09_drivers(ctx, "C09.R2", core, cli, wasm, G)
    P.C09_builder_slots(ctx, "C09.R3", core, G)
    P.C09_grammar_gaps(ctx, "C09.R5", G)
    from rules import symprint
    symprint.comment_order(ctx, "C09.R4", core, G)
    # "does this member carry comments" looks at both fields: the printers use the answer to choose the comment-preserving layout
    from lib import hir as H_
    hc_ = next((f_ for n_, f_ in core.hir.items() if n_.endswith("::has_comments") and "ast::Commented" in n_), None)
    if hc_ is None:
        ctx.inst("C09.R1", "Commented::has_comments#both-fields", None, "Commented::has_comments not found", None)
    else:
        flds_ = {x_["name"] for x_ in H_.walk(hc_["body"]) if H_.kind(x_) == "Field" and H_.path_local(x_["e"]) == "self"}
        ctx.inst("C09.R1", "Commented::has_comments#both-fields", {"leading", "trailing"} <= flds_, "fields consulted: %s (a member whose only comment is the one that is not consulted is printed by the comment-dropping single-line layout)" % sorted(flds_), H_.loc(hc_["body"]))
    # ---- R10 a do-block never fits on one line; lists and records share one grammar shape
    ctx.rule("C09.R10", "the single-line printers render every do-block with line breaks (the formatter reads a line break in the single-line rendering as 'this needs the multi-line, comment-preserving layout'), and the list and record rules are one rule with the brackets and the item kind renamed (the two printers share their comment handling)", floor=3)
    from rules import symprint as SP_
    from lib import symstr as Y_
    I_, pf_ = SP_.interp(core)
    for name_, variant_, alts_, ren_, loc_ in SP_.arms_of(core, I_, pf_):
        if variant_ != "DoBlock" or not (name_.endswith("::expr_to_source") or name_.endswith("::format_single_line") or name_.endswith("::expr_to_source_with_scope")):
            continue
        flat_ = [Y_.flatten(a_) for a_ in alts_]
        unk_ = any(any(x_[0] == "unk" for x_ in f_) for f_ in flat_)
        inline_ = [f_ for f_ in flat_ if not any(x_[0] == "nl" for x_ in f_) and not any(x_[0] == "unk" for x_ in f_)]
        ctx.inst("C09.R10", "%s[DoBlock]#never-one-line" % name_.replace("blots_core::", ""), False if inline_ else (None if unk_ else True), "%d output path(s); paths without a line break: %d" % (len(flat_), len(inline_)), loc_)
    import json as json_
    if "list" in G.rules and "record" in G.rules:
        ren2 = {"list_item": "record_item"}
        lit2 = {"[": "{", "]": "}", "[]": "{}"}

        def rn(e):
            if isinstance(e, dict):
                if e.get("k") == "ident" and e.get("v") in ren2:
                    return dict(e, v=ren2[e["v"]])
                if e.get("k") == "str" and e.get("v") in lit2:
                    return dict(e, v=lit2[e["v"]])
                return {k_: rn(v_) for k_, v_ in e.items()}
            return e
        same_ = json_.dumps(rn(G.expr("list")), sort_keys=True) == json_.dumps(G.expr("record"), sort_keys=True) and G.ty("list") == G.ty("record")
        ctx.inst("C09.R10", "grammar#list==record", same_, "`list` is `record` with [ ] and list_item for { } and record_item: %s" % same_, "blots-core/src/grammar.pest")
    from rules import panics
    panics.comment_slots_accepted(ctx, "C09.R7", [core, cli, wasm], G)
    panics.comment_text_whole(ctx, "C09.R8", core)
    panics.driver_appends_only(ctx, "C09.R9", [core, cli, wasm])
    # ---- R6 a comment is the rest of the physical line
    ctx.rule("C09.R6", "every comment rule consumes the text up to the physical end of the line: its stop look-ahead cannot itself start with `//` (a stop rule that includes an inline comment cuts a comment in two at a second `//`, e.g. a URL)", floor=3)
    for r in ("comment", "eol_comment", "inline_comment"):
        if r not in G.rules:
            continue
        negs = [e["e"] for e in G.walk(G.expr(r)) if e["k"] == "neg"]
        if not negs:
            ctx.inst("C09.R6", "rule=%s" % r, None, "no stop look-ahead found in %s" % r, "blots-core/src/grammar.pest")
            continue
        bad = []
        for ng in negs:
            try:
                fc = G.first_chars(ng)
            except Exception:
                fc = set()
            if "/" in fc:
                bad.append(ng.get("v") or ng["k"])
        ctx.inst("C09.R6", "rule=%s" % r, not bad, "stops at %s%s" % ([ng.get("v") or ng["k"] for ng in negs], "" if not bad else ": %s can start with `/`, i.e. with a comment of its own" % bad), "blots-core/src/grammar.pest")
    # ---- R3 (cont.) the builder hands its comment flag to every recursive call
    ctx.rule("C09.R3b", "inside the comment-preserving AST builder every recursive descent passes the `preserve_comments` flag on: no call of the non-preserving entry point and no constant flag", floor=5)
    from lib import hir as H
    bname = "blots_core::expressions::pairs_to_expr_inner"
    b = core.hir_fn(bname)
    flag = H.param_by_type(b, "bool")
    k = 0
    for fn_name in (bname, "blots_core::expressions::parse_record_entry"):
        if fn_name not in core.hir:
            continue
        f = core.hir_fn(fn_name)
        fl = H.param_by_type(f, "bool")
        for n in H.walk(f["body"]):
            if H.kind(n) != "Call":
                continue
            d = n.get("def") or ""
            if d in (bname, "blots_core::expressions::parse_record_entry"):
                a = n["args"][1] if len(n["args"]) > 1 else None
                # the flag travels as a bool variable (the builder's parameter, or a helper's parameter bound to it); a literal fixes it
                ok = a is not None and H.path_local(a) is not None and H.lit(a) is None
                ctx.inst("C09.R3b", "%s->%s[%d]" % (H.last(fn_name), H.last(d), k), ok, "comment flag argument: %s" % ("the builder's own flag" if ok else (H.kind(H.strip(a)) if a is not None else "missing")), H.loc(n))
                k += 1
            elif d in ("blots_core::expressions::pairs_to_expr", "blots_core::expressions::pairs_to_expr_with_comments"):
                ctx.inst("C09.R3b", "%s->%s[%d]" % (H.last(fn_name), H.last(d), k), False, "the builder re-enters through %s, which fixes the comment flag: comments below this point are kept or dropped regardless of the caller's choice" % H.last(d), H.loc(n))
                k += 1
