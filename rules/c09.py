"""C09 — formatting never loses or reorders comments (DESIGN §4 C09)."""
from lib.peg import Grammar
from rules import printers as P

NEED = ("dev",)


def run(ctx):
    core, cli, wasm = ctx.core, ctx.cli, ctx.wasm
    G = Grammar(ctx.grammar)
    ctx.not_decided += ["order preservation under line breaking in general (only that no emission path discards the comment fields and no grammar gap or driver drops a comment)"]
    P.C09_comment_fields(ctx, "C09.R1", core)
    P.C09_single_members(ctx, "C09.R1", core)
    P.C09_fallbacks(ctx, "C09.R1b", core)
    P.C09_drivers(ctx, "C09.R2", core, cli, wasm, G)
    P.C09_builder_slots(ctx, "C09.R3", core, G)
    P.C09_grammar_gaps(ctx, "C09.R5", G)
    from rules import symprint
    symprint.comment_order(ctx, "C09.R4", core, G)
