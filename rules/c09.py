"""C09 — formatting never loses or reorders comments (DESIGN §4 C09)."""
from lib.peg import Grammar
from rules import printers as P

NEED = ("dev",)


def comment_to_line_end(ctx, rid, G):
    """every comment rule stops at the physical end of the line only (shared with C10: a comment in a layout gap that contains a
    second `//` - a URL - would otherwise end the gap early and change how the lines around it are read)"""
    for r in ("comment", "eol_comment", "inline_comment"):
        if r not in G.rules:
            continue
        negs = [e["e"] for e in G.walk(G.expr(r)) if e["k"] == "neg"]
        if not negs:
            ctx.inst(rid, "rule=%s" % r, None, "no stop look-ahead found in %s" % r, "blots-core/src/grammar.pest")
            continue
        bad = []
        for ng in negs:
            try:
                fc = G.first_chars(ng)
            except Exception:
                fc = set()
            if "/" in fc:
                bad.append(ng.get("v") or ng["k"])
        ctx.inst(rid, "rule=%s" % r, not bad, "stops at %s%s" % ([ng.get("v") or ng["k"] for ng in negs], "" if not bad else ": %s can start with `/`, i.e. with a comment of its own" % bad), "blots-core/src/grammar.pest")


def run(ctx):
    core, cli, wasm = ctx.core, ctx.cli, ctx.wasm
    G = Grammar(ctx.grammar)
    ctx.not_decided += ["order preservation under line breaking in general (only that no emission path discards the comment fields and no grammar gap or driver drops a comment)"]
    P.C09_comment_fields(ctx, "C09.R1", core)
    P.C09_single_members(ctx, "C09.R1", core)
    P.C09_fallbacks(ctx, "C09.R1b", core)
    P.single_line_probe(ctx, "C09.R11", core)
    P.C09_drivers(ctx, "C09.R2", core, cli, wasm, G)
    P.C09_builder_slots(ctx, "C09.R3", core, G)
    P.C09_grammar_gaps(ctx, "C09.R5", G)
    from rules import symprint
    symprint.comment_order(ctx, "C09.R4", core, G)
    # "does this member carry comments" looks at both fields: the printers use the answer to choose the comment-preserving layout
    from lib import hir as H_
    hc_ = next((f_ for n_, f_ in core.hir.items() if n_.endswith("::has_comments") and "ast::Commented" in n_), None)
    if hc_ is None:
        ctx.inst("C09.R1", "Commented::has_comments#both-fields", None, "Commented::has_comments not found", None)
    else:
        flds_ = {x_["name"] for x_ in H_.walk(hc_["body"]) if H_.kind(x_) == "Field" and H_.path_local(x_["e"]) == "self"}
        ctx.inst("C09.R1", "Commented::has_comments#both-fields", {"leading", "trailing"} <= flds_, "fields consulted: %s (a member whose only comment is the one that is not consulted is printed by the comment-dropping single-line layout)" % sorted(flds_), H_.loc(hc_["body"]))
    # ---- R10 a do-block never fits on one line; lists and records share one grammar shape
    ctx.rule("C09.R10", "the single-line printers render every do-block with line breaks (the formatter reads a line break in the single-line rendering as 'this needs the multi-line, comment-preserving layout'), and the list and record rules are one rule with the brackets and the item kind renamed (the two printers share their comment handling)", floor=3)
    from rules import symprint as SP_
    from lib import symstr as Y_
    I_, pf_ = SP_.interp(core)
    for name_, variant_, alts_, ren_, loc_ in SP_.arms_of(core, I_, pf_):
        if variant_ != "DoBlock" or not (name_.endswith("::expr_to_source") or name_.endswith("::format_single_line") or name_.endswith("::expr_to_source_with_scope")):
            continue
        flat_ = [Y_.flatten(a_) for a_ in alts_]
        unk_ = any(any(x_[0] == "unk" for x_ in f_) for f_ in flat_)
        inline_ = [f_ for f_ in flat_ if not any(x_[0] == "nl" for x_ in f_) and not any(x_[0] == "unk" for x_ in f_)]
        ctx.inst("C09.R10", "%s[DoBlock]#never-one-line" % name_.replace("blots_core::", ""), False if inline_ else (None if unk_ else True), "%d output path(s); paths without a line break: %d" % (len(flat_), len(inline_)), loc_)
    import json as json_
    if "list" in G.rules and "record" in G.rules:
        ren2 = {"list_item": "record_item"}
        lit2 = {"[": "{", "]": "}", "[]": "{}"}

        def rn(e):
            if isinstance(e, dict):
                if e.get("k") == "ident" and e.get("v") in ren2:
                    return dict(e, v=ren2[e["v"]])
                if e.get("k") == "str" and e.get("v") in lit2:
                    return dict(e, v=lit2[e["v"]])
                return {k_: rn(v_) for k_, v_ in e.items()}
            return e
        same_ = json_.dumps(rn(G.expr("list")), sort_keys=True) == json_.dumps(G.expr("record"), sort_keys=True) and G.ty("list") == G.ty("record")
        ctx.inst("C09.R10", "grammar#list==record", same_, "`list` is `record` with [ ] and list_item for { } and record_item: %s" % same_, "blots-core/src/grammar.pest")
    from rules import panics
    panics.comment_slots_accepted(ctx, "C09.R7", [core, cli, wasm], G)
    # every rule of the grammar that can have a comment child has a builder arm that looks at comment children
    from lib import hir as H12
    ctx.rule("C09.R12", "wherever the grammar lets a comment be a child of a construct, the AST builder's arm for that construct handles comment children (it names Rule::comment / Rule::eol_comment): a comment position added to the grammar alone is accepted by the parser and dropped by the builder", floor=6)
    hb = core.hir_fn("blots_core::expressions::pairs_to_expr_inner")
    arms12 = {}
    for m_ in H12.walk(hb["body"]):
        if H12.kind(m_) == "Match" and (m_["scrut"].get("ty") or "").endswith("parser::Rule"):
            for a_ in m_["arms"]:
                for v_ in H12.pat_variants(a_["pat"]):
                    arms12.setdefault(H12.last(v_), []).append(a_)
    for r_ in G.order:
        if r_ in ("statement", "program", "input") or G.ty(r_) == "silent":
            continue
        try:
            kids = G.children(G.expr(r_))
        except Exception:
            continue
        ck = sorted(k_ for k_ in kids if k_ in ("comment", "eol_comment"))
        if not ck:
            continue
        if r_ not in arms12:
            ctx.inst("C09.R12", "rule=%s" % r_, None, "no builder arm found for %s (comment children: %s)" % (r_, ck), "blots-core/src/grammar.pest")
            continue
        named = any((H12.path_def(x) or "").endswith("parser::Rule::comment") or (H12.path_def(x) or "").endswith("parser::Rule::eol_comment") for a_ in arms12[r_] for x in H12.walk(a_["body"]) if H12.kind(x) == "Path") or \
            any(any(H12.last(v_) in ("comment", "eol_comment") for v_ in H12.pat_variants(a2["pat"])) for a_ in arms12[r_] for m2 in H12.walk(a_["body"]) if H12.kind(m2) == "Match" for a2 in m2["arms"])
        delegated = any(H12.kind(x) in ("Call", "MethodCall") and (x.get("def") or "").startswith("blots_core::") and not (x.get("def") or "").endswith("pairs_to_expr_inner") and any("pest::iterators" in (y.get("ty") or "") for a3 in x.get("args", []) for y in H12.walk(a3) if isinstance(y, dict)) for a_ in arms12[r_] for x in H12.walk(a_["body"]))
        # ... or takes its children by position, as many as the grammar can give it
        def bears(e_):
            return any(x_["k"] == "ident" and x_["v"] in G.rules and x_["v"] not in ("WHITESPACE", "NEWLINE", "plain_newline") and (G.ty(x_["v"]) != "silent" or bears(G.expr(x_["v"]))) for x_ in G.walk(e_))
        try:
            n_slots = sum(1 for e_ in G.seq(G.expr(r_)) if bears(e_))
        except Exception:
            n_slots = None
        nexts12 = max((sum(1 for x in H12.walk(a_["body"]) if H12.kind(x) == "MethodCall" and x["name"] == "next" and "Pairs<" in (x.get("recv_ty") or "")) for a_ in arms12[r_]), default=0)
        loops12 = any(H12.kind(x) == "For" and "Pairs<" in (H12.strip(x["iter"]).get("ty") or "") for a_ in arms12[r_] for x in H12.walk(a_["body"]))
        if not named and n_slots is not None and (nexts12 >= n_slots or loops12) and G.expr(r_)["k"] == "seq":
            named = True
        ctx.inst("C09.R12", "rule=%s" % r_, True if named else (None if delegated else False), "the grammar puts %s below %s; the builder's arm names a comment rule or takes every child slot by position: %s" % (ck, r_, named), H12.loc(arms12[r_][0]["body"]))
    panics.comment_text_whole(ctx, "C09.R8", core)
    panics.driver_appends_only(ctx, "C09.R9", [core, cli, wasm])
    # ---- R6 a comment is the rest of the physical line
    ctx.rule("C09.R6", "every comment rule consumes the text up to the physical end of the line: its stop look-ahead cannot itself start with `//` (a stop rule that includes an inline comment cuts a comment in two at a second `//`, e.g. a URL)", floor=3)
    comment_to_line_end(ctx, "C09.R6", G)
    # ---- R3 (cont.) the builder hands its comment flag to every recursive call
    ctx.rule("C09.R3b", "inside the comment-preserving AST builder every recursive descent passes the `preserve_comments` flag on: no call of the non-preserving entry point and no constant flag", floor=5)
    from lib import hir as H
    bname = "blots_core::expressions::pairs_to_expr_inner"
    b = core.hir_fn(bname)
    flag = H.param_by_type(b, "bool")
    k = 0
    for fn_name in (bname, "blots_core::expressions::parse_record_entry"):
        if fn_name not in core.hir:
            continue
        f = core.hir_fn(fn_name)
        fl = H.param_by_type(f, "bool")
        for n in H.walk(f["body"]):
            if H.kind(n) != "Call":
                continue
            d = n.get("def") or ""
            if d in (bname, "blots_core::expressions::parse_record_entry"):
                a = n["args"][1] if len(n["args"]) > 1 else None
                # the flag travels as a bool variable (the builder's parameter, or a helper's parameter bound to it); a literal fixes it
                ok = a is not None and H.path_local(a) is not None and H.lit(a) is None
                ctx.inst("C09.R3b", "%s->%s[%d]" % (H.last(fn_name), H.last(d), k), ok, "comment flag argument: %s" % ("the builder's own flag" if ok else (H.kind(H.strip(a)) if a is not None else "missing")), H.loc(n))
                k += 1
            elif d in ("blots_core::expressions::pairs_to_expr", "blots_core::expressions::pairs_to_expr_with_comments"):
                ctx.inst("C09.R3b", "%s->%s[%d]" % (H.last(fn_name), H.last(d), k), False, "the builder re-enters through %s, which fixes the comment flag: comments below this point are kept or dropped regardless of the caller's choice" % H.last(d), H.loc(n))
                k += 1
